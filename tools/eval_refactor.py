#!/usr/bin/env python3
"""eval_refactor.py <label> <diff> <meta.json> [extra check ids]: a refactoring claimed to preserve behaviour is applied to a
scratch copy of /repo; the pinned suite must pass and every quick check of a property it touches must stay SILENT (exit 0).
Stores the diff under selftest/refactors_ext/<label>/ with the verdicts."""
import json, os, shutil, subprocess, sys, tempfile
label, diff, meta = sys.argv[1:4]
extra = sys.argv[4:]
VERIF = os.path.dirname(os.path.dirname(os.path.abspath(__file__)))
m = json.load(open(meta))
checks = sorted(set([c for c in m.get("properties_touched", []) if isinstance(c, str) and c.startswith("C")] + extra))
tmp = tempfile.mkdtemp(prefix="onl-ref.")
res = {"label": label, "checks": {}}
try:
    dst = os.path.join(tmp, "repo")
    shutil.copytree("/repo", dst, ignore=shutil.ignore_patterns(".git", "__pycache__", "*.egg-info"))
    p = subprocess.run(["patch", "-p1", "-s", "-i", os.path.abspath(diff)], cwd=dst, stdout=subprocess.PIPE, stderr=subprocess.STDOUT, text=True)
    res["applies"] = p.returncode == 0
    if res["applies"]:
        env = dict(os.environ, PYTHONPATH=dst, PYTHONDONTWRITEBYTECODE="1")
        t = subprocess.run(["/venv/bin/python", "-m", "pytest", "-q", "-p", "no:cacheprovider", "--timeout=900", "tests", "--deselect", "tests/test_rt.py"],
                           cwd=dst, env=env, stdout=subprocess.PIPE, stderr=subprocess.STDOUT, text=True)
        res["suite"] = t.stdout.strip().splitlines()[-1] if t.stdout.strip() else ""
        for c in checks:
            e = dict(os.environ, VERIF_REPO=dst, VERIF_EVIDENCE_DIR=os.path.join(tmp, "ev"), VERIF_REPLAY_DIR=os.path.join(tmp, "rp"))
            k = subprocess.run([os.path.join(VERIF, "check"), c, "--tier", "quick"], env=e, stdout=subprocess.PIPE, stderr=subprocess.STDOUT, text=True)
            lines = [l for l in k.stdout.splitlines() if not l.startswith("KNOWN-FINDING")]
            res["checks"][c] = {"exit": k.returncode, "tail": [l[:260] for l in lines[-3:]],
                                "first": [l[:300] for l in lines if l.startswith("  [")][:2]}
    out = os.path.join(VERIF, "selftest", "refactors_ext", label)
    os.makedirs(out, exist_ok=True)
    shutil.copy(diff, os.path.join(out, "patch.diff"))
    m["evaluation"] = res
    json.dump(m, open(os.path.join(out, "meta.json"), "w"), indent=1)
    verdict = {c: ("SILENT" if r["exit"] == 0 else "ALARM" if r["exit"] == 1 else "MACHINERY-%d" % r["exit"]) for c, r in res["checks"].items()}
    print("%s applies=%s suite=%s %s" % (label, res.get("applies"), res.get("suite", "")[:40], verdict))
    for c, r in res["checks"].items():
        if r["exit"] != 0:
            print("    %s: %s" % (c, (r["first"] or r["tail"])[:1]))
finally:
    shutil.rmtree(tmp, ignore_errors=True)
