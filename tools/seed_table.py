#!/usr/bin/env python3
"""Markdown table of the independently seeded changes and which checks caught them (from seeded/*/meta.json)."""
import glob, json, os
HERE = os.path.dirname(os.path.dirname(os.path.abspath(__file__)))
rows = []
for d in sorted(glob.glob(os.path.join(HERE, "seeded", "*"))):
    mp = os.path.join(d, "meta.json")
    if not os.path.exists(mp):
        continue
    m = json.load(open(mp))
    ev = m.get("evaluation", {})
    caught = [c for c, v in ev.get("checks", {}).items() if v.get("exit") == 1 and v.get("violations", 0) > 0]
    missed = [c for c, v in ev.get("checks", {}).items() if c not in caught]
    what = (m.get("what_breaks") or "").replace("\n", " ").replace("|", "/")
    needs = (m.get("needs_to_manifest") or "").replace("\n", " ").replace("|", "/")
    rows.append("| %s | %s | %s | %s | %s | %s |" % (os.path.basename(d), ", ".join(m.get("files", []))[:60], what[:230], needs[:200],
                                                ", ".join(caught) or "—", "yes" if ev.get("confirmed") else "NO"))
print("| seed | files | what breaks | needs to manifest | caught by | confirmed (suite passes, demo fails/passes) |")
print("|---|---|---|---|---|---|")
print("\n".join(rows))
