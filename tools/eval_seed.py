#!/usr/bin/env python3
"""Evaluate one seeded change: eval_seed.py <property id> <label> <diff> <demo.py> <meta.json> [extra check ids ...]
Confirms in a scratch copy (outside /repo and /verif) that the change applies, the pinned suite still passes, the
demonstration fails with it and passes without it; then runs the quick check(s) against the changed copy.
Stores patch.diff, the demonstration and meta.json under /verif/seeded/<property>-<label>/ and prints a summary line."""
import json, os, shutil, subprocess, sys, tempfile, time
pid, label, diff, demo, meta = sys.argv[1:6]
extra = sys.argv[6:]
VERIF = os.path.dirname(os.path.dirname(os.path.abspath(__file__)))
tmp = tempfile.mkdtemp(prefix="onl-seed.")
res = {"property": pid, "label": label}
try:
    dst = os.path.join(tmp, "repo")
    shutil.copytree("/repo", dst, ignore=shutil.ignore_patterns(".git", "__pycache__", "*.egg-info"))
    shutil.copy(demo, os.path.join(dst, "demo.py"))
    env = dict(os.environ, PYTHONPATH=dst, PYTHONDONTWRITEBYTECODE="1")
    r0 = subprocess.run(["/venv/bin/python", "-B", "demo.py"], cwd=dst, env=env, stdout=subprocess.PIPE, stderr=subprocess.STDOUT, text=True, timeout=600)
    res["demo_pristine_exit"] = r0.returncode
    p = subprocess.run(["patch", "-p1", "-i", os.path.abspath(diff)], cwd=dst, stdout=subprocess.PIPE, stderr=subprocess.STDOUT, text=True)
    res["applies"] = p.returncode == 0
    if not res["applies"]:
        res["patch_output"] = p.stdout[-500:]
    for attempt in range(4):      # tests/test_rt.py measures wall-clock time and is flaky under load: retry
        t = subprocess.run(["/venv/bin/python", "-m", "pytest", "-q", "-p", "no:cacheprovider", "--timeout=900", "tests"], cwd=dst, env=env,
                           stdout=subprocess.PIPE, stderr=subprocess.STDOUT, text=True, timeout=1200)
        if t.returncode == 0 or "test_rt" not in t.stdout:
            break
    res["suite"] = t.stdout.strip().splitlines()[-1] if t.stdout.strip() else ""
    res["suite_passes"] = t.returncode == 0
    r1 = subprocess.run(["/venv/bin/python", "-B", "demo.py"], cwd=dst, env=env, stdout=subprocess.PIPE, stderr=subprocess.STDOUT, text=True, timeout=600)
    res["demo_changed_exit"] = r1.returncode
    res["demo_changed_output"] = r1.stdout.strip().splitlines()[-1][:300] if r1.stdout.strip() else ""
    res["confirmed"] = bool(res["applies"] and res["suite_passes"] and r0.returncode == 0 and r1.returncode != 0)
    res["checks"] = {}
    for c in [pid] + extra:
        t0 = time.time()
        e = dict(os.environ, VERIF_REPO=dst, VERIF_EVIDENCE_DIR=os.path.join(tmp, "ev"), VERIF_REPLAY_DIR=os.path.join(tmp, "rp"))
        k = subprocess.run([os.path.join(VERIF, "check"), c, "--tier", os.environ.get("SEED_TIER", "quick")], env=e,
                           stdout=subprocess.PIPE, stderr=subprocess.STDOUT, text=True)
        lines = k.stdout.splitlines()
        v = [l for l in lines if l.startswith("VIOLATION")]
        res["checks"][c] = {"exit": k.returncode, "violations": len(v), "wall_s": round(time.time() - t0, 1),
                            "tail": [l[:300] for l in lines[-3:]], "first": [l[:300] for l in lines if l.startswith("  [")][:2]}
    out = os.path.join(VERIF, "seeded", "%s-%s" % (pid, label))
    os.makedirs(out, exist_ok=True)
    shutil.copy(diff, os.path.join(out, "patch.diff"))
    shutil.copy(demo, os.path.join(out, "demo.py"))
    m = json.load(open(meta)) if os.path.exists(meta) else {}
    m.update({"evaluation": res, "ran": "tools/eval_seed.py: scratch copy of /repo HEAD + patch; pinned suite; demo on pristine and changed copy; ./check <id> --tier quick with VERIF_REPO=<copy>"})
    json.dump(m, open(os.path.join(out, "meta.json"), "w"), indent=1)
    caught = {c: (d["exit"] == 1 and d["violations"] > 0) for c, d in res["checks"].items()}
    print("%s-%s confirmed=%s caught=%s" % (pid, label, res["confirmed"], caught))
    if not res["confirmed"]:
        print("   ", {k: v for k, v in res.items() if k != "checks"})
finally:
    shutil.rmtree(tmp, ignore_errors=True)
