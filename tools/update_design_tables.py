#!/usr/bin/env python3
import os, re, subprocess
HERE = os.path.dirname(os.path.dirname(os.path.abspath(__file__)))
p = os.path.join(HERE, "DESIGN.md")
s = open(p).read()
t = subprocess.run([os.path.join(HERE, "tools", "seed_table.py")], stdout=subprocess.PIPE, text=True).stdout
s = re.sub(r"<!-- SEEDS-TABLE-BEGIN -->.*<!-- SEEDS-TABLE-END -->", "<!-- SEEDS-TABLE-BEGIN -->\n" + t + "<!-- SEEDS-TABLE-END -->", s, flags=re.S)
open(p, "w").write(s)
