#!/usr/bin/env python3
"""Regenerate MANIFEST.json from the table below (kept valid at all times)."""
import json, os
HERE = os.path.dirname(os.path.dirname(os.path.abspath(__file__)))
props = [json.loads(l) for l in open(os.path.join(HERE, "properties.jsonl"))]

KERN = 'the interpreter that maps op records to API calls (harness/drivers/kernel.py) and TLC are trusted; bounds as listed in the evidence; integer delays in the exhaustive runs, float delays in generated programs'
BUILT = {

 "C06": dict(
   technique="TLA+ spec SimKernel.tla (resource section) + ResMC model-checked with TLC over all request/release/cancel/with-exit histories within bounds; emitted histories replayed on the real Resource/PriorityResource/PreemptiveResource; generated longer histories validated by TLC",
   text="TLC enumerates every history of 2 processes x 3 ops (3 x 2 in the thorough tier) over request(priority, preempt), release, cancel, with-exit, sleep and yield on resources of capacity 1-2 and checks Capacity, NoIdleSlot (whenever the clock is about to advance), QueueSorted, GrantOrder, PreemptRule and NoEvictionWithoutPreempt; every emitted history is executed on the real classes step by step and the log (grant instants, Interrupt(Preempted(by, usage_since, resource)) causes, users and queue after every kernel step) compared with the specification's; generated histories with up to 5 processes are validated by TLC.",
   note=KERN + "; each process holds or awaits at most one request per resource and leaves its with-block before ending, as the property's quantifier says", design="6/C06"),
 "C07": dict(
   technique="TLA+ spec SimKernel.tla (resource section) + ResMC model-checked with TLC over all put/get/cancel histories within bounds; emitted histories replayed on the real Container/Store/PriorityStore/FilterStore; generated longer histories validated by TLC",
   text="TLC enumerates every history of 2 processes x 3 ops over put, get, cancel, sleep and yield on a container and on stores of capacity 1-2 with unique items and filters and checks LevelBounds, LevelConservation, StoreBound, ItemsOnce, StoreOrder, QueueFifo and NoStranded (whenever the clock is about to advance, also after cancellations); every emitted history is executed on the real classes step by step and the log (items and grant instants received, level, items and queue lengths after every kernel step) compared; generated longer histories are validated by TLC.",
   note=KERN + "; container amounts are integers scaled by exact powers of two (2^-40 .. 2^30), capacities a or a + 1/2; floating-point rounding of non-dyadic amounts is not decided", design="6/C07"),
 "C08": dict(
   technique="TLA+ specs Conserve.tla and GenSink.tla model-checked with TLC (safety and liveness) + TLC trace validation of tap traces recorded on every edge of random pipelines built from every real element class, and of the real DistPacketGenerator/PacketSink book-keeping",
   text="TLC checks Accounted, DropsOnlyByRule, PerFlowFifo, NoInvention, NoDuplication and Drains on chain, fan-in, fan-out and splitter topologies with <=4 packets, and the generator/sink clauses on short draw sequences; the driver builds seeded random DAGs (chains of 1-4, fan-in, fan-out, rejoining splitter branches, same-instant bursts) from all 17 element classes with a recording tap on every edge, runs lattice workloads to exhaustion and the global tap trace (edge crossings with identity and field snapshot, counters read back, loss draws, counters and store contents at quiescence, exceptions) must be a behaviour of the specification.",
   note="flows are restricted to those the scheduler is configured for and positive SP priorities (the quantifiers of C12/C13); which output a demux picks is C18's business, timing C09-C15's",
   design="6/C08"),

 "C09": dict(
   technique="TLA+ spec Port.tla model-checked with TLC (tail-drop and RED configs) + TLC trace validation of the real Port/REDPort/PortMonitor on TLC-emitted and random lattice workloads",
   text="Exhaustive TLC run of the timed port specification (all arrival patterns within the stated bounds, three limit modes, rate 0, zero-size packets, RED with scripted draws) checks the departure law, occupancy bound, counter identity, byte accounting and the RED region rules; every emitted workload (sampled in the quick tier) and seeded random larger ones are executed on the real classes and each recorded trace (arrivals, departures, monitor samples, public counters after every event) must be a behaviour of the same specification.",
   note="integer time/size lattice (rate = 8/K); off-lattice float rounding and RED drop frequencies are not decided; TLC and the JSON trace plumbing are trusted",
   design="6/C09"),
 "C01": dict(
   technique="TLA+ spec SimKernel.tla model-checked with TLC over all programs within bounds; every emitted program replayed on the real kernel and logs compared; generated larger programs validated by TLC (KernelTrace)",
   text="The implementation-shaped kernel specification (agenda, event life cycle, callback lists, processes, interrupts) is explored exhaustively with nondeterministic programs (every program of <=3 processes x 2 ops / 2 x 3 over timeouts 0/1/2, shared events, joins, spawns, interrupts, negative delay) with time-order, agenda and life-cycle invariants; each emitted program is executed on the real onl.sim kernel and its complete observable log (resumptions with instants and values, probe callbacks of every event, refused calls, run() outcome) must equal the specification's; larger on-the-fly generated programs (also with float delays, handled by rank abstraction of the exact float sums t0 + d, and tiny negative delays) are validated in the other direction by TLC (KernelTrace), final event states included; the agenda of every Environment created by the repository's own 119 tests and nine demo programs is recorded through a pytest plug-in and validated against AgendaTrace.tla.",
   note=KERN, design="6/C01, Part II 11"),
 "C02": dict(
   technique="TLA+ spec SimKernel.tla model-checked with TLC (alphabet: succeed/fail/Event.trigger, several waiters, catching/non-catching yields, child return/raise, double triggers, failures whose constructor does not take its own args, conditions with failing operands); emitted programs replayed on the real kernel; generated programs validated by TLC",
   text="Same machinery as C01 with the alphabet of C02: SingleWait, LifeCycle, ProbeOnce and DeliveredIsEventOutcome are checked on every reachable state; the logs compared include the value or exception (type and args) received at every yield, the outcome of every process event and the exception escaping run().",
   note=KERN, design="6/C02"),
 "C03": dict(
   technique="TLA+ spec SimKernel.tla with top-level plans (run / run(until=number) / run(until=event) / step) model-checked with TLC; emitted programs-with-plans replayed; generated ones validated by TLC, re-executed under three hash seeds and against the uninterrupted run; action property RunReturnsAtItsStop; network scenarios (also off the exact lattice: string class ids, decimal weights) repeated under up to six hash seeds",
   text="TLC enumerates every plan of <=3 stop commands over every program within the bounds (stop instants coinciding with due events, until <= now, until-events already processed); logs incl. every return value / exception of run() and peek() after every step() must equal the specification's. Generated programs with longer plans (also with float stop instants) are validated by TLC, re-run in separate interpreters under PYTHONHASHSEED 0/1/4242 (identical logs required) and compared with the same processes under uninterrupted run() calls (process-visible log must be a prefix); routing (hubs with string ids), scheduler and port scenarios (half of the RED ones on the real, program-seeded random generator) are executed twice in one interpreter and under the three hash seeds, traces must be identical. The thorough tier also checks liveness (every run()/step() returns) under weak fairness.",
   note=KERN + "; hash seeds are sampled, not quantified", design="6/C03"),
 "C04": dict(
   technique="TLA+ spec SimKernel.tla model-checked with TLC (alphabet: interrupt from processes, from the top level and from plain event callbacks, spawn, sleep, catching/non-catching yields, raise); emitted programs replayed on the real kernel; generated programs validated by TLC",
   text="Every program of <=3 processes x 2 ops / 2 x 3 in which processes interrupt each other (victims ignoring, re-waiting, waiting for something else, terminating, raising; dead and self targets) is executed on the real kernel; the log pins the instant and cause of every Interrupt, the resumption of victims and co-waiters and the RuntimeError at refused calls. SingleWait and FirstResumeIsInit are invariants of the model.",
   note=KERN, design="6/C04"),
 "C05": dict(
   technique="TLA+ spec SimKernel.tla model-checked with TLC (alphabet: all_of/any_of over timeouts, events, processes, conditions, the same operand listed twice); emitted programs replayed; generated condition trees validated by TLC, with the OrphanNested deviation recognising known finding F19b",
   text="Every program of 2 processes x 4 ops building conditions (<=2-3 operands, nesting, empty lists, processed operands, failing operands) is executed on the real kernel and the resume instants, ConditionValue key order and exceptions compared with the specification (CondPendingMeansUnmet is an invariant of the model). Generated programs with deeper trees and conditions without probe callbacks are validated by TLC; traces explained only by the named deviation are reported as KNOWN-FINDING F19b.",
   note=KERN, design="6/C05"),
 "C19": dict(
   technique="TLA+ spec Timer.tla model-checked with TLC over all stop/restart histories within bounds + inductive invariant of the same spec discharged by Apalache (unbounded timeouts/instants) + TLC trace validation of the real Timer on emitted and random histories",
   text="Exhaustive TLC run over all histories of <=4 outside stop/restart calls and scripted calls from the timer's own callback (before, exactly at and after expiries, one-shot and auto-restart, T/tau in 1..3) checks FiresExactlyAtExpiry, OncePerExpiry, StoppedNeverFires, RestartRebases, NeverRaises, ArgsPassed; emitted and random longer histories are replayed on the real Timer (callers created before and after the timer so both same-instant orders occur; scalar and list args) and each recorded trace must be a behaviour of the specification.",
   note="dyadic time lattice; re-arming an already expired one-shot timer is left open as the property does", design="6/C19"),

 "C10": dict(
   technique="TLA+ spec Wire.tla (+CableMC) model-checked with TLC incl. liveness + TLC trace validation of the real Wire/Cable with scripted delay and loss draws",
   text="Exhaustive TLC runs (lossless, lossy, early-draw and two-direction cable configurations) check the delivery law max(a+d, previous delivery), NotBefore, InOrder, NothingOverdue, ExactlyOnce, loss rules, one draw per packet and that the system drains; TLC-emitted and random workloads (bursts, decreasing delays, arrivals at delivery instants, re-sent packet objects, echo) are replayed on the real Wire and Cable with the harness supplying every delay and uniform draw, and each recorded trace must be a behaviour of the specification.",
   note="dyadic time lattice; the decision at u = p exactly and the moment of the delay draw inside an instant are left open as the property does; loss frequencies are not examined",
   design="6/C10"),
 "C11": dict(
   technique="TLA+ specs TokenBucket.tla and TwoRateTB.tla model-checked with TLC + TLC trace validation of the real TokenBucket/TwoRateTokenBucket",
   text="Exhaustive TLC runs check the conformance inequality over the history of debit instants, ReleaseLaw/EarliestRelease, PeakSpacing, FIFO, losslessness and for the two-rate bucket the colour rule, shaping law and GreenConformsToCIR; emitted and random lattice workloads (packets larger than the bucket, idle periods, bursts, arrivals at release instants, packets already coloured by an upstream meter) are replayed on the real classes, binding departure instants, colours and the token levels the attributes denote.",
   note="integer lattice (rate = 8R); the committed level after a yellow/red packet is left open as the property does; serial one-packet-at-a-time reading recorded as an assumption",
   design="6/C11"),
 "C18": dict(
   technique="TLA+ specs Routing.tla, FatTree.tla, FatTreeNet.tla model-checked with TLC; TLC evaluates structure and FIB-walk properties on graphs/tables exported from the real FatTree(k); TLC trace validation of the real demuxes/switches/hub/splitters and of end-to-end fat-tree simulations",
   text="TLC enumerates all small forwarding tables, output lists, end-device maps, hub populations and splitter fan-outs against the routing relations (exactly one output or none, end device before table, empty table valid, unknown flow to default, hub all-but-sender through port devices, splitter original first and independent copies carrying every header field); put-level traces of the real classes are validated against the same module. For k in {2,4,6,8} (quick: fewer) the networkx graph, flows and FIBs exported from the real FatTree are checked by TLC for the k-ary fat-tree structure, shortest paths and the hop-by-hop FIB walk (and reverse ACK class); end-to-end simulations on the real switches are validated by a Deliver trace spec.",
   note="negative flow ids and table entries naming non-existent ports are outside the stated domain; SimplePacketSwitch is read as routing by FlowDemux rules",
   design="6/C18"),
 "C12": dict(
   technique="TLA+ spec Sched.tla (policy ANY) model-checked with TLC + TLC trace validation of all six real schedulers and the Monitor",
   text="Exhaustive TLC run of the timed scheduler specification with the selection rule left open checks, over all workloads within the bounds, the start law (k-th transmission starts at max(end of k-1, k-th arrival) and lasts 8*size/rate: work-conserving, non-preemptive, rate-exact), per-flow FIFO, exactly-once, counter exactness; emitted and seeded random workloads (bursts, arrivals at transmission ends, idle gaps, several flows per class) are executed on the real SP/WFQ/VC/DRR/RR/WRR and each recorded trace (taps, size()/byte_size()/total_packets/packet_in_service after every action, Monitor samples) must be a behaviour of that specification.",
   note="integer lattice; selection order is deliberately not judged here (C13-C15 do); TLC and the JSON plumbing are trusted",
   design="6/C12"),
 "C13": dict(
   technique="TLA+ spec Sched.tla (policy SP) model-checked with TLC + TLC trace validation of the real SP scheduler",
   text="TLC checks StrictAtStart over a selection history on all workloads within the bounds (priority tables incl. equal priorities, 2-3 flows); emitted and random workloads keeping several priority levels backlogged are run on the real SP scheduler and every service start (pinned by departures, packet_in_service and the counters after each action) must be a selection the specification allows.",
   note="integer lattice; equal-priority ties are left open as the property does; a choice made at an instant must follow every arrival scheduled for that instant beforehand, arrivals created inside the instant by zero-delay hops may come after it",
   design="6/C13"),
 "C14": dict(
   technique="TLA+ spec Sched.tla (policies WFQ, VC) model-checked with TLC + TLC trace validation of the real WFQ and VirtualClock binding finish_times/vtime/aux_vc",
   text="TLC checks StampOrder on the selection history, counter exactness and the static-backlog fairness bound |S_i/w_i - S_j/w_j| <= Lmax/w_i + Lmax/w_j on all workloads within the bounds; emitted and random lattice workloads (idle periods that reset virtual time, equal stamps, shared classes, weights scaled by powers of two down to fractions summing to less than 1) are run on the real WFQ and VC, binding the stamp given to every arriving packet, the virtual time and the departure order.",
   note="WFQ sizes and instants are multiples of lcm(1..sum of weights) so every stamp is an exact integer; equal (stamp, arrival instant) ties are left open",
   design="6/C14"),
 "C15": dict(
   technique="TLA+ spec Sched.tla (policies DRR, RR, WRR) model-checked with TLC + TLC trace validation of the real DRR/RR/WRR binding DRR.deficit",
   text="TLC checks CreditRange, the DRR fairness bound over joint-backlog periods, RR one-per-visit and WRR allowance over a selection history on all workloads within the bounds; emitted and random workloads (packets larger/smaller than the quantum, classes emptying and refilling mid-round, shared classes) are run on the real schedulers, binding every class's deficit at every tap and the departure order.",
   note="integer lattice (quantum unit 1500, sizes multiples of 500); where the scan resumes after an idle period is left open as the property does",
   design="6/C15"),

 "C16": dict(
   technique="TLA+ specs TcpSink.tla and TcpLoop.tla model-checked with TLC (safety, liveness under weak fairness, NoSpuriousRetx) + TLC trace validation of the real TCPSink and of real sender-path-sink loops (Wires, a synchronous path without delay, paths that reorder) with scripted drop patterns",
   text="TLC checks AckIsPrefix/AckMonotone over all arrival sequences of <=5 segments (reordered, duplicated, gaps, first missing) and, for the untimed loop model with <=2 data and <=2 ACK drops, NoCrash, MarkIsTrue, TimersAreOutstanding, <>AllDelivered under weak fairness and NoSpuriousRetx on loss-free timely paths; the real TCPSink is driven with emitted and random arrival sequences, and real TCPPacketGenerator (Reno and CUBIC) -> Wire -> TCPSink -> Wire loops are run under every pattern of <=2+2 drops over the first 8 transmissions, the recorded event order (transmissions, sink arrivals/ACKs, ACK arrivals with last_ack/next_seq, end state) being validated against the loop specification.",
   note="the loop model is untimed (FIFO paths, or cfg.fifo = 0: any packet in flight may arrive next); window size, RTO values and which duplicate triggers fast retransmit are left to C17",
   design="6/C16"),

 "C17": dict(
   technique="TLA+ spec TcpSender.tla model-checked with TLC on exact rationals + TLC trace validation of the real TCPPacketGenerator driven open-loop with scripted ACK histories, every step validated from the logged pre-state",
   text="TLC checks WindowRespected, CwndAtLeastMSS, SegmentsConsecutive and each Reno/CUBIC rule as its own action property (slow start, congestion avoidance, third duplicate, further duplicates, deflation on leaving recovery, timeout, RTO law) over all histories of <=5-8 ACK/duplicate/timeout events with exact rational arithmetic; the real sender (TCPReno from several initial cwnd/ssthresh, TCPCubic from its defaults) is driven open-loop with emitted and random ACK histories and timer expiries, and after every event the logged cwnd, ssthresh, rto, next_seq, last_ack, duplicate count and RTT estimator are validated step by step from the logged pre-state: exact where the arithmetic is exact, within 2^-10 byte where it is not.",
   note="when a retransmission timer fires is left to C16/C19; CUBIC numbers follow the code's unit reading (bytes), recorded as an observation; float rounding below the log resolution is not decided",
   design="6/C17"),

 "C20": dict(
   technique="TLA+ spec Realtime.tla model-checked with TLC against an adversarial virtual wall clock + inductive invariant of the same spec discharged by Apalache + TLC trace validation of the real RealtimeEnvironment under a scripted monotonic/sleep pair; same programs executed on Environment and RealtimeEnvironment and validated against SimKernel",
   text="Exhaustive TLC runs over all agendas and wall-clock behaviours within the bounds (sleeps returning early, exactly, late, late by exactly factor; bodies consuming wall time; sync from the top level and from bodies; step repeated after a raise) check NeverEarly, StrictIff, NonStrictNeverRaises, SyncRebases, SleepsUntilDue; TLC-emitted schedules, random longer agendas and generated kernel programs are run on the real RealtimeEnvironment with onl.sim.rt.monotonic/sleep replaced by a scripted virtual clock, the pacing trace is validated against the specification, the kernel log must equal the plain Environment's and (initial time 0) is validated by TLC against SimKernel.",
   note="virtual clock on a quarter-tick lattice (a third of the random schedules on a 2^-16 s lattice), factors with exact binary representation; real wall clocks stay with tests/test_rt.py; the text after 'Simulation too slow for real time' is not compared",
   design="6/C20"),
}

checks = []
for p in props:
    b = BUILT.get(p["id"])
    if not b:
        continue
    checks.append({
        "property_id": p["id"],
        "quick_cmd": "./check %s --tier quick" % p["id"],
        "thorough_cmd": "./check %s --tier thorough" % p["id"],
        "evidence_file": "/verif/evidence/%s.json" % p["id"],
        "replay_cmd_template": "./check %s --replay {path}" % p["id"],
        "engine": "tlc",
        "level_claimed": {"category": "model_checking", "text": b["text"], "design_ref": b["design"]},
        "level_note": b["note"],
        "technique": b["technique"],
    })
m = {
 "version": 1,
 "setup_cmd": "true",
 "hooks": {"guard": "ONL_EDU_VERIF",
           "enable": "export ONL_EDU_VERIF=1 (set by the drivers; no hook is compiled into /repo, observation is through the public API)",
           "baseline_off_cmd": "cd /repo && /venv/bin/python -m pytest -q -p no:cacheprovider --timeout=900",
           "source_commits": [], "add_only": True},
 "engines": [{"name": "tlc", "path": "/verif/harness/vlib/tlc.py", "serves_properties": sorted(BUILT),
              "kind_free_text": "TLC 1.8 explicit-state model checker: exhaustive runs of the base specs, behaviour generation, batch trace validation of traces recorded from the real code"}],
 "checks": checks,
 "notes": "See DESIGN.md. ./check <id> --tier quick|thorough; honours VERIF_SEED, VERIF_TIER, VERIF_REPO.",
 "not_applicable": [{"property_id": p["id"], "reason": "check not built yet (planned, DESIGN.md section 6); not claimed"}
                    for p in props if p["id"] not in BUILT],
}
json.dump(m, open(os.path.join(HERE, "MANIFEST.json"), "w"), indent=1)
print("checks:", [c["property_id"] for c in checks])
