#!/usr/bin/env python3
"""Regenerate MANIFEST.json from the table below (kept valid at all times)."""
import json, os
HERE = os.path.dirname(os.path.dirname(os.path.abspath(__file__)))
props = [json.loads(l) for l in open(os.path.join(HERE, "properties.jsonl"))]

BUILT = {
 "C09": dict(
   technique="TLA+ spec Port.tla model-checked with TLC (tail-drop and RED configs) + TLC trace validation of the real Port/REDPort/PortMonitor on TLC-emitted and random lattice workloads",
   text="Exhaustive TLC run of the timed port specification (all arrival patterns within the stated bounds, three limit modes, rate 0, RED with scripted draws) checks the departure law, occupancy bound, counter identity, byte accounting and the RED region rules; every emitted workload (sampled in the quick tier) and seeded random larger ones are executed on the real classes and each recorded trace (arrivals, departures, monitor samples, public counters after every event) must be a behaviour of the same specification.",
   note="integer time/size lattice (rate = 8/K); off-lattice float rounding and RED drop frequencies are not decided; TLC and the JSON trace plumbing are trusted",
   design="6/C09"),
}

checks = []
for p in props:
    b = BUILT.get(p["id"])
    if not b:
        continue
    checks.append({
        "property_id": p["id"],
        "quick_cmd": "./check %s --tier quick" % p["id"],
        "thorough_cmd": "./check %s --tier thorough" % p["id"],
        "evidence_file": "/verif/evidence/%s.json" % p["id"],
        "replay_cmd_template": "./check %s --replay {path}" % p["id"],
        "engine": "tlc",
        "level_claimed": {"category": "model_checking", "text": b["text"], "design_ref": b["design"]},
        "level_note": b["note"],
        "technique": b["technique"],
    })
m = {
 "version": 1,
 "setup_cmd": "true",
 "hooks": {"guard": "ONL_EDU_VERIF",
           "enable": "export ONL_EDU_VERIF=1 (set by the drivers; no hook is compiled into /repo, observation is through the public API)",
           "baseline_off_cmd": "cd /repo && /venv/bin/python -m pytest -q -p no:cacheprovider --timeout=900",
           "source_commits": [], "add_only": True},
 "engines": [{"name": "tlc", "path": "/verif/harness/vlib/tlc.py", "serves_properties": sorted(BUILT),
              "kind_free_text": "TLC 1.8 explicit-state model checker: exhaustive runs of the base specs, behaviour generation, batch trace validation of traces recorded from the real code"}],
 "checks": checks,
 "notes": "See DESIGN.md. ./check <id> --tier quick|thorough; honours VERIF_SEED, VERIF_TIER, VERIF_REPO.",
 "not_applicable": [{"property_id": p["id"], "reason": "check not built yet (planned, DESIGN.md section 6); not claimed"}
                    for p in props if p["id"] not in BUILT],
}
json.dump(m, open(os.path.join(HERE, "MANIFEST.json"), "w"), indent=1)
print("checks:", [c["property_id"] for c in checks])
