#!/usr/bin/env python3
"""Re-run the quick check(s) named in every seeded/<id>/meta.json against the CURRENT /repo + that seed's patch.
Prints one line per seed: CAUGHT / MISSED / NO-LONGER-APPLIES (the tree has moved on: a later fix touched the same lines).
usage: recheck_seeds.py [seed-id-prefix ...]"""
import json, os, shutil, subprocess, sys, tempfile
VERIF = os.path.dirname(os.path.dirname(os.path.abspath(__file__)))
want = sys.argv[1:]
for d in sorted(os.listdir(os.path.join(VERIF, "seeded"))):
    if want and not any(d.startswith(w) for w in want):
        continue
    sd = os.path.join(VERIF, "seeded", d)
    try:
        meta = json.load(open(os.path.join(sd, "meta.json")))
    except Exception:
        continue
    caught_by = [c for c, r in meta.get("evaluation", {}).get("checks", {}).items() if r.get("exit") == 1 and r.get("violations")]
    if not caught_by:
        print("%-10s SKIP (never caught)" % d, flush=True)
        continue
    tmp = tempfile.mkdtemp(prefix="onl-rs.")
    try:
        dst = os.path.join(tmp, "repo")
        shutil.copytree("/repo", dst, ignore=shutil.ignore_patterns(".git", "__pycache__", "*.egg-info"))
        p = subprocess.run(["patch", "-p1", "-s", "-i", os.path.join(sd, "patch.diff")], cwd=dst, stdout=subprocess.PIPE, stderr=subprocess.STDOUT, text=True)
        if p.returncode != 0:
            print("%-10s NO-LONGER-APPLIES" % d, flush=True)
            continue
        c = caught_by[0]
        env = dict(os.environ, VERIF_REPO=dst, VERIF_EVIDENCE_DIR=os.path.join(tmp, "ev"), VERIF_REPLAY_DIR=os.path.join(tmp, "rp"))
        k = subprocess.run([os.path.join(VERIF, "check"), c, "--tier", "quick"], env=env, stdout=subprocess.PIPE, stderr=subprocess.STDOUT, text=True)
        print("%-10s %s by %s (exit %d)" % (d, "CAUGHT" if k.returncode == 1 and "VIOLATION" in k.stdout else "MISSED", c, k.returncode), flush=True)
    finally:
        shutil.rmtree(tmp, ignore_errors=True)
