#!/usr/bin/env python3
"""Run a list of mutants (selftest/mutants.json) through their checks; print a table.
usage: run_list.py [property-id ...] (default: all)"""
import json, os, subprocess, sys, time
here = os.path.dirname(os.path.abspath(__file__))
muts = json.load(open(os.path.join(here, "mutants.json")))
want = set(sys.argv[1:])
res = []
for m in muts:
    if want and m["check"] not in want:
        continue
    t0 = time.time()
    r = subprocess.run([os.path.join(here, "mutant.py"), m["check"], m["file"], m["old"], m["new"]],
                       stdout=subprocess.PIPE, stderr=subprocess.STDOUT, text=True)
    status = {0: "CAUGHT", 1: "MISSED", 2: "PATTERN-NOT-FOUND"}.get(r.returncode, "ERR%d" % r.returncode)
    print("%-8s %-4s %-28s %-60s %5.0fs" % (status, m["check"], m["file"].split("/")[-1], m["name"], time.time() - t0), flush=True)
    if status != "CAUGHT":
        print("   " + "\n   ".join(r.stdout.splitlines()[-5:]))
