#!/usr/bin/env python3
"""Apply a one-off textual mutation to a scratch copy of the repository and run a check against it.
usage: mutant.py <property id> <relative file> <old text> <new text> [--tier quick]
Exit 0 when the check reports a VIOLATION (mutant caught), 1 when it does not."""
import os, shutil, subprocess, sys, tempfile
pid, rel, old, new = sys.argv[1:5]
src = os.environ.get("VERIF_REPO", "/repo")
tmp = tempfile.mkdtemp(prefix="onl-mut.")
try:
    dst = os.path.join(tmp, "repo")
    shutil.copytree(src, dst, ignore=shutil.ignore_patterns(".git", "__pycache__", "*.egg-info"))
    p = os.path.join(dst, rel)
    s = open(p).read()
    if old not in s:
        print("pattern not found"); sys.exit(2)
    open(p, "w").write(s.replace(old, new, 1))
    env = dict(os.environ, VERIF_REPO=dst, VERIF_EVIDENCE_DIR=os.path.join(tmp, "ev"), VERIF_REPLAY_DIR=os.path.join(tmp, "rp"))
    r = subprocess.run([os.path.join(os.path.dirname(os.path.dirname(os.path.abspath(__file__))), "check"), pid] + sys.argv[5:],
                       env=env, stdout=subprocess.PIPE, stderr=subprocess.STDOUT, text=True)
    lines = r.stdout.splitlines()
    v = [l for l in lines if l.startswith("VIOLATION")]
    print("exit", r.returncode, "violations", len(v))
    print("\n".join(lines[-4:]))
    sys.exit(0 if r.returncode == 1 and v else 1)
finally:
    shutil.rmtree(tmp, ignore_errors=True)
