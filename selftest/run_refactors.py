#!/usr/bin/env python3
"""Behaviour-preserving refactorings of the repository: every listed check must stay silent (exit 0)."""
import json, os, shutil, subprocess, sys, tempfile, time
here = os.path.dirname(os.path.abspath(__file__))
for r in json.load(open(os.path.join(here, "refactors.json"))):
    tmp = tempfile.mkdtemp(prefix="onl-ref.")
    try:
        dst = os.path.join(tmp, "repo")
        shutil.copytree("/repo", dst, ignore=shutil.ignore_patterns(".git", "__pycache__", "*.egg-info"))
        p = os.path.join(dst, r["file"])
        s = open(p).read()
        ok = True
        for old, new in r["subs"]:
            if old not in s:
                print("PATTERN-NOT-FOUND %s: %r" % (r["name"], old[:60])); ok = False; break
            s = s.replace(old, new, 1)
        if not ok:
            continue
        open(p, "w").write(s)
        t = subprocess.run(["/venv/bin/python", "-m", "pytest", "-q", "-p", "no:cacheprovider", "-x", "--timeout=600", "tests", "--deselect", "tests/test_rt.py"],
                           cwd=dst, env=dict(os.environ, PYTHONPATH=dst), stdout=subprocess.PIPE, stderr=subprocess.STDOUT, text=True)
        suite = t.stdout.strip().splitlines()[-1] if t.stdout.strip() else "?"
        for c in r["checks"]:
            if len(sys.argv) > 1 and c not in sys.argv[1:]:
                continue
            t0 = time.time()
            env = dict(os.environ, VERIF_REPO=dst, VERIF_EVIDENCE_DIR=os.path.join(tmp, "ev"), VERIF_REPLAY_DIR=os.path.join(tmp, "rp"))
            k = subprocess.run([os.path.join(os.path.dirname(here), "check"), c], env=env, stdout=subprocess.PIPE, stderr=subprocess.STDOUT, text=True)
            status = "SILENT" if k.returncode == 0 else ("FALSE-ALARM" if k.returncode == 1 else "MACHINERY-%d" % k.returncode)
            print("%-12s %-4s %-70s suite: %s  %4.0fs" % (status, c, r["name"][:70], suite, time.time() - t0), flush=True)
            if k.returncode != 0:
                print("   " + "\n   ".join(k.stdout.splitlines()[-4:])[:800])
    finally:
        shutil.rmtree(tmp, ignore_errors=True)
