"""Drive the real TCPPacketGenerator open-loop with a scripted ACK history and record a trace (C17).

Scenario:
  cc      "reno" | "cubic"
  cwnd, ssthresh   initial values in bytes (Reno only; TCPCubic always starts from its defaults)
  rtt0    initial rtt_estimate in ticks
  den     ticks per second (a power of two <= 64): instants, delays and RTT samples are ticks/den
  size    flow size in bytes (0 = unbounded source)
  echo    (optional) 1: a retransmission of the oldest outstanding segment made by a timer is acknowledged at once, inside
          the sender's out.put() (a receiver right behind the sender)
  gaps    (optional) Flow.arrival_dist: scripted inter-arrival times of application data in ticks (last one repeats):
          the sender really sleeps in its refill loop while ACKs / duplicates / timer expiries change the window
  chunks  (optional) Flow.size_dist: scripted sizes in bytes of the chunks the application hands over (last repeats)
  ev      [{"op": "A", "dt", "k", "rtt", "late"}   new ACK advancing last_ack by k segments (clipped to what was sent),
                                                  delivered dt ticks after the previous scripted event; rtt >= 0:
                                                  the ACK's time stamp is now - rtt ticks; rtt = -1: the time stamp of
                                                  the latest transmission of the last segment it covers (what TCPSink echoes)
           {"op": "D", "dt", "late", "idle"}      one duplicate ACK (ack = last_ack); skipped when nothing is outstanding
                                                  unless idle = 1
           {"op": "W", "dt"}]                     only let time pass (retransmission timers fire)
          late = 1: the ACK is delivered behind everything else queued for its instant (a zero-delay hop)
The sender's `out` is a recording tap; only the public API / attributes are used.

Trace events (uniform records, all integers except e/type):
  S  a NEW segment appeared on out (logged inside the tap; ns = the segment's number, see Tap.put): seq, size
  A  put(ack) returned: ackno, rtt sample (as the sender computes it: now - ack.time), seq = segment retransmitted
     during the call (-1 none), nrx = number of segments put on out during the call
  T  a retransmission timer fired (one kernel step): seq = retransmitted segment
  X  an exception escaped put() / env.step();  Q  end of the script
Every record carries the public state AFTER the event: cwnd, ssth (bytes * 2^10, rounded; cx / sx = 1 when exact),
dup, la (last_ack), ns (next_seq), buf (send_buffer), srtt, rttvar, rto (seconds * 2^20, rounded; tx = 1 when all three
are exact), and for TCPCubic its epoch state (see cubic_state).  Values out of range become -777777.
"""
import netlib
from fractions import Fraction

BAD = -777777
SB = 1 << 10        # byte units per byte
ST = 1 << 20        # time units per second
MSS = 512
BASE = {"e": "", "t": 0, "ackno": -1, "rtt": -1, "rx": 1, "seq": -1, "size": -1, "nrx": 0, "type": "",
        "cwnd": 0, "cx": 1, "ssth": 0, "sx": 1, "dup": 0, "la": 0, "ns": 0, "buf": 0,
        "srtt": 0, "rttvar": 0, "rto": 0, "tx": 1}
CUBIC0 = {"wmax": 0, "wx": 1, "ep": 0, "epx": 1, "org": 0, "ox": 1, "dmin": 0, "dx": 1, "wtcp": 0, "wtx": 1,
          "K": 0, "Kx": 1, "ackc": 0, "ccnt": 0, "cnt": 0, "nx": 1}
LIM = 1 << 30


def fx(x, scale):
    """(round(x*scale), exact?) or (BAD, 0)."""
    try:
        if isinstance(x, bool):
            return BAD, 0
        f = Fraction(x) * scale
    except Exception:
        return BAD, 0
    q = round(f)
    if abs(q) >= LIM:
        return BAD, 0
    return int(q), int(f.denominator == 1)


def iv(x):
    if isinstance(x, bool) or not isinstance(x, int) or abs(x) >= LIM:
        return BAD
    return x


def run_one(sc):
    from onl.sim import Environment
    from onl.packet import Packet
    from onl.packet.tcp_generator import TCPPacketGenerator, TCPReno, TCPCubic, Flow

    den = sc.get("den", 8)
    CAP = sc.get("cap", 1500)        # event budget of the scenario
    cubic = sc["cc"] == "cubic"
    env = Environment()
    ev = []
    st = {"in_put": False, "put_out": [], "step_rx": []}
    last_tx = {}

    def tm(ticks):
        return ticks / den

    if cubic:
        cc = TCPCubic()
    else:
        cc = TCPReno(mss=MSS, cwnd=sc["cwnd"], ssthresh=sc["ssthresh"])
    def scripted(vals, conv):
        it = {"i": 0}

        def nxt():
            v = vals[min(it["i"], len(vals) - 1)]
            it["i"] += 1
            return conv(v)
        return nxt

    kw = {}
    if sc.get("gaps"):        # application-limited flow: data is handed over in scripted chunks at scripted gaps
        kw["arrival_dist"] = scripted(sc["gaps"], tm)
    if sc.get("chunks"):
        kw["size_dist"] = scripted(sc["chunks"], int)
    flow = Flow(flow_id=0, src="s", dst="d", finish_time=10 ** 9, size=sc.get("size") or None, **kw)
    snd = TCPPacketGenerator(env, flow, cc, element_id="snd", rtt_estimate=tm(sc.get("rtt0", den)))

    def cubic_state():
        d = {}
        d["wmax"], d["wx"] = fx(cc.W_last_max, SB)
        d["ep"], d["epx"] = fx(cc.epoch_start, ST)
        d["org"], d["ox"] = fx(cc.origin_point, SB)
        d["dmin"], d["dx"] = fx(cc.d_min, ST)
        d["wtcp"], d["wtx"] = fx(cc.W_tcp, SB)
        d["K"], d["Kx"] = fx(cc.K, ST)
        d["ackc"] = iv(cc.ack_cnt)
        d["ccnt"] = iv(cc.cwnd_cnt)
        # cnt = ACKs per MSS of growth: a ratio, logged in 1/16 and capped (anything >= 2^20 is "practically never")
        c = cc.cnt
        try:
            c = min(float(c), float(1 << 20))
        except Exception:
            c = None
        d["cnt"], d["nx"] = fx(c, 16) if c is not None else (BAD, 0)
        return d

    def snap():
        d = {}
        d["cwnd"], d["cx"] = fx(cc.cwnd, SB)
        d["ssth"], d["sx"] = fx(cc.ssthresh, SB)
        d["dup"], d["la"], d["ns"], d["buf"] = iv(snd.dupack), iv(snd.last_ack), iv(snd.next_seq), iv(snd.send_buffer)
        a, ax = fx(snd.rtt_estimate, ST)
        b, bx = fx(snd.est_deviation, ST)
        c, cx = fx(snd.rto, ST)
        d["srtt"], d["rttvar"], d["rto"], d["tx"] = a, b, c, int(ax and bx and cx)
        if cubic:
            d.update(cubic_state())
        return d

    def log(**kw):
        r = dict(BASE)
        if cubic:
            r.update(CUBIC0)
        r["t"] = fx(env.now, ST)[0]
        r.update(snap())
        r.update(kw)
        ev.append(r)

    class Tap:
        def put(self, pkt):
            pid = pkt.packet_id
            if len(ev) > CAP:
                raise RuntimeError("runaway: more than %d events" % CAP)     # e.g. a send loop that never blocks
            # a NEW segment: this sequence number appears for the first time, and it is the sender's next one -- whether
            # next_seq is advanced before or after the segment is handed on is the implementation's business, so the
            # record shows next_seq as it is at the moment of sending, i.e. the segment's own number
            new = pid not in last_tx and snd.next_seq in (pid, pid + pkt.size)
            last_tx[pid] = env.now
            if st["in_put"]:
                st["put_out"].append(pid)
            elif new:
                log(e="S", seq=iv(pid), size=iv(pkt.size), ns=iv(pid))
            elif sc.get("echo") and pid == snd.last_ack and not st.get("echoing"):
                # "echo": the receiver sits right behind the sender (a path without delay) and acknowledges the
                # retransmission of the oldest outstanding segment at once, inside out.put().  The timeout is recorded
                # here, at the moment the retransmission appears -- what it did to cwnd and RTO is what the ACK meets
                log(e="T", seq=iv(pid), nrx=1)
                st["echoing"] = True
                try:
                    deliver(min(pid + MSS, snd.next_seq), env.now)
                finally:
                    st["echoing"] = False
            else:
                st["step_rx"].append(pid)

    snd.out = Tap()
    cfg = {"cc": sc["cc"], "mss": MSS, "size": sc.get("size", 0)}
    cfg.update(snap())

    done = [False]

    def in_range():
        return (snd.rto <= 100 and cc.cwnd <= 400000 and cc.ssthresh <= 400000 and env.now <= (80 if cubic else 1500)
                and snd.next_seq < (1 << 24))

    def deliver(ackno, stamp):
        ack = Packet(stamp, size=40, packet_id=max(ackno - MSS, 0), flow_id=10000)
        ack.ack = ackno
        sample = env.now - stamp
        st["in_put"] = True
        st["put_out"] = []
        try:
            snd.put(ack)
        except BaseException as e:  # noqa
            st["in_put"] = False
            log(e="X", ackno=iv(ackno), type=type(e).__name__)
            return False
        st["in_put"] = False
        out = st["put_out"]
        r, rxx = fx(sample, ST)
        log(e="A", ackno=iv(ackno), rtt=r, rx=rxx, seq=iv(out[0]) if out else -1, nrx=len(out))
        return True

    def script():
        for op in sc["ev"]:
            if op.get("dt", 0) > 0:
                yield env.timeout(tm(op["dt"]))
            if op.get("late"):
                yield env.timeout(0)
            if not in_range():
                break
            if op["op"] == "A":
                ackno = min(snd.last_ack + op["k"] * MSS, snd.next_seq)
                if ackno <= snd.last_ack:
                    continue
                if op.get("rtt", -1) >= 0:
                    stamp = env.now - tm(op["rtt"])      # may be negative: a time stamp is just a number
                else:
                    stamp = last_tx.get(ackno - MSS, env.now)
                if not deliver(ackno, stamp):
                    break
            elif op["op"] == "D":
                if snd.last_ack >= snd.next_seq and not op.get("idle"):
                    continue       # idle = 1: a repeat of the latest ACK is delivered even with nothing outstanding
                if not deliver(snd.last_ack, last_tx.get(snd.last_ack, env.now)):
                    break
        yield env.timeout(0)
        done[0] = True

    proc = env.process(script())
    steps = 0
    ok = True
    while not done[0] and proc.is_alive:
        st["step_rx"] = []
        try:
            env.step()
        except BaseException as e:  # noqa
            log(e="X", type=type(e).__name__)
            ok = False
            break
        for pid in st["step_rx"]:
            # a segment that is not new appeared on out outside put(): a retransmission timer fired
            log(e="T", seq=iv(pid), nrx=len(st["step_rx"]))
        if ev and ev[-1]["e"] == "X":
            ok = False
            break
        if not in_range():
            break          # the next values would leave the fixed-point range: the observation ends here
        steps += 1
        if steps > 50000 or len(ev) > CAP:
            log(e="X", type="Runaway")
            ok = False
            break
    if ok:
        log(e="Q")
    return {"cfg": cfg, "ev": ev}


if __name__ == "__main__":
    netlib.main(run_one)
