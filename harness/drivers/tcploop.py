"""Run a real TCPPacketGenerator -> tap -> Wire -> TCPSink -> tap -> Wire -> TCPPacketGenerator loop with a scripted
drop pattern and record what happens, in order (C16, part 2).

Scenario:
  {"cc": "reno" | "cubic", "n": flow size in MSS segments, "dd": [data transmission numbers to drop],
   "ad": [ACK emission numbers to drop], "fwd": [num, den], "rev": [num, den]  (constant one-way delays),
   "rtt0": [num, den] (the sender's initial rtt_estimate), "start": [num, den] (flow start time),
   "fid": flow id, "until": horizon (simulated time)}
Only the public surface is used: the constructors, the `out` attributes (taps), put(), the public attributes
mss / rto / last_ack / next_seq of the sender and recv_buffer of the sink.  The taps apply the drops: the i-th packet
the sender puts on its output is discarded iff i is in dd, the i-th ACK the sink emits iff i is in ad.

Trace = {"cfg": {n, dd, ad, timely, mss, fl}, "ev": [...], "tm": [instant of every event], "info": {...}}.
Events (uniform records, see spec/tcp/TcpLoopTrace.tla): T, S, C, Q, X.
cfg.timely = 1 iff nothing is scripted to be dropped and at every event the sender's public rto was strictly above
the round-trip time fwd + rev of the path (premise of the "no segment is transmitted twice" clause).
"""
from fractions import Fraction

import netlib
from tcpsink import enc, prefix_of, BAD

BASE = {"e": "", "seq": -1, "sz": -1, "fl": -1, "n": -1, "dr": -1, "re": -1, "ctx": -1, "ack": -1, "k": -1,
        "nfr": -1, "la": -1, "ns": -1, "pre": -1, "type": ""}


class Runaway(BaseException):
    pass


def fr(x, default):
    if x is None:
        return Fraction(default)
    if isinstance(x, (list, tuple)):
        return Fraction(x[0], x[1])
    return Fraction(x)


def run_one(sc):
    from onl.sim import Environment
    from onl.packet import Flow, TCPPacketGenerator, TCPSink, TCPReno, TCPCubic
    from onl.netdev import Wire

    n = sc["n"]
    dd = set(sc.get("dd", []))
    ad = set(sc.get("ad", []))
    fwd = float(fr(sc.get("fwd"), Fraction(1, 8)))
    rev = float(fr(sc.get("rev"), Fraction(1, 8)))
    rtt0 = float(fr(sc.get("rtt0"), 1))
    start = float(fr(sc.get("start"), 0))
    until = sc.get("until", 1000000)
    fid = sc.get("fid", 1)
    env = Environment()
    ev, tm = [], []
    # a run that completes needs far fewer events (at most about a third of this on every scenario tried, at most half
    # for long flows whose RTO has collapsed onto the RTT so that every window is retransmitted once -- the n*n term);
    # a sender and sink that keep answering each other for ever are cut off here and the trace ends in an X event
    limit = sc.get("cap") or 60 + 24 * n + 24 * (len(dd) + len(ad)) + n * n // 4
    premise = [True]
    st = {"inside": False, "nfr": 0, "sender": None}
    sent_before = set()

    def log(**kw):
        if len(ev) >= limit:
            raise Runaway()
        ev.append(dict(BASE, **kw))
        tm.append(env.now)
        s = st["sender"]
        if s is not None:
            try:
                if not (s.rto > fwd + rev):
                    premise[0] = False
            except Exception:
                premise[0] = False

    class DataTap:
        """in front of the data path: numbers the sender's transmissions and applies the scripted drops"""

        def __init__(self, out):
            self.n = 0
            self.out = out

        def put(self, pkt):
            self.n += 1
            drop = self.n in dd
            seq = enc(getattr(pkt, "packet_id", None))
            if st["inside"]:
                st["nfr"] += 1
            log(e="T", seq=seq, sz=enc(getattr(pkt, "size", None)), fl=enc(getattr(pkt, "flow_id", None)), n=self.n,
                dr=int(drop), re=int(seq in sent_before), ctx=int(st["inside"]))
            sent_before.add(seq)
            if not drop:
                self.out.put(pkt)

    class AckTap:
        """behind the sink: numbers the ACKs and applies the scripted drops"""

        def __init__(self, out):
            self.n = 0
            self.out = out
            self.seen = []

        def put(self, pkt):
            self.n += 1
            drop = self.n in ad
            self.seen.append((enc(getattr(pkt, "ack", None)), self.n, int(drop)))
            if not drop:
                self.out.put(pkt)

    class SinkTap:
        """end of the data path: hands the packet to the sink and records what the sink answered"""

        def __init__(self, sink, acktap):
            self.sink = sink
            self.acktap = acktap

        def put(self, pkt):
            seq = enc(getattr(pkt, "packet_id", None))
            before = len(self.acktap.seen)
            self.sink.put(pkt)
            new = self.acktap.seen[before:]
            if new:
                ack, an, dr = new[-1]
            else:
                ack, an, dr = -1, -1, -1
            log(e="S", seq=seq, ack=ack, k=len(new), n=an, dr=dr)

    class SenderTap:
        """end of the ACK path: hands the ACK to the sender"""

        def __init__(self, sender):
            self.sender = sender

        def put(self, pkt):
            ack = enc(getattr(pkt, "ack", None))
            st["inside"] = True
            st["nfr"] = 0
            try:
                self.sender.put(pkt)
            finally:
                st["inside"] = False
            log(e="C", ack=ack, nfr=st["nfr"], la=enc(self.sender.last_ack), ns=enc(self.sender.next_seq))

    cfg = {"n": n, "dd": sorted(dd), "ad": sorted(ad), "timely": 0, "mss": 512, "fl": fid}
    info = {}
    try:
        flow = Flow(flow_id=fid, src="a", dst="b", start_time=start, finish_time=float(until) * 4 + 10)
        cc = TCPCubic() if sc.get("cc") == "cubic" else TCPReno()
        sender = TCPPacketGenerator(env, flow=flow, cc=cc, rtt_estimate=rtt0)
        cfg["mss"] = enc(sender.mss)
        flow.size = n * sender.mss
        st["sender"] = sender
        w1 = Wire(env, lambda: fwd)
        w2 = Wire(env, lambda: rev)
        sink = TCPSink(env)
        acktap = AckTap(w2)
        sender.out = DataTap(w1)
        w1.out = SinkTap(sink, acktap)
        sink.out = acktap
        w2.out = SenderTap(sender)
    except BaseException as e:  # noqa
        ev.append(dict(BASE, e="X", type=type(e).__name__))
        tm.append(0)
        return {"cfg": cfg, "ev": ev, "tm": tm, "info": {"msg": str(e)[:200]}}

    rec = netlib.Recorder(env)
    try:
        ok = netlib.run_env(env, rec, until=until, max_steps=100000)
    except Runaway:
        ok = False
        rec.ev.append({"e": "X", "type": "Runaway"})
    for e in rec.ev:
        ev.append(dict(BASE, e="X", type=str(e.get("type", ""))[:60]))
        tm.append(env.now)
        info["msg"] = str(e.get("msg", ""))[:200]
    if ok:
        try:
            ev.append(dict(BASE, e="Q", la=enc(sender.last_ack), ns=enc(sender.next_seq), pre=prefix_of(sink.recv_buffer)))
            tm.append(env.now)
            info["exhausted"] = int(env.peek() == float("inf"))
            info["recv_buffer"] = [list(map(enc, r)) for r in sink.recv_buffer][:8]
        except BaseException as e:  # noqa
            ev.append(dict(BASE, e="X", type=type(e).__name__))
            tm.append(env.now)
    if not dd and not ad and premise[0]:
        cfg["timely"] = 1
    info["rto_end"] = repr(getattr(sender, "rto", None))
    return {"cfg": cfg, "ev": ev, "tm": tm, "info": info}


if __name__ == "__main__":
    netlib.main(run_one)
