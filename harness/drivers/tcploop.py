"""Run a real TCPPacketGenerator -> tap -> Wire -> TCPSink -> tap -> Wire -> TCPPacketGenerator loop with a scripted
drop pattern and record what happens, in order (C16, part 2).

Scenario:
  {"cc": "reno" | "cubic", "n": flow size in MSS segments, "dd": [data transmission numbers to drop],
   "ad": [ACK emission numbers to drop], "fwd": [num, den], "rev": [num, den]  (constant one-way delays),
   "rtt0": [num, den] (the sender's initial rtt_estimate), "start": [num, den] (flow start time),
   "fid": flow id, "until": horizon (simulated time),
   "path": "wire" (default: two real Wires, FIFO) | "direct" (no delay at all: the sink's put() runs inside the sender's
           out.put(), the sender's put() inside the sink's out.put() -- the topology `gen.out = sink; sink.out = gen`)
           | "jitter" (each packet is delayed by its own amount fj[i] / rj[i], so packets overtake each other),
   "finish": "none" -> the Flow keeps its default finish_time (None),
   "finish_at": [num, den] -> an unbounded source (no Flow.size) that stops producing new data at that instant: the flow
           is then whatever was sent before it (cfg.n is filled in from next_seq at the end of the run)}
Only the public surface is used: the constructors, the `out` attributes (taps), put(), the public attributes
mss / rto / last_ack / next_seq of the sender and recv_buffer of the sink.  The taps apply the drops: the i-th packet
the sender puts on its output is discarded iff i is in dd, the i-th ACK the sink emits iff i is in ad.

Trace = {"cfg": {n, dd, ad, timely, mss, fl}, "ev": [...], "tm": [instant of every event], "info": {...}}.
Events (uniform records, see spec/tcp/TcpLoopTrace.tla): T, S, C, Q, X.
cfg.timely = 1 iff nothing is scripted to be dropped and at every event the sender's public rto was strictly above
the round-trip time fwd + rev of the path (premise of the "no segment is transmitted twice" clause).
"""
from fractions import Fraction

import netlib
from tcpsink import enc, prefix_of, BAD

BASE = {"e": "", "seq": -1, "sz": -1, "fl": -1, "n": -1, "dr": -1, "re": -1, "ctx": -1, "ack": -1, "k": -1,
        "nfr": -1, "la": -1, "ns": -1, "pre": -1, "type": ""}


class Runaway(BaseException):
    pass


def fr(x, default):
    if x is None:
        return Fraction(default)
    if isinstance(x, (list, tuple)):
        return Fraction(x[0], x[1])
    return Fraction(x)


def run_one(sc):
    from onl.sim import Environment
    from onl.packet import Flow, TCPPacketGenerator, TCPSink, TCPReno, TCPCubic
    from onl.netdev import Wire

    n = sc["n"]
    dd = set(sc.get("dd", []))
    ad = set(sc.get("ad", []))
    fwd = float(fr(sc.get("fwd"), Fraction(1, 8)))
    rev = float(fr(sc.get("rev"), Fraction(1, 8)))
    rtt0 = float(fr(sc.get("rtt0"), 1))
    start = float(fr(sc.get("start"), 0))
    until = sc.get("until", 1000000)
    fid = sc.get("fid", 1)
    env = Environment()
    ev, tm = [], []
    # a run that completes needs far fewer events (at most about a third of this on every scenario tried, at most half
    # for long flows whose RTO has collapsed onto the RTT so that every window is retransmitted once -- the n*n term);
    # a sender and sink that keep answering each other for ever are cut off here and the trace ends in an X event
    if sc.get("finish_at"):
        n = 48           # only for the size of the event budget; the real n is read off at the end
    limit = sc.get("cap") or 60 + 24 * n + 24 * (len(dd) + len(ad)) + n * n // 4
    premise = [True]
    st = {"frames": [], "sender": None}
    sent_before = set()

    def log(**kw):
        if len(ev) >= limit:
            raise Runaway()
        ev.append(dict(BASE, **kw))
        tm.append(env.now)
        s = st["sender"]
        if s is not None:
            try:
                if not (s.rto > fwd + rev):
                    premise[0] = False
            except Exception:
                premise[0] = False

    class DataTap:
        """in front of the data path: numbers the sender's transmissions and applies the scripted drops"""

        def __init__(self, out):
            self.n = 0
            self.out = out

        def put(self, pkt):
            self.n += 1
            drop = self.n in dd
            seq = enc(getattr(pkt, "packet_id", None))
            fr_ = st["frames"][-1] if st["frames"] else None
            if fr_ is not None:
                fr_["nfr"] += 1
            log(e="T", seq=seq, sz=enc(getattr(pkt, "size", None)), fl=enc(getattr(pkt, "flow_id", None)), n=self.n,
                dr=int(drop), re=int(seq in sent_before), ctx=int(fr_ is not None))
            sent_before.add(seq)
            if fr_ is not None and not fr_["done"]:
                # a transmission from inside sender.put(ack): the sender has dealt with the ACK (that is why it transmits);
                # its "C" record is written here, before the packet travels on -- over a path without delay everything
                # the packet causes happens before sender.put(ack) returns
                fr_["done"] = True
                s_ = st["sender"]
                log(e="C", ack=fr_["ack"], nfr=fr_["nfr"], la=enc(s_.last_ack), ns=enc(s_.next_seq))
            if not drop:
                self.out.put(pkt)

    class AckTap:
        """behind the sink: numbers the ACKs and applies the scripted drops.  While the sink's put() is running the ACKs
        are held and handed on right after the "S" record was written (so that the record of the arrival precedes what
        the ACK causes further on, also on a path without any delay)"""

        def __init__(self, out):
            self.n = 0
            self.out = out
            self.seen = []
            self.hold = None

        def put(self, pkt):
            self.n += 1
            drop = self.n in ad
            self.seen.append((enc(getattr(pkt, "ack", None)), self.n, int(drop)))
            if not drop:
                if self.hold is not None:
                    self.hold.append(pkt)
                else:
                    self.out.put(pkt)

    class Jitter:
        """a path that delays every packet by its own scripted amount (cyclically): packets may overtake each other"""

        def __init__(self, delays, out):
            self.delays, self.out, self.i = delays, out, 0

        def put(self, pkt):
            d = self.delays[self.i % len(self.delays)]
            self.i += 1
            env.process(self.carry(pkt, d))

        def carry(self, pkt, d):
            yield env.timeout(d)
            self.out.put(pkt)

    class SinkTap:
        """end of the data path: hands the packet to the sink and records what the sink answered"""

        def __init__(self, sink, acktap):
            self.sink = sink
            self.acktap = acktap

        def put(self, pkt):
            seq = enc(getattr(pkt, "packet_id", None))
            before = len(self.acktap.seen)
            outer, self.acktap.hold = self.acktap.hold, []
            try:
                self.sink.put(pkt)
            finally:
                held, self.acktap.hold = self.acktap.hold, outer
            new = self.acktap.seen[before:]
            if new:
                ack, an, dr = new[-1]
            else:
                ack, an, dr = -1, -1, -1
            log(e="S", seq=seq, ack=ack, k=len(new), n=an, dr=dr)
            for a in held:
                self.acktap.out.put(a)

    class SenderTap:
        """end of the ACK path: hands the ACK to the sender"""

        def __init__(self, sender):
            self.sender = sender

        def put(self, pkt):
            frame = {"ack": enc(getattr(pkt, "ack", None)), "nfr": 0, "done": False}
            st["frames"].append(frame)
            try:
                self.sender.put(pkt)
            finally:
                st["frames"].pop()
            if not frame["done"]:
                log(e="C", ack=frame["ack"], nfr=frame["nfr"], la=enc(self.sender.last_ack), ns=enc(self.sender.next_seq))
            elif frame["nfr"] > 1:
                log(e="X", type="SeveralTransmissionsForOneAck")

    path = sc.get("path", "wire")
    cfg = {"n": n, "dd": sorted(dd), "ad": sorted(ad), "timely": 0, "fifo": 0 if path == "jitter" else 1, "mss": 512, "fl": fid}
    if path == "direct":
        fwd = rev = 0.0
    info = {}
    try:
        if sc.get("finish_at"):
            flow = Flow(flow_id=fid, src="a", dst="b", start_time=start, finish_time=start + float(fr(sc["finish_at"], 1)))
        elif sc.get("finish") == "none":
            flow = Flow(flow_id=fid, src="a", dst="b", start_time=start)      # finish_time keeps its default
        else:
            flow = Flow(flow_id=fid, src="a", dst="b", start_time=start, finish_time=float(until) * 4 + 10)
        cc = TCPCubic() if sc.get("cc") == "cubic" else TCPReno()
        sender = TCPPacketGenerator(env, flow=flow, cc=cc, rtt_estimate=rtt0)
        cfg["mss"] = enc(sender.mss)
        if not sc.get("finish_at"):
            flow.size = n * sender.mss
        st["sender"] = sender
        sink = TCPSink(env)
        if path == "direct":
            acktap = AckTap(SenderTap(sender))
            sender.out = DataTap(SinkTap(sink, acktap))
        elif path == "jitter":
            fj = [float(fr(x, 0)) for x in sc["fj"]]
            rj = [float(fr(x, 0)) for x in sc["rj"]]
            fwd, rev = max(fj), max(rj)          # for the RTT < RTO premise: the slowest packet
            acktap = AckTap(Jitter(rj, SenderTap(sender)))
            sender.out = DataTap(Jitter(fj, SinkTap(sink, acktap)))
        else:
            w1 = Wire(env, lambda: fwd)
            w2 = Wire(env, lambda: rev)
            acktap = AckTap(w2)
            sender.out = DataTap(w1)
            w1.out = SinkTap(sink, acktap)
            w2.out = SenderTap(sender)
        sink.out = acktap
    except BaseException as e:  # noqa
        ev.append(dict(BASE, e="X", type=type(e).__name__))
        tm.append(0)
        return {"cfg": cfg, "ev": ev, "tm": tm, "info": {"msg": str(e)[:200]}}

    rec = netlib.Recorder(env)
    try:
        ok = netlib.run_env(env, rec, until=until, max_steps=100000)
    except Runaway:
        ok = False
        rec.ev.append({"e": "X", "type": "Runaway"})
    for e in rec.ev:
        ev.append(dict(BASE, e="X", type=str(e.get("type", ""))[:60]))
        tm.append(env.now)
        info["msg"] = str(e.get("msg", ""))[:200]
    if ok:
        try:
            ev.append(dict(BASE, e="Q", la=enc(sender.last_ack), ns=enc(sender.next_seq), pre=prefix_of(sink.recv_buffer)))
            tm.append(env.now)
            info["exhausted"] = int(env.peek() == float("inf"))
            info["recv_buffer"] = [list(map(enc, r)) for r in sink.recv_buffer][:8]
        except BaseException as e:  # noqa
            ev.append(dict(BASE, e="X", type=type(e).__name__))
            tm.append(env.now)
    if sc.get("finish_at"):
        try:
            cfg["n"] = int(sender.next_seq) // int(sender.mss)       # the flow = what was sent before the source stopped
        except Exception:
            cfg["n"] = -1
    if not dd and not ad and premise[0] and path != "jitter":
        cfg["timely"] = 1          # (a path that reorders may cause duplicate ACKs, hence fast retransmits: no premise there)
    info["rto_end"] = repr(getattr(sender, "rto", None))
    return {"cfg": cfg, "ev": ev, "tm": tm, "info": info}


if __name__ == "__main__":
    netlib.main(run_one)
