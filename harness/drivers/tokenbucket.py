"""Drive the real TokenBucket / TwoRateTokenBucket with a scripted workload and record a trace (C11).

Scenario: {"kind": "tb",   "cfg": {"R", "B", "P"},                "arr": [{"t", "sz", "src"}, ...]}
          {"kind": "trtb", "cfg": {"CIR", "CBS", "PIR", "PBS"},   "arr": [...]}
Rates are bytes per tick: rate = 8*R bit/s, peak = 8*P bit/s (P = 0: no peak), PIR = 0: no peak bucket.
Observation: a tap after put() (event A), a recording sink behind out (event D, inside the downstream
put()), the public attributes current_bucket(_commit/_peak) and update_time read after each of them,
Packet.color at the sink; an escaping exception is an X event, an exhausted agenda a Q event.
"""
import netlib
from netlib import ex

TB_BASE = {"e": "", "t": 0, "id": 0, "sz": 0, "lvl": -1, "upd": -1, "type": ""}
TR_BASE = {"e": "", "t": 0, "id": 0, "sz": 0, "pl": -1, "cl": -1, "upd": -1, "col": "", "type": ""}


def num(x):
    return -1 if x is None else ex(x)


def run_one(sc):
    from onl.sim import Environment
    from onl.packet import Packet
    from onl.netdev import TokenBucket, TwoRateTokenBucket

    kind = sc["kind"]
    cfg = sc["cfg"]
    # "t0": the environment's clock starts at t0 (any sign); every instant is recorded relative to it
    t0 = sc.get("t0", 0)
    env = Environment(t0) if t0 else Environment()
    rec = netlib.Recorder(env)

    def rel(x):
        # an origin before the start of time means "since the beginning"
        return x - t0 if x >= t0 else 0
    base = TB_BASE if kind == "tb" else TR_BASE
    try:
        if kind == "tb":
            el = TokenBucket(env, 8 * cfg["R"], cfg["B"], peak=(8 * cfg["P"] if cfg["P"] else None))
        else:
            if cfg["PIR"]:
                el = TwoRateTokenBucket(env, 8 * cfg["CIR"], cfg["CBS"], 8 * cfg["PIR"], cfg["PBS"])
            elif sc.get("idle_pbs"):
                # a peak burst size without a peak rate: no PIR is given, so the committed bucket alone shapes
                el = TwoRateTokenBucket(env, 8 * cfg["CIR"], cfg["CBS"], pbs=sc["idle_pbs"])
            else:
                el = TwoRateTokenBucket(env, 8 * cfg["CIR"], cfg["CBS"])
    except BaseException as e:  # noqa
        return {"kind": kind, "cfg": cfg, "ev": [dict(base, e="X", t=0, type=type(e).__name__)]}

    if kind == "tb":
        def state():
            return {"lvl": num(el.current_bucket), "upd": num(rel(el.update_time))}
    else:
        def state():
            return {"cl": num(el.current_bucket_commit), "pl": num(el.current_bucket_peak),
                    "upd": num(rel(el.update_time))}

    class Sink:
        def put(self, pkt):
            d = dict(base, e="D", t=ex(env.now - t0), id=pkt.packet_id, sz=pkt.size, **state())
            if kind == "trtb":
                d["col"] = pkt.color if isinstance(pkt.color, str) else repr(pkt.color)
            rec.ev.append(d)

    el.out = Sink()

    serial = [0]          # packet ids are handed out in the order the packets are actually put

    def make_packet(i, a):
        serial[0] += 1
        pkt = Packet(env.now, a["sz"], serial[0], flow_id=a.get("f", 0))
        if a.get("pre"):
            pkt.color = a["pre"]      # the colour an upstream meter gave it
        return pkt

    def on_arrival(i, a, pkt):
        rec.ev.append(dict(base, e="A", t=ex(env.now - t0), id=pkt.packet_id, sz=a["sz"], **state()))

    netlib.injector(env, rec, sc["arr"], make_packet, el, on_arrival, origin=t0)
    ok = netlib.run_env(env, rec)
    for e in rec.ev:
        if e["e"] == "X":
            e.pop("msg", None)
            for k, v in base.items():
                e.setdefault(k, v)
            e.update(state())
    if ok:
        rec.ev.append(dict(base, e="Q", t=ex(env.now - t0), **state()))
    return {"kind": kind, "cfg": cfg, "ev": rec.ev}


if __name__ == "__main__":
    netlib.main(run_one)
