"""Drive the real Wire / Cable with scripted arrivals, delay draws and loss draws and record a trace (C10).

Scenario:
  {"kind": "wire" | "cable", "cfg": {"pn", "pd", "none"}, "unit": [num, den], "intd": 0/1, "echo": 0/1, "ptime": 0/1,
   "replug": n        the far end is connected n times to other receivers before it is connected to the real one, and
                      "replug_at": [t...] re-assigns the same receiver again at these instants (lattice units),
   "dirs": [{"arr": [{"t", "src", "re"}...], "dl": [d...], "us": [[un, ud]...]}, ...]}      (1 entry for a wire, 2 for a cable)
Result: {"sub": [trace per direction]}, trace = {"cfg", "ev"}; every direction is validated as its own Wire instance.

Harness-controlled inputs: `delay_dist` (a callable handed to the constructor) and `random.uniform` as used inside
onl.netdev.wire (module attribute patched with a scripted stand-in).  Every call is logged with its call number and
env.now in the trace of the wire that made it (the wire whose process is running, or whose put() is executing).
"""
from fractions import Fraction

import netlib

BAD = -777777


class Runaway(BaseException):
    pass

BASE = {"e": "", "t": 0, "g": 0, "id": 0, "obj": 0, "al": 0, "at": -1, "d": -1, "un": -1, "ud": 1, "n": 0, "items": -1, "nrecv": -1,
        "type": ""}


def run_one(sc):
    from onl.sim import Environment
    from onl.packet import Packet
    from onl.netdev.wire import Wire, Cable
    import onl.netdev.wire as wire_mod

    cfg = sc["cfg"]
    unit = Fraction(*sc.get("unit", [1, 1]))
    intd = bool(sc.get("intd")) and unit.denominator == 1
    dirs = sc["dirs"]
    ndir = len(dirs)
    env = Environment()
    evs = []                        # global action order; "el" = direction (0 = belongs to every direction)

    def lat(x):
        """real instant / duration -> lattice integer, BAD when off the lattice"""
        try:
            if isinstance(x, bool) or not isinstance(x, (int, float)):
                return BAD
            if isinstance(x, float) and (x != x or x in (float("inf"), float("-inf"))):
                return BAD
            f = Fraction(x) / unit
            if f.denominator != 1 or abs(f.numerator) >= 2 ** 30:
                return BAD
            return int(f)
        except Exception:
            return BAD

    def real(k):
        v = unit * k
        return int(v) if (intd and v.denominator == 1) else float(v)

    limit = 100 + 40 * sum(len(d["arr"]) for d in dirs)

    def log(el, **kw):
        if len(evs) == limit:       # e.g. a mis-wired cable bouncing packets for ever: stop, the trace is rejected
            evs.append(dict(BASE, e="X", type="Runaway", el=0, g=limit, t=lat(env.now)))
        if len(evs) >= limit:
            raise Runaway()
        kw["el"] = el
        kw["g"] = len(evs)
        kw.setdefault("t", lat(env.now))
        evs.append(dict(BASE, **kw))

    wires = {}
    putctx = [0]                    # direction whose put() is executing (set by the harness around the call)
    ncall = {"U": {}, "W": {}}

    def which():
        if putctx[0]:
            return putctx[0]
        ap = env.active_process
        if ap is not None:
            for k, w in wires.items():
                if getattr(w, "action", None) is ap:
                    return k
        return 1 if ndir == 1 else 0

    def state(k):
        w = wires[k]
        return {"items": len(w.store.items), "nrecv": w.packets_rec}

    def delay_dist():
        k = which()
        if k == 0:
            log(0, e="X", type="UnattributedDelayDraw")
            return real(1)
        n = ncall["W"][k] = ncall["W"].get(k, 0) + 1
        dl = dirs[k - 1].get("dl") or [1]
        d = dl[(n - 1) % len(dl)]
        log(k, e="W", d=d, n=n)
        return real(d)

    class Rnd:
        """stand-in for the `random` module inside onl.netdev.wire"""

        def uniform(self, a, b):
            k = which()
            if k == 0:
                log(0, e="X", type="UnattributedLossDraw")
                return a + (b - a) * 0.5
            n = ncall["U"][k] = ncall["U"].get(k, 0) + 1
            us = dirs[k - 1].get("us") or [[1, 2]]
            un, ud = us[(n - 1) % len(us)]
            log(k, e="U", un=un, ud=ud, n=n)
            return a + (b - a) * (un / ud)

        def random(self):
            return self.uniform(0.0, 1.0)

    wire_mod.random = Rnd()
    if cfg.get("none"):
        rate = None
    else:
        rate = cfg["pn"] / cfg["pd"]
        if cfg["pn"] % cfg["pd"] == 0 and sc.get("intd"):
            rate = cfg["pn"] // cfg["pd"]
    nid = {}                        # direction -> number of entries so far (the entry ordinal is the trace id)
    objno = {}                      # direction -> {id(packet object): object number}; identity is what a tap can observe
    entered = {}                    # direction -> {object number: entries so far}
    entry_obj = {}                  # direction -> object number of every entry, in entry order
    keep = []                       # strong references, so id() values are not reused

    class End:
        """endpoint device: records what the wire feeding it delivers; forwards what the harness sends"""

        def __init__(self, feeds, sends):
            self.feeds = feeds          # direction whose deliveries arrive here (0 = none)
            self.sends = sends          # direction this endpoint sends into (0 = none)
            self.out = None

        def put(self, pkt):
            k = self.feeds
            o = objno.get(k, {}).get(id(pkt), 0)
            al = 1 if entered.get(k, {}).get(o, 0) > 1 else 0     # the same object entered more than once (a re-sent packet)
            log(k, e="D", id=getattr(pkt, "packet_id", -1), obj=o, al=al,
                at=lat(getattr(pkt, "current_time", None)), **state(k))
            if sc.get("echo") and self.sends and k == 1:
                self.send(Packet(env.now, 1, 0))

        def send(self, pkt):
            k = self.sends
            nid[k] = nid.get(k, 0) + 1
            om = objno.setdefault(k, {})
            if id(pkt) not in om:
                om[id(pkt)] = len(om) + 1
                keep.append(pkt)
                pkt.packet_id = nid[k]
            o = om[id(pkt)]
            cnt = entered.setdefault(k, {})
            cnt[o] = cnt.get(o, 0) + 1
            entry_obj.setdefault(k, []).append(o)
            old, putctx[0] = putctx[0], k
            try:
                self.out.put(pkt)
            finally:
                putctx[0] = old
                log(k, e="A", id=nid[k], obj=o, al=1 if cnt[o] > 1 else 0,
                    at=lat(getattr(pkt, "current_time", None)), **state(k))

    class Decoy:
        """a receiver the wire was connected to before it was re-plugged: nothing may reach it any more"""
        out = None

        def put(self, pkt):
            for k in range(1, ndir + 1):
                log(k, e="X", type="DeliveredToFormerReceiver")

    replug = sc.get("replug", 0)
    try:
        if sc["kind"] == "cable":
            cable = Cable(env, delay_dist, rate, wire_id=sc.get("wid", 0))
            dev1, dev2 = End(2, 1), End(1, 2)
            for _ in range(replug):
                cable.set_endpoints(Decoy(), Decoy())       # plugged in elsewhere first, then re-plugged
            cable.set_endpoints(dev1, dev2)
            wires[1], wires[2] = cable.wire1, cable.wire2
            senders = {1: dev1, 2: dev2}
        else:
            if cfg.get("none") and sc.get("dflt"):
                w = Wire(env, delay_dist)
            else:
                w = Wire(env, delay_dist, rate, wire_id=sc.get("wid", 0))
            src, dst = End(0, 1), End(1, 0)
            src.out = w
            for _ in range(replug):
                w.out = Decoy()
            w.out = dst
            wires[1] = w
            senders = {1: src}
    except BaseException as e:  # noqa
        ev = [dict(BASE, e="X", type=type(e).__name__)]
        return {"sub": [{"cfg": cfg, "objs": [], "ev": ev} for _ in range(ndir)]}

    class Target:
        def __init__(self, dev):
            self.dev = dev

        def put(self, pkt):
            self.dev.send(pkt)

    def maker(k):
        made = {}

        def mk(i, a):
            # "re": j = the very Packet object of this direction's j-th arrival is handed in again (a retransmission, as
            # TCPPacketGenerator.resend_packet does), possibly while its earlier entry is still inside the wire
            j = a.get("re", -1)
            if j >= 0 and j in made:
                pkt = made[j]
            else:
                # "ptime": 0 = packets were created at instant 0 and enter the wire later (Packet.time is not the entry instant)
                pkt = Packet(env.now if sc.get("ptime", 1) else 0.0, 1, 0)
            made[i] = pkt
            return pkt
        return mk

    for k in range(1, ndir + 1):
        arr = [{"t": real(a["t"]), "src": a.get("src", 1), "re": a.get("re", -1)} for a in dirs[k - 1]["arr"]]
        netlib.injector(env, None, arr, maker(k), Target(senders[k]), lambda i, a, p: None)

    def replugger(times):
        for t in times:
            d = real(t) - env.now
            if d > 0:
                yield env.timeout(d)
            # the same receiver, assigned again (a harmless re-configuration while packets may be in flight)
            if sc["kind"] == "cable":
                cable.set_endpoints(dev1, dev2)
            else:
                w.out = dst
    if sc.get("replug_at"):
        env.process(replugger(sorted(sc["replug_at"])))

    rec = netlib.Recorder(env)
    ok = netlib.run_env(env, rec)
    for e in rec.ev:                # X events of run_env
        if e.get("type") != "Runaway":
            evs.append(dict(BASE, e="X", type=str(e.get("type", ""))[:60], t=lat(env.now), el=0, g=len(evs)))
    sub = []
    for k in range(1, ndir + 1):
        ev = [{f: v for f, v in e.items() if f != "el"} for e in evs if e["el"] in (0, k)]
        if ok:
            ev.append(dict(BASE, e="Q", t=lat(env.now), g=len(evs), **state(k)))
        sub.append({"cfg": cfg, "objs": entry_obj.get(k, []), "ev": ev})
    return {"sub": sub}


if __name__ == "__main__":
    netlib.main(run_one)
