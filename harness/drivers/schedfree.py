"""Schedulers with string class ids and decimal (non-dyadic) weights, sizes and instants -- off the exact lattice of
spec/net/Sched.tla, so nothing here is validated against the specification.  Used by C03 only: the recorded trace
(every departure with its instant, bit-exact) must not depend on the interpreter's string-hash seed nor differ
between two executions."""
import netlib


def run_one(sc):
    from onl.sim import Environment
    from onl.packet import Packet
    from onl.scheduler import SP, WFQ, VC, DRR, WRR

    env = Environment()
    names = sc["names"]
    kind = sc["sched"]
    w = {names[i]: sc["w"][i] for i in sc["order"]}
    f2c = sc["f2c"]

    def fmap(f):
        return names[f2c[f]]
    ev = []
    try:
        if kind == "SP":
            s = SP(env, sc["rate"], {f: sc["w"][f2c[f]] for f in range(len(f2c))})
        elif kind == "WRR":
            s = WRR(env, sc["rate"], {f: int(sc["w"][f2c[f]] * 10) for f in range(len(f2c))})
        else:
            s = {"WFQ": WFQ, "VC": VC, "DRR": DRR}[kind](env, sc["rate"], w, flow2class=fmap)
    except BaseException as e:  # noqa
        return {"ev": [["X", type(e).__name__]]}

    class Sink:
        def put(self, pkt):
            ev.append(["D", repr(env.now), pkt.packet_id, pkt.flow_id])
    s.out = Sink()

    def src():
        for i, (t, f, sz) in enumerate(sc["arr"]):
            if t > env.now:
                yield env.timeout(t - env.now)
            s.put(Packet(env.now, sz, i + 1, flow_id=f))
            # the documented public state of the stamp-based schedulers, bit-exact
            ev.append(["A", repr(env.now), i + 1, repr(getattr(s, "vtime", None)),
                       sorted((str(k), repr(v)) for k, v in getattr(s, "finish_times", {}).items())])
    env.process(src())
    rec = netlib.Recorder(env)
    netlib.run_env(env, rec, until=10000)
    for e in rec.ev:
        ev.append([e["e"], e.get("type", "")])
    ev.append(["Q", repr(env.now), int(s.total_packets)])
    return {"ev": ev}


if __name__ == "__main__":
    netlib.main(run_one)
