"""Drive the real FlowDemux / FIBDemux / SimplePacketSwitch / FairPacketSwitch / Hub / Splitter / NSplitter with
scripted puts and record, per put, which recording device saw which packet object (C18).

Observation only through recording devices on every output / end device / default output / hub port, through the
public wiring attributes (`out`, `outs`, `ports`, `demux.fib`, `demux.ends`, `demux.default_out`) and through the
header fields of the packet objects the recording devices were handed.
"""
import re
import netlib
from netlib import ex

BAD = -777777
# header fields of a Packet (index in the field vector = position + 1); payload is not a header field
FIELDS = ["time", "size", "packet_id", "realtime", "src", "dst", "flow_id", "ack", "color", "current_time",
          "priorities", "perhop_time"]
STRS = {"src": "ep", "dst": "dst", "color": "c"}
DICTS = ("priorities", "perhop_time")
DICTK = [FIELDS.index(n) + 1 for n in DICTS]
BASE = {"e": "", "oc": "", "oi": 0, "obj": 0, "f": 0, "s": 0, "k": 0, "w": 0, "v": 0, "fl": [], "x": "", "tb": []}
_num = re.compile(r"^[a-z]+(\d+)$")


def code(s):
    if s == "":
        return 0
    if isinstance(s, str):
        m = _num.match(s)
        if m:
            return int(m.group(1))
    return BAD


def mask(d):
    if not isinstance(d, dict):
        return BAD
    return sum(v for k, v in d.items() if isinstance(k, str) and k.startswith("tap") and isinstance(v, int))


def snap(p):
    out = []
    for n in FIELDS:
        try:
            v = getattr(p, n)
        except Exception:  # noqa
            out.append(BAD)
            continue
        if n in STRS:
            out.append(code(v))
        elif n in DICTS:
            out.append(mask(v))
        else:
            out.append(ex(v))
    return out


def write(p, k, w):
    """Rewrite header field k of packet object p the way a downstream element would."""
    n = FIELDS[k - 1]
    if n in DICTS:
        getattr(p, n)["tap%d" % w] = w          # like Port.put: packet.perhop_time[element_id] = now
    elif n in STRS:
        setattr(p, n, "%s%d" % (STRS[n], w))
    else:
        setattr(p, n, w)
    return snap(p)[k - 1]


class Boom(Exception):
    pass


EXC = {"KeyError": KeyError, "IndexError": IndexError, "ValueError": ValueError, "RuntimeError": RuntimeError,
       "Boom": Boom}


class Rec:
    def __init__(self):
        self.ev = []
        self.objs = {}
        self.keep = []
        self.early = {}       # output index -> [(k, w)]
        self.boom = None      # (oc, oi, exception type)
        self.forwarding = False

    def log(self, e, **kw):
        self.ev.append(dict(BASE, e=e, **kw))

    def serial(self, p):
        if id(p) not in self.objs:
            self.objs[id(p)] = len(self.objs) + 1
            self.keep.append(p)
        return self.objs[id(p)]

    def new_put(self, p):
        self.objs = {}
        self.keep = []
        self.serial(p)


def make_tap(rec, oc, oi, base=object):
    class Tap(base):
        def __init__(self):
            self.out = None
            self.element_id = "%s%d" % ("ep" if oc == "n" else "dev", oi)
            self.got = []

        def put(self, packet):
            c = oc
            if oc == "n" and rec.forwarding:
                c = "v"
            o = rec.serial(packet)
            rec.log("D", oc=c, oi=oi, obj=o, fl=snap(packet))
            self.got.append(packet)
            if oc == "o":
                for k, w in rec.early.get(oi, ()):
                    v = write(packet, k, w)
                    rec.log("M", obj=o, k=k, w=w, v=v)
            if oc == "p":
                # a port device passes the packet on to whatever the hub connected it to
                if self.out is not None:
                    rec.forwarding = True
                    try:
                        self.out.put(packet)
                    finally:
                        rec.forwarding = False
            if rec.boom and rec.boom[0] == oc and rec.boom[1] == oi:
                raise EXC[rec.boom[2]]("scripted downstream failure")
    return Tap()


def build(sc, env, rec):
    """-> (element, put function taking (packet, sender index))"""
    from onl.device import SingleDevice
    from onl.netdev import Hub, Splitter, NSplitter, SimplePacketSwitch, FairPacketSwitch
    from onl.netdev.demux import FlowDemux, FIBDemux
    cfg = sc["cfg"]
    st = sc.get("style", {})
    kind = cfg["kind"]
    n = cfg["nouts"]
    outs = [make_tap(rec, "o", i + 1) for i in range(n)]
    dflt = make_tap(rec, "d", 0) if cfg["dflt"] else None
    ends = {f: make_tap(rec, "e", f) for f in cfg["ends"]}
    table = {f: p - 1 for f, p in cfg["table"]}
    if kind in ("fib", "fair", "flow", "hub") and st.get("twin", 1):
        # Another element of the same class lives in the same process with every flow routed to a foreign device: nothing
        # registered on it may show in the element under test (state shared between instances is a defect)
        class Foreign:
            element_id = "foreign"

            def put(self, packet):
                rec.log("X", x="ForeignDelivery")
        fo = Foreign()
        try:
            if kind in ("fib", "fair"):
                tw = FIBDemux(outs=[fo], fib={f: 0 for f in range(20)}, default_out=fo)
                for f in range(20):
                    tw.ends[f] = fo
                tw2 = FIBDemux()
                for f in range(20):
                    tw2.ends[f] = fo
            elif kind == "flow":
                FlowDemux([fo] * 20, fo)
            else:
                tw = Hub(env)
                tw.add_endpoint(fo, None)
        except Exception:
            pass
    if kind == "flow":
        if st.get("ctor") == "positional" or dflt is not None:
            el = FlowDemux(outs, dflt)
        else:
            el = FlowDemux(outs)
        return el, lambda p, s: el.put(p)
    if kind == "fib":
        ctor = st.get("ctor", "args")
        if ctor == "args":
            el = FIBDemux(outs=outs, ends=ends or None, fib=table, default_out=dflt)
        elif ctor == "positional":
            el = FIBDemux(outs, dict(ends), table, dflt)
        else:
            el = FIBDemux(outs=outs)
            el.fib = table
            for f, d in ends.items():
                el.ends[f] = d
            if dflt is not None:
                el.default_out = dflt
        return el, lambda p, s: el.put(p)
    if kind == "simple":
        el = SimplePacketSwitch(env, n, st.get("rate", 8000.0), st.get("buffer", 1000), element_id="sw7")
        for i in range(n):
            el.ports[i].out = outs[i]
        return el, lambda p, s: el.put(p)
    if kind == "fair":
        nflow = st.get("nflow", 8)
        weights = {f: 1 + (f % 2) for f in range(nflow)}
        el = FairPacketSwitch(env, n, st.get("rate", 8000.0), st.get("buffer", 1000), weights,
                              st.get("server", "DRR"), element_id="sw7")
        el.demux.fib = table
        for f, d in ends.items():
            el.demux.ends[f] = d
        if dflt is not None:
            el.demux.default_out = dflt
        for i in range(n):
            el.ports[i].out = outs[i]
        return el, lambda p, s: el.put(p)
    if kind == "hub":
        eps = [make_tap(rec, "n", i + 1, SingleDevice) for i in range(n)]
        pds = [make_tap(rec, "p", i + 1, SingleDevice) if cfg["pdev"][i] else None for i in range(n)]
        rec.eps = eps
        how = st.get("hub", "list")
        if how == "default" and not any(cfg["pdev"]):
            el = Hub(env, eps)
        elif how == "add":
            el = Hub(env)
            for e, p in zip(eps, pds):
                el.add_endpoint(e, p)
        elif how == "mixed":
            h = n // 2
            el = Hub(env, eps[:h], pds[:h])
            for e, p in zip(eps[h:], pds[h:]):
                el.add_endpoint(e, p)
        else:
            el = Hub(env, eps, pds)

        def put(p, s):
            if s >= 1:
                eps[s - 1].out.put(p)       # an endpoint sends through what the hub made its `out`
            else:
                el.put(p)
        return el, put
    if kind == "split":
        el = Splitter()
        if cfg["conn"][0]:
            el.out1 = outs[0]
        if cfg["conn"][1]:
            el.out2 = outs[1]
        return el, lambda p, s: el.put(p)
    if kind == "nsplit":
        el = NSplitter(n)
        for i in range(n):
            if cfg["conn"][i]:
                el.outs[i] = outs[i]
        return el, lambda p, s: el.put(p)
    raise SystemExit("unknown element kind %r" % kind)


def reconfigure(rec, kind, el, st, state):
    """Change the configuration of the element in use through the public API, exactly as a user would."""
    from onl.device import SingleDevice
    op = st["op"]
    dm = el if kind in ("flow", "fib") else getattr(el, "demux", None)
    if op == "set":
        dm.fib[st["f"]] = st["p"] - 1                   # in place, on the table object the demux uses
    elif op == "del":
        del dm.fib[st["f"]]
    elif op == "table":
        dm.fib = {f: p - 1 for f, p in st["tb"]}         # a new table through the property setter
    elif op == "out":
        state["n"] += 1
        dm.outs.append(make_tap(rec, "o", state["n"]))
    elif op == "end":
        dm.ends[st["f"]] = make_tap(rec, "e", st["f"])
    elif op == "unend":
        del dm.ends[st["f"]]
    elif op == "dflt":
        dm.default_out = make_tap(rec, "d", 0) if st["p"] else None
    elif op == "join":
        state["n"] += 1
        ep = make_tap(rec, "n", state["n"], SingleDevice)
        pd = make_tap(rec, "p", state["n"], SingleDevice) if st["p"] else None
        el.add_endpoint(ep, pd)
        rec.eps.append(ep)
    else:
        raise SystemExit("unknown reconfiguration step %r" % op)


def run_one(sc):
    from onl.sim import Environment
    from onl.packet import Packet
    cfg = dict(sc["cfg"])
    cfg["dictk"] = DICTK
    env = Environment()
    rec = Rec()
    if cfg.get("boomc"):
        rec.boom = (cfg["boomc"], cfg["boomi"], sc.get("style", {}).get("exc", "KeyError"))
    try:
        el, put = build(sc, env, rec)
    except BaseException as e:  # noqa
        rec.log("X", x=type(e).__name__)
        return {"cfg": cfg, "ev": rec.ev}
    timed = cfg["kind"] in ("simple", "fair")
    steps = sc.get("steps")
    if steps is None:
        steps = [dict(p, op="put") for p in sc["puts"]]
    state = {"n": cfg["nouts"]}
    for i, pt in enumerate(steps):
        if pt["op"] != "put":
            rec.log("C", x=pt["op"], f=pt.get("f", 0), oi=pt.get("p", 0), tb=pt.get("tb", []))
            try:
                reconfigure(rec, cfg["kind"], el, pt, state)
            except BaseException as e:  # noqa
                rec.log("X", x=type(e).__name__)
            continue
        s = pt.get("s", 0)
        pkt = Packet(env.now, 100 + i, i + 1, realtime=0, src="ep%d" % s, dst="dst9", flow_id=pt["f"])
        if i % 2:
            # every other packet carries non-default values in all header fields (an acknowledgement number, a colour,
            # stamps and priorities left by upstream elements): copies must carry them too
            pkt.ack = 1000 + i
            pkt.color = "c%d" % (1 + i % 3)
            pkt.current_time = 5 + i
            pkt.realtime = 3 + i
            pkt.priorities["tap4096"] = 4096
            pkt.perhop_time["tap8192"] = 8192
        rec.new_put(pkt)
        mods = pt.get("mods", [])
        rec.early = {}
        for m in mods:
            if m["early"]:
                rec.early.setdefault(m["oi"], []).append((m["k"], m["w"]))
        rec.log("I", f=pt["f"], s=s, obj=1, fl=snap(pkt))
        try:
            put(pkt, s)
            if timed:
                n = 0
                while env.peek() != float("inf"):
                    env.step()
                    n += 1
                    if n > 20000:
                        raise RuntimeError("runaway simulation")
        except BaseException as e:  # noqa
            rec.log("X", x=type(e).__name__)
            if timed:
                break            # the simulation is dead
            continue
        rec.log("R")
        # header rewrites after the put returned, by the devices that hold the objects
        holder = {}
        for e in rec.ev[::-1]:
            if e["e"] == "I":
                break
            if e["e"] == "D" and e["oc"] == "o":
                holder[e["oi"]] = e["obj"]
        for m in mods:
            if not m["early"] and m["oi"] in holder:
                o = holder[m["oi"]]
                v = write(rec.keep[o - 1], m["k"], m["w"])
                rec.log("M", obj=o, k=m["k"], w=m["w"], v=v)
        for o, p in enumerate(rec.keep):
            rec.log("F", obj=o + 1, fl=snap(p))
    return {"cfg": cfg, "ev": rec.ev}


if __name__ == "__main__":
    netlib.main(run_one)
