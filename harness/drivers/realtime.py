"""Drive the real onl.sim.rt.RealtimeEnvironment under a virtual wall clock (C20).

The module attributes `onl.sim.rt.monotonic` and `onl.sim.rt.sleep` are replaced by a scripted virtual clock that
logs every call; nothing else is patched.  The program is a kernel program in the op-record format of
harness/drivers/kernel.py (fixed scripts, or generated on the fly on a plain Environment); it is executed
  (1) on onl.sim.Environment(initial_time)                      -> ref_log
  (2) on RealtimeEnvironment(initial_time, factor, strict)      -> log, and the wall-clock trace `ev`
by the same interpreter (kernel.Machine).

Scenario:
  prog   {"scripts": [...]}  or  {"gen": {...}}   (see kernel.py)
  rt     {"F": 4*factor (int), "strict": 0/1, "t0": initial simulated time (int), "w0": initial virtual clock,
          "sleep": [off, ...]       offset of each sleep's return against the requested delta (consumed in call order,
                                    cyclically): sleep(d) advances the clock by max(min(minadv, d), d + off), minadv = 1 by default
          "work":  [[c, sy], ...]   every run of a harness-owned process body / probe callback consumes c (cyclically);
                                    sy = 1: the body calls env.sync() before consuming, 2: after
          "gaps":  [[c, sy], ...]   before the n-th top-level plan op the top level lets c pass; sy as above}
All wall-clock quantities are integers in units of 1/den s (den = 4 by default: quarter ticks; "den": 65536 gives a
15 microsecond grain, so that sleeps returning a few tens of microseconds early are expressible); the clock handed to
the code is q / den (exact), the factor F / den.

Wall-clock trace events (uniform records): see spec/misc/RealtimeTrace.tla.
"""
import kernel
import netlib
from netlib import ex

INF = float("inf")
LIMIT = 4000          # clock calls per scenario: a pacing loop that never ends becomes an X event of type Runaway
BASE = {"e": "", "t": -1, "w": 0, "d": 0, "a": 0, "c": 0, "slow": 0, "type": ""}
SLOW = "Simulation too slow for real time"


class Runaway(BaseException):
    pass


class Clock:
    def __init__(self, rt):
        self.q = rt["w0"]
        self.den = rt.get("den", 4)
        self.minadv = rt.get("minadv", 1)      # a sleep advances the clock by at least min(minadv, requested) units
        self.sl = rt.get("sleep") or [0]
        self.work = rt.get("work") or [[0, 0]]
        self.gaps = rt.get("gaps") or [[0, 0]]
        self.i = self.j = 0
        self.calls = 0
        self.ev = []

    def log(self, e, **kw):
        self.ev.append(dict(BASE, e=e, w=self.q, **kw))

    def tick(self):
        self.calls += 1
        if self.calls > LIMIT or len(self.ev) > 5 * LIMIT:
            raise Runaway()

    # ---- the two functions the code under test sees
    def monotonic(self):
        self.tick()
        self.log("M")
        return self.q / float(self.den)

    def sleep(self, delta):
        self.tick()
        d = ex(delta, self.den)
        off = self.sl[self.i % len(self.sl)]
        self.i += 1
        a = max(min(self.minadv, d), d + off) if d > 0 else 1
        self.log("SL", d=d, a=a)
        self.q += a

    # ---- scripted wall-time consumption and sync calls
    def sync(self, env):
        self.log("SY")
        env.sync()

    def spend(self, env, e, entry, **kw):
        c, sy = entry
        if sy == 1:
            self.sync(env)
        if e == "B" or c > 0:
            self.log(e, c=c, **kw)
            self.q += c
        if sy == 2:
            self.sync(env)

    def body(self, env):
        entry = self.work[self.j % len(self.work)]
        self.j += 1
        self.spend(env, "B", entry, t=ex(env.now))

    def gap(self, env, n):
        self.spend(env, "G", self.gaps[n % len(self.gaps)])


class RTMachine(kernel.Machine):
    """kernel.Machine whose harness-owned bodies and probe callbacks consume scripted wall time."""
    clock = None

    def L(self, k, p, ok, v):
        kernel.Machine.L(self, k, p, ok, v)
        if self.clock is not None and k in ("R", "P"):
            self.clock.body(self.env)

    def run_plan_one(self, n, o):
        if self.clock is not None:
            self.clock.gap(self.env, n)
        kernel.Machine.run_plan_one(self, n, o)


def wrap_step(m, clock):
    """Observe every step() -- also those issued by run() -- through the public method."""
    env = m.env
    orig = env.step

    def step():
        pk = env.peek()
        clock.log("ST", t=-1 if pk == INF else ex(pk))
        try:
            orig()
        except BaseException as e:  # noqa
            slow = 2 if isinstance(e, Runaway) else int(isinstance(e, RuntimeError) and str(e).startswith(SLOW))
            clock.log("X", t=ex(env.now), slow=slow, type=type(e).__name__)
            raise
        clock.log("K", t=ex(env.now))

    env.step = step


def shift_until(scripts, t0):
    if not t0:
        return scripts
    return [[dict(o, a=o["a"] + t0) if o["k"] == "rununtil" else o for o in sc] for sc in scripts]


def run_scripts(scripts, factory, clock=None):
    m = RTMachine(scripts, factory)
    m.clock = clock
    kernel.patch_until_registration(m)
    if clock is not None:
        wrap_step(m, clock)
    try:
        m.run_plan()
        return m.log, None, m.final_state()
    except BaseException as e:  # noqa  -- interpreter failure, not a verdict
        return m.log, "%s: %s" % (type(e).__name__, e), None


def run_one(sc):
    from onl.sim import Environment, RealtimeEnvironment
    import onl.sim.rt as rtmod

    rt = sc["rt"]
    t0 = rt["t0"]
    cfg = {"F": rt["F"], "strict": rt["strict"], "t0": t0, "w0": rt["w0"]}
    out = {"cfg": cfg}
    prog = sc["prog"]
    if "gen" in prog:
        g = kernel.run_generated(prog["gen"])          # draws the program on a plain Environment (time origin 0)
        if g.get("driver_error"):
            return dict(out, scripts=g["scripts"], ref_log=g["log"], log=[], ev=[], driver_error=g["driver_error"])
        scripts = shift_until(g["scripts"], t0)
        ref, ref_final = (g["log"], g["final"]) if t0 == 0 else (None, None)
    else:
        scripts = prog["scripts"]
        ref = None
    out["scripts"] = scripts
    if ref is None:
        ref, err, ref_final = run_scripts(scripts, lambda: Environment(t0))
        if err:
            return dict(out, ref_log=ref, log=[], ev=[], driver_error="reference run: " + err)
    out["ref_log"] = ref
    out["ref_final"] = ref_final      # final state of every user-visible event (pending / triggered / processed, outcome)

    clock = Clock(rt)
    saved = (rtmod.monotonic, rtmod.sleep)
    rtmod.monotonic, rtmod.sleep = clock.monotonic, clock.sleep
    try:
        log, err, final = run_scripts(
            scripts, lambda: RealtimeEnvironment(initial_time=t0, factor=rt["F"] / float(rt.get("den", 4)), strict=bool(rt["strict"])), clock)
    finally:
        rtmod.monotonic, rtmod.sleep = saved
    if err:
        out["driver_error"] = "real-time run: " + err
    clock.log("Q")
    out["log"] = log
    out["final"] = final
    out["ev"] = clock.ev
    return out


if __name__ == "__main__":
    netlib.main(run_one)
