"""Drive the real schedulers (SP, WFQ, VC, DRR, RR, WRR) and their Monitor; record a trace (C12-C15)."""
import netlib
from netlib import ex


def build(env, sc):
    from onl.scheduler import SP, WFQ, VC, DRR, RR, WRR
    K = sc["cfg"]["K"]
    ts = 2.0 ** sc.get("tscale", 0)      # one lattice tick = ts seconds (an exact power of two)
    rate = 8.0 / K / ts
    cfg = sc["cfg"]
    f2c = cfg["f2c"]
    order = cfg["order"]
    w = cfg["w"]
    kind = sc["sched"]
    if kind in ("SP", "WFQ", "DRR") and sc.get("wscale"):
        # "wscale": e -- every weight / priority multiplied by 2**e (exact): fractional or huge weights.  Only ratios and
        # order matter to SP and DRR; WFQ's virtual time and stamps are 2**-e times as large (recorded scaled back)
        w = [x * 2.0 ** sc["wscale"] for x in w]
    ident = all(f2c[i] == i + 1 for i in range(len(f2c)))
    fmap = (lambda fid: f2c[fid] - 1)
    if kind == "SP":
        pr = {f - 1: w[f - 1] for f in order}
        return SP(env, rate, pr) if ident else SP(env, rate, pr, flow2class=fmap)
    if kind == "WFQ":
        ws = {c - 1: w[c - 1] for c in order}
        return WFQ(env, rate, ws) if ident else WFQ(env, rate, ws, flow2class=fmap)
    if kind == "VC":
        ws = {c - 1: w[c - 1] * ts for c in order}       # vticks are durations
        return VC(env, rate, ws) if ident else VC(env, rate, ws, flow2class=fmap)
    if kind == "DRR":
        ws = {c - 1: w[c - 1] for c in order}
        return DRR(env, rate, ws) if ident else DRR(env, rate, ws, flow2class=fmap)
    if kind == "RR":
        return RR(env, rate, [c - 1 for c in order])
    if kind == "WRR":
        return WRR(env, rate, {c - 1: w[c - 1] for c in order})
    raise ValueError(kind)


def waiting_total(s):
    """Packets not yet taken out of the scheduler's queues (the sub-queue stores are public attributes); -1 if this
    implementation does not expose them.  Pins where inside an instant the scheduler picked its next packet."""
    try:
        if hasattr(s, "head_of_line"):
            # DRR takes the head packet out of its sub-queue to look at its size and parks it when the credit does not
            # cover it: the queue length says nothing about which packet it has committed to
            return -1
        if hasattr(s, "stores"):
            return sum(len(st.items) for st in s.stores.values())
        if hasattr(s, "store"):
            return len(s.store.items)
    except Exception:
        pass
    return -1


def run_one(sc):
    from onl.sim import Environment
    from onl.packet import Packet
    from onl.scheduler import Monitor

    cfg = sc["cfg"]
    nf, nc = cfg["nf"], cfg["nc"]
    ts = 2.0 ** sc.get("tscale", 0)  # "tscale": e -- the same scenario in another time unit: one tick = 2**e seconds, the rate
                                     # 2**-e times as large; every instant and duration is recorded in ticks again (exact)
    t0 = sc.get("t0", 0) * ts        # the environment's clock starts at t0; instants are recorded relative to it
    env = Environment(t0) if t0 else Environment()
    rec = netlib.Recorder(env)
    base = {"id": 0, "f": 1, "sz": 0, "sch": 0, "pis": 0, "wt": -1, "tot": 0, "cnt": [0] * nf, "byt": [0] * nf, "cr": [0] * nc,
            "fk": 0, "v": 0, "x": 0, "y": 0, "type": ""}
    out = {"cfg": cfg, "incl": 0, "bind": sc.get("bind", ""), "noout": 1 if sc.get("noout") else 0, "ev": rec.ev}
    try:
        s = build(env, sc)
    except BaseException as e:  # noqa
        rec.ev.append(dict(base, e="X", t=0, type=type(e).__name__))
        return out
    kind = sc["sched"]

    seen_flows = set()

    def state(k=None):
        # size()/byte_size() create dictionary entries for flows the scheduler has not seen yet; the observer
        # must not do that, so unseen flows are reported as 0 without asking
        d = {"cnt": [ex(s.size(f)) if f in seen_flows else 0 for f in range(nf)],
             "byt": [ex(s.byte_size(f)) if f in seen_flows else 0 for f in range(nf)],
             "tot": ex(s.total_packets)}
        p = s.packet_in_service
        d["pis"] = p.packet_id if p is not None else 0
        d["wt"] = waiting_total(s)
        if kind == "DRR":
            d["cr"] = [ex(s.deficit.get(c, -1)) for c in range(nc)]
        if k is not None:
            if kind == "WFQ":
                wsc = 2.0 ** sc.get("wscale", 0)
                d["fk"] = ex(s.finish_times[k] * wsc / ts) if k in s.finish_times else -1
                d["v"] = ex(s.vtime * wsc / ts)
            elif kind == "VC":
                d["fk"] = ex((s.aux_vc[k] - t0) / ts) if k in s.aux_vc else -1     # auxVC is an instant
        return d

    notify = [lambda: None]

    class Sink:
        def put(self, pkt):
            rec.ev.append(dict(base, e="D", t=ex((env.now - t0) / ts), id=pkt.packet_id, f=pkt.flow_id + 1, sz=pkt.size, **state()))
            notify[0]()

    # "noout": the scheduler is the last element of the path (out stays None); departures are then not observable at a
    # tap, only through the counters, packet_in_service and the monitor
    if not sc.get("noout"):
        s.out = Sink()
    elif sc["noout"] == 1:
        s.out = None          # (2 = out is never assigned at all)

    def make_packet(i, a):
        return Packet(env.now, a["sz"], i + 1, flow_id=a["f"] - 1)

    first_seen = {}

    def on_arrival(i, a, pkt):
        seen_flows.add(a["f"] - 1)
        first_seen.setdefault(a["f"] - 1, env.now)
        # sch = 1: the arrival was scheduled before its instant began (a timer set earlier, or the same process step as
        # such an arrival); sch = 0: a reactive arrival, created by zero-delay hops inside the instant
        rec.ev.append(dict(base, e="A", t=ex((env.now - t0) / ts), id=i + 1, f=a["f"], sz=a["sz"], sch=0 if "after" in a else 1,
                           **state(cfg["f2c"][a["f"] - 1] - 1)))

    mon = sc.get("mon")
    if mon:
        out["incl"] = mon["incl"]
        gaps = list(mon["gaps"])
        holder = [None]
        seen = {}

        calls = [0]

        def dist():
            m = holder[0]
            calls[0] += 1
            if m is not None:
                fresh = set()
                for f in sorted(m.sizes.keys()):
                    if len(m.sizes[f]) > seen.get(f, 0):
                        seen[f] = len(m.sizes[f])
                        fresh.add(f)
                        if 0 <= f < nf:
                            rec.ev.append(dict(base, e="S", t=ex((env.now - t0) / ts), f=f + 1, x=ex(m.sizes[f][-1]),
                                               y=ex(m.byte_sizes[f][-1]), **state()))
                if calls[0] > 1:
                    # a sampling round has just taken place: every flow the scheduler has seen before this instant has a
                    # number to be sampled (0 when it is empty) -- a flow without a sample is recorded as sample -1
                    for f in sorted(first_seen):
                        if first_seen[f] < env.now and f not in fresh and 0 <= f < nf:
                            rec.ev.append(dict(base, e="S", t=ex((env.now - t0) / ts), f=f + 1, x=-1, y=-1, **state()))
            return gaps.pop(0) * ts if gaps else float("inf")

        # Monitor starts its own process in __init__ and calls dist() on first resumption
        holder[0] = Monitor(env, s, dist, service_included=bool(mon["incl"]))

    notify[0] = netlib.injector(env, rec, sc["arr"], make_packet, s, on_arrival, origin=t0, scale=ts)
    if sc.get("twin"):
        # a second scheduler of the same kind and configuration lives in the same process and environment and carries
        # its own traffic: nothing it does may show in the first one's trace
        try:
            s2 = build(env, sc)

            class Null:
                def put(self, pkt):
                    pass
            s2.out = Null()
            netlib.injector(env, None, sc["twin"], lambda i, a: Packet(env.now, a["sz"], 1000 + i, flow_id=a["f"] - 1), s2,
                            lambda i, a, pkt: None, origin=t0, scale=ts)
        except BaseException as e:  # noqa
            rec.ev.append(dict(base, e="X", t=ex((env.now - t0) / ts), type=type(e).__name__))
    ok = netlib.run_env(env, rec)
    for e in rec.ev:
        if e["e"] == "X":
            e.pop("msg", None)
            for k, v in base.items():
                e.setdefault(k, v)
    if ok:
        rec.ev.append(dict(base, e="Q", t=ex((env.now - t0) / ts), **state()))
    return out


if __name__ == "__main__":
    netlib.main(run_one)
