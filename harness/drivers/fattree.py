"""FatTree(k) under observation (C18).

mode "export": build the real FatTree(k), generate flows and forwarding tables, and export the networkx graph
  (node layers / types / pods, edges), the flows with their paths and the per-node tables as integers for TLC
  (spec/net/FatTreeCheck.tla).  Node v is exported as v+1.
mode "e2e": wire a simulated fat tree from the real switches exactly as tests/apps/fattree.py does, with
  deterministic generators, a recording sink per flow class, and record which sink saw which packet object.
"""
import random
from functools import partial
import netlib

LAYER = {"core": 0, "aggregation": 1, "edge": 2, "leaf": 3}
TYP = {"switch": 0, "host": 1}
ACK = 10000


def build(sc):
    from onl.topo import FatTree
    random.seed(sc["seed"])
    ft = FatTree(sc["k"])
    flows = ft.generate_flows(sc["nflows"])
    ft.generate_fib(flows, tcp=bool(sc["tcp"]))
    return ft, flows


def export(sc):
    try:
        ft, flows = build(sc)
    except BaseException as e:  # noqa
        return {"err": type(e).__name__ + ": " + str(e)[:200]}
    g = ft.topo
    nodes = sorted(g.nodes())
    idx = {v: i + 1 for i, v in enumerate(nodes)}
    n = len(nodes)

    def num(x, table=None):
        if table is not None:
            return table.get(x, -1)
        return x if isinstance(x, int) and not isinstance(x, bool) else -1

    case = {"k": sc["k"], "n": n, "tcp": int(bool(sc["tcp"])),
            "layer": [num(g.nodes[v].get("layer"), LAYER) for v in nodes],
            "typ": [num(g.nodes[v].get("type"), TYP) for v in nodes],
            "pod": [num(g.nodes[v].get("pod", -1)) for v in nodes],
            "edges": [[idx[u], idx[v]] for u, v in g.edges()],
            "hosts": sorted(idx.get(h, -1) for h in ft.hosts),
            "flows": [], "f2p": [], "f2n": [], "p2n": []}
    for key in sorted(flows):
        f = flows[key]
        case["flows"].append({"fid": num(f.fid), "src": idx.get(f.src, -1), "dst": idx.get(f.dst, -1),
                              "path": [idx.get(v, -1) for v in (f.path or [])]})
    for v in nodes:
        nd = g.nodes[v]
        for c, p in sorted(nd.get("flow_to_port", {}).items()):
            case["f2p"].append([idx[v], num(c), num(p)])
        for c, nh in sorted(nd.get("flow_to_nexthop", {}).items()):
            case["f2n"].append([idx[v], num(c), idx.get(nh, -1)])
        for p, nh in sorted(nd.get("port_to_nexthop", {}).items()):
            case["p2n"].append([idx[v], num(p), idx.get(nh, -1)])
    return case


BASE = {"e": "", "p": 0, "c": 0, "c2": 0, "x": ""}


def e2e(sc):
    from onl.sim import Environment
    from onl.packet import DistPacketGenerator
    from onl.netdev import FairPacketSwitch, SimplePacketSwitch
    from onl.netdev.demux import FIBDemux
    ev = []
    objs = {}
    keep = []

    def serial(p):
        if id(p) not in objs:
            objs[id(p)] = len(objs) + 1
            keep.append(p)
        return objs[id(p)]

    def log(e, **kw):
        ev.append(dict(BASE, e=e, **kw))

    class GenTap:
        def __init__(self, cls, nxt):
            self.cls, self.nxt = cls, nxt

        def put(self, packet):
            log("G", p=serial(packet), c=self.cls, c2=netlib.ex(packet.flow_id))
            self.nxt.put(packet)

    class Sink:
        def __init__(self, cls):
            self.cls = cls

        def put(self, packet):
            log("V", p=serial(packet), c=self.cls, c2=netlib.ex(packet.flow_id))

    class Stray:
        def __init__(self, node):
            self.node = node

        def put(self, packet):
            log("L", p=serial(packet), c=self.node, c2=netlib.ex(packet.flow_id))

    sinks = []
    try:
        ft, flows = build(sc)
        env = Environment()
        k = sc["k"]
        tcp = bool(sc["tcp"])
        classes = sorted([f for f in flows] + ([f + ACK for f in flows] if tcp else []))
        sinks = list(classes)
        ncls = sc.get("ncls", 0)
        rate = float(sc.get("rate", 80000))
        buf = sc.get("buffer", 1000)

        def flow_to_classes(flow_id, n_id, fib):
            return (flow_id + n_id + fib[flow_id]) % ncls

        for nid in ft.topo.nodes():
            node = ft.topo.nodes[nid]
            sw = sc["switch"]
            if sw == "simple":
                # SimplePacketSwitch has no forwarding table of its own (its FlowDemux maps flow f to port f);
                # its ports are driven by a FIBDemux, as the fat-tree demo does for the fair switch
                dev = SimplePacketSwitch(env, k, rate, buf, element_id="%s" % nid)
                dev.demux = FIBDemux(outs=dev.ports, fib=node["flow_to_port"])
            else:
                if ncls:
                    weights = {c: 1 for c in range(ncls)}
                    f2c = partial(flow_to_classes, n_id=nid, fib=node["flow_to_port"])
                    dev = FairPacketSwitch(env, k, rate, buf, weights, sw, element_id="%s" % nid, flow2class=f2c)
                else:
                    weights = {c: 1 + (c % 3) for c in classes}
                    dev = FairPacketSwitch(env, k, rate, buf, weights, sw, element_id="%s" % nid)
                dev.demux.fib = node["flow_to_port"]
            dev.demux.default_out = Stray(nid)
            node["device"] = dev
        for nid in ft.topo.nodes():
            node = ft.topo.nodes[nid]
            for port, nh in node["port_to_nexthop"].items():
                node["device"].ports[port].out = ft.topo.nodes[nh]["device"]
        gens = []
        for fid, fl in sorted(flows.items()):
            gap = [1.0, 0.5, 0.75, 1.25][fid % 4]
            size = [100, 60, 140][fid % 3]
            pg = DistPacketGenerator(env, "Flow_%d" % fid, lambda gap=gap: gap, lambda size=size: size,
                                     initial_delay=0.25 * (fid % 3), finish=sc.get("finish", 3), flow_id=fid)
            pg.out = GenTap(fid, ft.topo.nodes[fl.src]["device"])
            ft.topo.nodes[fl.dst]["device"].demux.ends[fid] = Sink(fid)
            gens.append(pg)
            if tcp:
                ag = DistPacketGenerator(env, "Ack_%d" % fid, lambda gap=gap: gap + 0.125, lambda: 40,
                                         initial_delay=0.5, finish=sc.get("finish", 3), flow_id=fid + ACK)
                ag.out = GenTap(fid + ACK, ft.topo.nodes[fl.dst]["device"])
                ft.topo.nodes[fl.src]["device"].demux.ends[fid + ACK] = Sink(fid + ACK)
                gens.append(ag)
        n = 0
        while env.peek() != float("inf"):
            env.step()
            n += 1
            if n > 400000:
                raise RuntimeError("runaway simulation")
        log("Q")
    except BaseException as e:  # noqa
        log("X", x=type(e).__name__ + ": " + str(e)[:120])
    return {"sinks": sinks, "ev": ev}


def run_one(sc):
    if sc["mode"] == "export":
        return export(sc)
    return e2e(sc)


if __name__ == "__main__":
    netlib.main(run_one)
