"""Drive the real Port / REDPort / PortMonitor with a scripted workload and record a trace (C09)."""
import netlib
from netlib import ex, ratio


import random as _real_random


class _ScriptedRandom(_real_random.Random):
    """A Random instance whose uniform()/random() return the scripted draw of the current arrival."""

    def __init__(self, owner):
        super().__init__(0)
        self.owner = owner

    def random(self):
        return self.owner.next_unit()

    def uniform(self, a, b):
        return a + (b - a) * self.owner.next_unit()


class Draws:
    """Stand-in for the `random` module inside onl.netdev.red_port: everything the real module offers, except that
    uniform()/random() -- of the module and of any Random instance created through it -- return scripted draws."""

    def __init__(self):
        self.cur = None
        self.used = None
        self._inst = _ScriptedRandom(self)

    def next_unit(self):
        un, ud = self.cur if self.cur and self.cur[0] >= 0 else (1, 2)
        self.used = (un, ud)
        return un / ud

    def uniform(self, a, b):
        return a + (b - a) * self.next_unit()

    def random(self):
        return self.next_unit()

    def Random(self, *a, **k):
        return self._inst

    def __getattr__(self, name):
        return getattr(_real_random, name)


def run_one(sc):
    from onl.sim import Environment
    from onl.packet import Packet
    from onl.netdev import Port, PortMonitor
    from onl.netdev.red_port import REDPort
    import onl.netdev.red_port as red_mod

    cfg = sc["cfg"]
    t0 = sc.get("t0", 0) * 2.0 ** sc.get("tscale", 0)    # the environment's clock starts at t0; instants are recorded relative to it
    env = Environment(t0) if t0 else Environment()
    rec = netlib.Recorder(env)
    K = cfg["K"]
    ts = 2.0 ** sc.get("tscale", 0)      # "tscale": e -- one tick = 2**e seconds, the rate 2**-e times as large (exact)
    rate = 0 if K == 0 else 8.0 / K / ts
    elid = sc.get("elid", "p1")
    draws = Draws()
    base = {"id": 0, "sz": 0, "items": 0, "bytes": 0, "drops": 0, "busy": 0, "nrecv": 0, "un": -1, "ud": 1,
            "an": 0, "ad": 1, "x": 0, "y": 0, "stamp": -1, "type": ""}
    try:
        if cfg["red"]:
            if sc.get("rawrandom"):
                # reproducibility scenarios (C03): the element draws from the real generator, seeded by the scenario
                red_mod.random = _real_random
                _real_random.seed(sc["rawrandom"])
            else:
                red_mod.random = draws
            port = REDPort(env, rate, cfg["maxth"], cfg["minth"], cfg["pn"] / cfg["pd"], elid, cfg["qlimit"],
                           weight_factor=cfg["w"], limit_bytes=(cfg["mode"] == 1))
        else:
            ql = None if cfg["mode"] == 0 else cfg["qlimit"]
            port = Port(env, rate, ql, cfg["mode"] == 1, elid)
    except BaseException as e:  # noqa
        return {"cfg": cfg, "incl": 0, "noout": 0, "ev": [dict(base, e="X", t=0, type=type(e).__name__)]}

    def state():
        d = {"items": len(port.store.items), "bytes": ex(port.byte_size), "drops": port.packets_dropped,
             "busy": int(port.busy), "nrecv": port.packets_received}
        if cfg["red"]:
            d["an"], d["ad"] = ratio(port.average_queue_size)
        return d

    arrive_at = {}

    notify = [lambda: None]

    class Sink:
        def put(self, pkt):
            i = pkt.packet_id
            st = pkt.perhop_time.get(elid) if isinstance(pkt.perhop_time, dict) else None
            rec.ev.append(dict(base, e="D", t=ex((env.now - t0) / ts), id=i, sz=pkt.size, stamp=ex((st - t0) / ts) if st is not None else -1, **state()))
            notify[0]()

    # "noout": the port is the last element of the path; 1 = out is set to None, 2 = out is never assigned at all.
    # Departures are then not seen at a tap, only through the counters and the monitor
    if not sc.get("noout"):
        port.out = Sink()
    elif sc["noout"] == 1:
        port.out = None

    def make_packet(i, a):
        draws.cur = (a.get("un", -1), a.get("ud", 1))
        draws.used = None
        return Packet(env.now, a["sz"], i + 1, flow_id=a.get("f", 0))

    def on_arrival(i, a, pkt):
        u = draws.used or (-1, 1)
        rec.ev.append(dict(base, e="A", t=ex((env.now - t0) / ts), id=i + 1, sz=a["sz"], un=u[0], ud=u[1], **state()))

    mon = sc.get("mon")
    incl = 0
    if mon:
        incl = mon["incl"]
        gaps = list(mon["gaps"])
        pm = [None]
        seen = [0]

        def dist():
            m = pm[0]
            if m is not None and len(m.sizes) > seen[0]:
                seen[0] = len(m.sizes)
                rec.ev.append(dict(base, e="S", t=ex((env.now - t0) / ts), x=ex(m.sizes[-1]), y=ex(m.sizes_byte[-1]), **state()))
            return gaps.pop(0) * ts if gaps else float("inf")

        pm[0] = PortMonitor(env, port, dist, pkt_in_service_included=bool(incl))
        env.process(pm[0].run())

    notify[0] = netlib.injector(env, rec, sc["arr"], make_packet, port, on_arrival, origin=t0, scale=ts)
    ok = netlib.run_env(env, rec)
    for e in rec.ev:
        if e["e"] == "X":
            e.pop("msg", None)
            for k, v in base.items():
                e.setdefault(k, v)
    if ok:
        rec.ev.append(dict(base, e="Q", t=ex((env.now - t0) / ts), **state()))
    return {"cfg": cfg, "incl": incl, "noout": 1 if sc.get("noout") else 0, "ev": rec.ev}


if __name__ == "__main__":
    netlib.main(run_one)
