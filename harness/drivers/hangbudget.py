"""Wall-clock budget of the hang watchdogs, per driver process: a change that makes an element spin without yielding
hangs EVERY scenario that reaches it; after the first few such verdicts the remaining scenarios get a short fuse, so
that a check ends in minutes instead of (scenarios x 30 s)."""
_hangs = 0


def limit(first):
    if _hangs == 0:
        return float(first)
    if _hangs < 3:
        return min(float(first), 3.0)
    if _hangs < 10:
        return min(float(first), 1.0)
    return min(float(first), 0.25)


def note():
    global _hangs
    _hangs += 1
