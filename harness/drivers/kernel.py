"""Execute scripted process programs on the real onl.sim kernel and record the observable log
(DESIGN Appendix A).  The interpreter mirrors the op records of spec/kernel/SimKernel.tla:
op = {k, a, b, c, s}; scripts[0] is the top-level plan, scripts[p] the body of process p.
"""
import json
import sys

import netlib


class Item:
    """Store item for FilterStore histories: items with the same priority digit compare equal although they are distinct
    objects (the property speaks of items, not of their values)."""

    def __init__(self, v):
        self.v = v

    def __eq__(self, other):
        return isinstance(other, Item) and self.v // 100 == other.v // 100

    def __hash__(self):
        return hash(self.v // 100)

    def __int__(self):
        return self.v

    def __repr__(self):
        return "Item(%d)" % self.v


class ScriptError(Exception):
    """args = (kind, id) -- failures injected by scripts."""


class ScriptAbort(BaseException):
    """Same, but derived from BaseException only (Event.fail accepts any BaseException); ops with b = 1 use it."""


class ScriptOdd(ScriptError):
    """A failure whose constructor does not take its own .args (as most application exceptions with extra required
    parameters): args = (kind, id), constructor (kind, id, extra); ops with b = 2 use it."""

    def __init__(self, kind, uid, extra):
        super().__init__(kind, uid)
        self.extra = extra


class ScriptTwist(ScriptError):
    """A failure whose constructor accepts its own .args but transforms them (as `super().__init__(f"code {code}")`
    does): constructed with (kind, id + 1000) it has args (kind, id); re-created from its args it would have
    (kind, id - 1000).  Ops with b = 3 use it."""

    def __init__(self, kind, code):
        super().__init__(kind, code - 1000)


class ScriptPicky(ScriptError):
    """A failure whose constructor refuses its own .args with something other than TypeError; ops with b = 4."""

    def __init__(self, kind, code, token=None):
        if token is None:
            raise ValueError("token required")
        super().__init__(kind, code)


def odd_failure(b, kind, uid):
    if b == 1:
        return ScriptAbort(kind, uid)
    if b == 2:
        return ScriptOdd(kind, uid, "payload")
    if b == 3:
        return ScriptTwist(kind, uid + 1000)
    if b == 4:
        return ScriptPicky(kind, uid, token=1)
    return ScriptError(kind, uid)


def V(k, a=0, s=()):
    return {"k": k, "a": int(a), "s": [int(x) for x in s]}


USER = ("to", "ev", "proc", "cond", "req", "rel", "put", "get")
RESKIND = [None, "res", "prio", "preempt", "cont", "store", "pstore", "fstore"]
INF = 1000000


class Machine:
    def __init__(self, scripts, env_factory=None, resources=None):
        from onl.sim import Environment
        self.env = env_factory() if env_factory else Environment()
        self.scripts = scripts
        self.log = []
        self.events = [None]      # uid -> object (index 0 unused)
        self.kinds = [None]
        self.uid_of = {}          # id(event object) -> uid
        self.procs = [None]       # pid -> Process
        self.nops = {0: 0}
        self.cur = 0              # running process id (0 = top level)
        self.creator = (0, 0)     # (pid, op index) of the call being executed
        self.names = [None]       # uid -> [creator pid, op index, ordinal] for user-visible events
        self.res = resources
        self.resources = [None]   # resource id -> object
        self.rscale = {}          # resource id -> factor applied to container amounts
        self.last_exc = {}        # process -> the exception it caught last
        self.rkinds = [None]
        self.pid_of = {}          # id(Process) -> pid
        self.fl = None            # float mode: {"delays": [...], "untils": [...]}; ops carry 1-based indices
        self.defer = None         # Interruption events created inside a resource call: registered after the request itself
        self.explicit_intr = False

    # ------------------------------------------------------------ encoding
    NONE_ITEM = 999       # a put of item 999 into a plain Store puts the object None (an end-of-stream marker, say)

    def encv(self, v, ev):
        """enc() for the value of event ev: None handed out by a plain Store's get is the item NONE_ITEM."""
        if v is None and ev is not None and type(ev).__name__ == "StoreGet" and type(getattr(ev, "resource", None)).__name__ == "Store":
            return V("item", self.NONE_ITEM)
        return self.enc(v)

    def enc(self, v):
        from onl.sim.events import ConditionValue
        from onl.sim.exceptions import Interrupt
        if v is None:
            return V("none")
        if isinstance(v, tuple) and v and isinstance(v[0], str):
            return V(v[0], v[1] if len(v) > 1 else 0, v[2] if len(v) > 2 else ())
        if isinstance(v, ConditionValue):
            return V("cv", 0, [self.uid_of.get(id(e), -1) for e in v.events])
        if isinstance(v, Item):
            return V("item", v.v)
        if isinstance(v, bool):
            return V("bool", int(v))
        if isinstance(v, int):
            return V("item", v)
        if isinstance(v, Interrupt):
            c = v.cause
            if isinstance(c, tuple) and c and c[0] == "i":
                return V("intr", c[1], [c[2]])
            if isinstance(c, int) and not isinstance(c, bool):
                return V("intrn", c)
            return self.enc_cause(c)
        if isinstance(v, (ScriptError, ScriptAbort)):
            return V(v.args[0], v.args[1])
        if isinstance(v, BaseException):
            return V(type(v).__name__)
        return V("other:" + type(v).__name__)

    def enc_cause(self, c):
        if type(c).__name__ == "Preempted":
            by = self.pid_of.get(id(c.by), 0) if c.by is not None else 0
            rid = next((i for i in range(1, len(self.resources)) if self.resources[i] is c.resource), -1)
            return V("preempted", by, [netlib.ex(c.usage_since) if c.usage_since is not None else -1, rid])
        return V("cause:" + type(c).__name__)

    def T(self, x):
        """An instant as logged: exact integer, or (float mode) the raw float, replaced by its rank after the run."""
        return x if self.fl is not None else netlib.ex(x)

    def L(self, k, p, ok, v):
        self.log.append({"k": k, "p": p, "t": self.T(self.env.now), "ok": bool(ok), "v": v})

    def on_interruption(self):
        """Called (through the patched Interruption.__init__) whenever the kernel has created an Interruption event."""
        if self.defer is not None:
            self.defer.append(1)
        else:
            self.reg(None, "intr")

    # ------------------------------------------------------------ registry
    def reg(self, obj, kind, probe=True):
        self.events.append(obj)
        self.kinds.append(kind)
        self.names.append([self.creator[0], self.creator[1], kind] if kind in USER else None)
        uid = len(self.events) - 1
        if obj is not None:
            self.uid_of[id(obj)] = uid
            if probe:
                obj.callbacks.append(lambda e, uid=uid: self.L("P", uid, e._ok, self.encv(e._value, e)))
        return uid

    def resolve(self, o):
        """Ops may name events by creator ("an": [pid, op index, kind] or None; "sn": list of those) instead of by
        number; used to run the same program under a different plan, where internal events shift the numbering."""
        if "an" not in o and "sn" not in o:
            return o
        o = dict(o)

        def look(nm):
            if nm is None:
                return -1
            for u in range(1, len(self.names)):
                if self.names[u] == nm:
                    return u
            return -1
        if "an" in o:
            o["a"] = look(o["an"])
        if "sn" in o:
            o["s"] = [look(x) for x in o["sn"]]
        return o

    def final_state(self):
        out = []
        for uid in range(1, len(self.events)):
            ev = self.events[uid]
            if ev is None or self.kinds[uid] not in USER:
                out.append({"st": -1, "ok": True, "v": V("none")})
            elif not ev.triggered:
                out.append({"st": 0, "ok": True, "v": V("none")})
            else:
                out.append({"st": 2 if ev.processed else 1, "ok": bool(ev._ok), "v": self.encv(ev._value, ev)})
        return out

    def exists(self, uid):
        return 1 <= uid < len(self.events)

    def valid(self, o, P):
        k = o["k"]
        if k == "yield":
            return P != 0 and self.exists(o["a"]) and self.kinds[o["a"]] in USER and self.events[o["a"]] is not self.procs[P]
        if k in ("succeed", "fail"):
            return self.exists(o["a"]) and self.kinds[o["a"]] == "ev"
        if k == "trigger":
            return (self.exists(o["a"]) and self.kinds[o["a"]] == "ev" and self.exists(o["b"]) and self.kinds[o["b"]] in USER
                    and o["a"] != o["b"] and self.events[o["b"]] is not None and self.events[o["b"]].triggered)
        if k == "interrupt":
            return 1 <= o["a"] < len(self.procs)
        if k == "cbintr":
            return (self.exists(o["a"]) and self.kinds[o["a"]] in USER and self.events[o["a"]] is not None
                    and not self.events[o["a"]].processed and 1 <= o["b"] < len(self.procs))
        if k == "cond":
            s = o["s"]
            return all(self.exists(x) and self.kinds[x] in USER for x in s)
        if k == "runev":
            return self.exists(o["a"]) and self.kinds[o["a"]] in USER
        if k in ("request", "put", "get"):
            return 1 <= o["a"] < len(self.resources)
        if k in ("release", "withexit"):
            return self.exists(o["a"]) and self.kinds[o["a"]] == "req" and (k == "release" or self.queued_or_done(o["a"]))
        if k == "cancel":
            return self.exists(o["a"]) and self.kinds[o["a"]] in ("req", "put", "get") and self.queued_or_done(o["a"])
        return True

    def queued_or_done(self, uid):
        ev = self.events[uid]
        if ev.triggered:
            return True
        r = ev.resource
        return any(x is ev for x in r.put_queue) or any(x is ev for x in r.get_queue)

    def res_state(self):
        out = []
        for i in range(1, len(self.resources)):
            r, kind = self.resources[i], self.rkinds[i]
            users = getattr(r, "users", [])
            items = list(getattr(r, "items", []))
            if kind == "pstore":
                items = sorted(items)
            out += [len(users)] + [self.uid_of.get(id(u), -1) for u in users]
            out += [len(r.put_queue)] + [self.uid_of.get(id(u), -1) for u in r.put_queue]
            out += [netlib.ex(getattr(r, "level", 0) / self.rscale.get(i, 1)), len(items)] + [self.NONE_ITEM if x is None else int(x) for x in items] + [len(r.get_queue)]
        return out

    # ------------------------------------------------------------ ops shared by processes and the top level
    def simple(self, o, P, n):
        """Execute a non-yielding op; returns an event to yield for `sleep`, else None."""
        env = self.env
        o = self.resolve(o)
        k = o["k"]
        self.creator = (P, n)
        if not self.valid(o, P):
            self.L("E", P, False, V("Skip"))
            return None
        if k == "timeout" or k == "sleep":
            uid = len(self.events)
            try:
                ev = env.timeout(self.fl["delays"][o["a"] - 1] if self.fl is not None else o["a"], value=("v", uid))
            except ValueError:
                self.L("E", P, False, V("ValueError"))          # negative delay refused
                return None
            self.reg(ev, "to")
            return ev if k == "sleep" else None
        if k == "baddelay":
            try:
                if o.get("b") == 1:
                    env.schedule(env.event(), delay=-1)      # the public plumbing method, same rule
                else:
                    env.timeout(-1)
            except ValueError:
                self.L("E", P, False, V("ValueError"))
            return None
        if k == "event":
            self.reg(env.event(), "ev")
            return None
        if k in ("succeed", "fail"):
            ev = self.events[o["a"]]
            try:
                if k == "succeed":
                    ev.succeed(("v", o["a"]))
                else:
                    ev.fail(odd_failure(o.get("b"), "x", o["a"]))
            except RuntimeError:
                self.L("E", P, False, V("RuntimeError"))
            return None
        if k == "cbintr":
            # a plain callback (not a process) that interrupts process b when event a is processed
            def cb(ev, v=o["b"], c=("i", P, n)):
                try:
                    self.procs[v].interrupt(c)
                except RuntimeError:
                    self.L("E", 0, False, V("RuntimeError"))
            self.events[o["a"]].callbacks.append(cb)
            return None
        if k == "trigger":
            try:
                self.events[o["a"]].trigger(self.events[o["b"]])
            except RuntimeError:
                self.L("E", P, False, V("RuntimeError"))
            return None
        if k == "spawn":
            pid = len(self.procs)
            self.procs.append(None)
            pr = env.process(self.body(pid))
            self.procs[pid] = pr
            self.pid_of[id(pr)] = pid
            self.reg(pr, "proc", probe=(o["b"] != 1))
            self.reg(None, "init")
            return None
        if k == "interrupt":
            try:
                # cause: (caller, op index) or, with b = 1, the bare op index -- a number that may be 0
                self.procs[o["a"]].interrupt(n if o.get("b") == 1 else ("i", P, n))      # the Interruption registers itself
            except RuntimeError:
                self.L("E", P, False, V("RuntimeError"))
            return None
        if k == "cond":
            evs = [self.events[x] for x in o["s"]]
            if len(evs) == 2 and (o["s"][0] * 7 + o["s"][1]) % 3 != 0:
                # two operands: two times out of three through the operators & and | (same meaning, another code path)
                c = (evs[0] & evs[1]) if o["a"] == 1 else (evs[0] | evs[1])
            else:
                c = env.all_of(evs) if o["a"] == 1 else env.any_of(evs)
                evs.clear()          # the caller's list is the caller's: what it does with it afterwards concerns nobody
            self.reg(c, "cond", probe=(o["b"] == 1))
            return None
        if k == "condforeign":
            from onl.sim import Environment
            other = Environment()
            try:
                if o.get("b") == 1:
                    fe = other.timeout(0)           # a foreign operand that has already been processed over there
                    other.run()
                    env.any_of([fe])
                else:
                    env.any_of([other.event()])
            except ValueError:
                self.L("E", P, False, V("ValueError"))
            return None
        if k == "skip":
            self.L("E", P, False, V("Skip"))
            return None
        if k == "mkres":
            from onl.sim import (Resource, PriorityResource, PreemptiveResource, Container, Store, PriorityStore, FilterStore)
            kind = RESKIND[o["s"][0]]
            cap = float("inf") if o["a"] >= INF else o["a"]
            if o.get("c") == 1 and kind in ("cont", "store", "pstore", "fstore") and o["a"] < INF:
                # a capacity of a + 1/2: holds exactly as many whole items / integer amounts as capacity a does
                cap = o["a"] + 0.5
            if kind == "res":
                r = Resource(env, cap)
            elif kind == "prio":
                r = PriorityResource(env, cap)
            elif kind == "preempt":
                r = PreemptiveResource(env, cap)
            elif kind == "cont":
                # s = [kind, e]: every amount, the capacity and the initial level are multiplied by 2**e on the way in and
                # divided on the way out -- exact in binary floating point, so the history is the integer one, but the
                # implementation computes with very small (e = -40) or large float amounts ("continuous matter")
                sc = 2.0 ** o["s"][1] if len(o["s"]) > 1 and o["s"][1] else 1
                self.rscale[len(self.resources)] = sc
                r = Container(env, cap * sc, o["b"] * sc) if sc != 1 else Container(env, cap, o["b"])
            elif kind == "store":
                r = Store(env, cap)
            elif kind == "pstore":
                r = PriorityStore(env, cap)
            else:
                r = FilterStore(env, cap)
            self.resources.append(r)
            self.rkinds.append(kind)
            return None
        if k == "request":
            r, kind = self.resources[o["a"]], self.rkinds[o["a"]]
            self.defer = []
            try:
                req = r.request() if kind == "res" else r.request(priority=o["b"], preempt=bool(o["c"]))
            finally:
                n_intr, self.defer = len(self.defer), None
            self.reg(req, "req")
            for _ in range(n_intr):
                self.reg(None, "intr")          # an eviction created an Interruption event after the request event
            return None
        if k == "release":
            req = self.events[o["a"]]
            self.reg(req.resource.release(req), "rel")
            return None
        if k == "cancel":
            ev = self.events[o["a"]]
            if o.get("b") == 1 and self.kinds[o["a"]] in ("put", "get"):
                ev.__exit__(None, None, None)   # leaving `with store.get() as g:` normally while g is still pending
            else:
                ev.cancel()                     # (an eviction by the re-scan registers its Interruption itself)
            return None
        if k == "withexit":
            # b = 1: the with-block is left by the exception the process caught last (an Interrupt, a failure) instead of
            # normally -- the slot is released either way
            e = self.last_exc.get(P) if o.get("b") == 1 else None
            if e is not None:
                self.events[o["a"]].__exit__(type(e), e, None)
            else:
                self.events[o["a"]].__exit__(None, None, None)
            self.reg(None, "relx")              # the Release event created inside __exit__ (not visible to the caller)
            return None
        if k == "put":
            r, kind = self.resources[o["a"]], self.rkinds[o["a"]]
            try:
                item = Item(o["b"]) if kind == "fstore" else None if (kind == "store" and o["b"] == self.NONE_ITEM) else o["b"] * self.rscale.get(o["a"], 1)
                self.reg(r.put(item), "put")
            except ValueError:
                self.L("E", P, False, V("ValueError"))
            return None
        if k == "get":
            r, kind = self.resources[o["a"]], self.rkinds[o["a"]]
            try:
                if kind == "cont":
                    g = r.get(o["b"] * self.rscale.get(o["a"], 1))
                elif kind == "fstore":
                    g = r.get(lambda x, f=o["b"]: f == 0 or int(x) == f)
                else:
                    g = r.get()
                self.reg(g, "get")
            except ValueError:
                self.L("E", P, False, V("ValueError"))
            return None
        if self.res is not None:
            return self.res.op(self, o, P, n)
        raise ValueError("unknown op " + k)

    # ------------------------------------------------------------ process body
    def body(self, pid):
        self.L("R", pid, True, V("init"))
        script = self.scripts[pid] if pid < len(self.scripts) else []
        i = 0
        while i < len(script):
            o = self.resolve(script[i])
            k = o["k"]
            n = i
            i += 1
            if k == "return":
                return ("ret", pid)
            if k == "raise":
                raise odd_failure(o.get("b"), "exc", pid)
            ev = None
            if k == "yield":
                if self.valid(o, pid):
                    ev = self.events[o["a"]]
                else:
                    self.L("E", pid, False, V("Skip"))
            else:
                ev = self.simple(o, pid, n)
            if ev is not None:
                try:
                    v = yield ev
                    self.L("R", pid, True, self.encv(v, ev))
                except GeneratorExit:
                    raise
                except BaseException as e:
                    self.L("R", pid, False, self.enc(e))
                    self.last_exc[pid] = e
                    if not o["c"]:
                        raise
        return ("ret", pid)

    # ------------------------------------------------------------ top level
    def run_plan(self):
        from onl.sim.core import StopSimulation
        plan = self.scripts[0]
        for n, o in enumerate(plan):
            self.run_plan_one(n, o)
        return self.log

    def run_plan_one(self, n, o):
        env = self.env
        o = self.resolve(o)
        if True:
            k = o["k"]
            if k == "run":
                try:
                    r = env.run()
                    self.L("RET", 0, True, self.enc(r))
                except BaseException as e:  # noqa
                    self.L("X", 0, False, self.enc(e))
            elif k == "rununtil":
                try:
                    r = env.run(until=self.fl["untils"][o["a"] - 1] if self.fl is not None else o["a"])
                    self.L("RET", 0, True, self.enc(r))
                except BaseException as e:  # noqa
                    self.L("X", 0, False, self.enc(e))
            elif k == "runev":
                if not self.valid(o, 0):
                    self.L("E", 0, False, V("Skip"))
                    return
                try:
                    r = env.run(until=self.events[o["a"]])
                    self.L("RET", 0, True, self.encv(r, self.events[o["a"]]))
                except BaseException as e:  # noqa
                    self.L("X", 0, False, self.enc(e))
            elif k == "steps":
                try:
                    while env.peek() != float("inf"):
                        env.step()
                        pk = env.peek()
                        self.L("T", 0, True, V("peek", -1 if pk == float("inf") else netlib.ex(pk), self.res_state()))
                    self.L("RET", 0, True, V("none"))
                except BaseException as e:  # noqa
                    self.L("X", 0, False, self.enc(e))
            elif k == "step":
                try:
                    env.step()
                    pk = env.peek()
                    self.L("T", 0, True, {"k": "peek", "a": -1 if pk == float("inf") else self.T(pk), "s": []})
                except BaseException as e:  # noqa
                    self.L("X", 0, False, self.enc(e))
            else:
                self.simple(o, 0, n)


CURRENT = [None]


def install_interruption_hook():
    """Interruption events are internal to the kernel; to mirror the specification's event numbering the interpreter has
    to know when one has been created (explicit interrupt() calls and preemptions alike).  Patched at run time, in the
    driver process only."""
    import onl.sim.events as ev
    if getattr(ev.Interruption, "_verif_hook", False):
        return
    orig = ev.Interruption.__init__

    def init(self, process, cause):
        orig(self, process, cause)
        if CURRENT[0] is not None:
            CURRENT[0].on_interruption()
    ev.Interruption.__init__ = init
    ev.Interruption._verif_hook = True


def patch_until_registration(machine):
    """run(until=number) creates one internal event: mirror the spec's id allocation."""
    install_interruption_hook()
    CURRENT[0] = machine
    env = machine.env
    orig = env.run

    def run(until=None):
        if until is not None and not hasattr(until, "callbacks"):
            try:
                ok = until > env.now
            except Exception:
                ok = False
            if ok:
                machine.reg(None, "until")
        return orig(until)

    env.run = run


def rankify(log, fl):
    """Float mode: replace every instant by its rank among all float sums that occur, and tabulate t + d (DESIGN 6/C01)."""
    base = {0.0}
    for e in log:
        base.add(float(e["t"]))
        if e["v"]["k"] == "peek" and e["v"]["a"] != -1:
            base.add(float(e["v"]["a"]))
    U = set(base) | {float(u) for u in fl["untils"]}
    for t in base:
        for d in fl["delays"]:
            if d >= 0:
                U.add(t + d)
    order = sorted(U)
    rank = {x: i for i, x in enumerate(order)}
    out = []
    for e in log:
        e = dict(e, t=rank[float(e["t"])])
        if e["v"]["k"] == "peek" and e["v"]["a"] != -1:
            e["v"] = dict(e["v"], a=rank[float(e["v"]["a"])])
        out.append(e)
    plus = [[rank[x + d] if (x in base and d >= 0) else 0 for d in fl["delays"]] for x in order]
    return out, {"on": True, "plus": plus, "unt": [rank[float(u)] for u in fl["untils"]],
                 "neg": [1 if d < 0 else 0 for d in fl["delays"]]}


def run_program(prog, env_factory=None, resources=None):
    m = Machine(prog["scripts"], env_factory, resources)
    if prog.get("fl"):
        m.fl = {"delays": list(prog["fl"]["delays"]), "untils": list(prog["fl"]["untils"])}
    patch_until_registration(m)
    import signal

    import hangbudget

    def _hang(signum, frame):
        hangbudget.note()
        raise TimeoutError("no progress")
    old_handler = signal.signal(signal.SIGALRM, _hang)
    signal.setitimer(signal.ITIMER_REAL, hangbudget.limit(60), 1.0)
    try:
        try:
            m.run_plan()
        except TimeoutError:
            m.log.append({"k": "X", "p": 0, "t": -1, "ok": False, "v": V("Hang")})      # a kernel that spins is an observable outcome
        finally:
            signal.setitimer(signal.ITIMER_REAL, 0)
            signal.signal(signal.SIGALRM, old_handler)
        if m.fl is not None:
            log, ftab = rankify(m.log, m.fl)
            return {"log": log, "names": m.names, "ftab": ftab, "fl": m.fl, "final": m.final_state()}
        return {"log": m.log, "names": m.names, "final": m.final_state()}
    except BaseException as e:  # noqa  -- interpreter failure, not a kernel verdict
        return {"log": m.log, "driver_error": "%s: %s" % (type(e).__name__, e)}


class Chooser:
    """On-the-fly program generation: every op is drawn (seeded) among the calls that are valid in the
    state the real kernel is in at that moment, and recorded, so the result is a well-formed program."""

    def __init__(self, m, g):
        import random
        self.m = m
        self.g = g
        self.rng = random.Random(g["seed"])

    def users(self, kinds=USER):
        m = self.m
        return [u for u in range(1, len(m.events)) if m.kinds[u] in kinds]

    # ---- resource discipline (C06 quantifier: at most one request per process and resource at a time)
    def mine(self, P, kinds):
        m = self.m
        return [u for u in range(1, len(m.events)) if m.kinds[u] in kinds and m.events[u] is not None
                and getattr(m.events[u], "proc", None) is (m.procs[P] if P else None)]

    def outstanding(self, P, r):
        m = self.m
        res = m.resources[r]
        for u in self.mine(P, ("req",)):
            ev = m.events[u]
            if ev.resource is res and (any(x is ev for x in res.put_queue) or any(x is ev for x in res.users)):
                return u
        return 0

    def holds_any(self, P):
        m = self.m
        for r in range(1, len(m.resources)):
            if m.rkinds[r] in ("res", "prio", "preempt"):
                u = self.outstanding(P, r)
                if u:
                    return u
        return 0

    def pick(self, P, count, table, is_top):
        g, m, rng = self.g, self.m, self.rng
        room = len(m.events) - 1 < g["max_events"]
        Z = {"b": 0, "c": 0, "s": []}
        if not is_top and g.get("resources"):
            held = self.holds_any(P)
            nheld = sum(1 for r in range(1, len(m.resources)) if m.rkinds[r] in ("res", "prio", "preempt") and self.outstanding(P, r))
            if held and count >= g["max_ops"] - nheld:
                return dict(Z, k="withexit", a=held, b=rng.choice([0, 1]))     # leave every with-block before ending
        for _ in range(50):
            kinds = [k for k in table]
            k = rng.choices(kinds, [table[x] for x in kinds])[0]
            c = rng.choice(g.get("catch", [1]))
            if k in ("sleep", "timeout") and room and not (is_top and k == "sleep"):
                if m.fl is not None:
                    return {"k": k, "a": rng.randrange(1, len(m.fl["delays"]) + 1), "b": 0, "c": c, "s": []}
                return {"k": k, "a": rng.choice(g["delays"]), "b": 0, "c": c, "s": []}
            if k == "event" and room:
                return {"k": k, "a": 0, "b": 0, "c": 0, "s": []}
            if k in ("succeed", "fail"):
                c_ = self.users(("ev",))
                if c_:
                    return {"k": k, "a": rng.choice(c_), "b": rng.choice([1, 2, 3, 4]) if (k == "fail" and rng.random() < 0.4) else 0, "c": 0, "s": []}
            if k == "trigger":
                c_ = self.users(("ev",))
                src = [u for u in self.users() if m.events[u] is not None and m.events[u].triggered]
                if c_ and src:
                    a, b = rng.choice(c_), rng.choice(src)
                    if a != b:
                        return {"k": k, "a": a, "b": b, "c": 0, "s": []}
            if k == "spawn" and len(m.procs) - 1 < g["max_procs"] and len(m.events) + 1 < g["max_events"]:
                return {"k": k, "a": 0, "b": 1 if rng.random() < g.get("spawn_noprobe", 0.3) else 0, "c": 0, "s": []}
            if k == "interrupt" and room and len(m.procs) > 1:
                return {"k": k, "a": rng.randrange(1, len(m.procs)), "b": 1 if rng.random() < 0.3 else 0, "c": 0, "s": []}
            if k == "cbintr" and room and len(m.procs) > 1:
                u = [x for x in self.users() if m.events[x] is not None and not m.events[x].processed]
                if u:
                    return {"k": k, "a": rng.choice(u), "b": rng.randrange(1, len(m.procs)), "c": 0, "s": []}
            if k in ("cond", "condnoprobe") and room:
                u = self.users()
                n = rng.choice([0, 1, 2, 2, 2, 3, 3])
                n = min(n, len(u))
                kids = rng.sample(u, n)
                if kids and rng.random() < g.get("dup_operands", 0.12):
                    kids.insert(rng.randrange(len(kids) + 1), rng.choice(kids))     # the same event listed twice
                return {"k": "cond", "a": rng.choice([0, 1]), "b": 1 if k == "cond" else 0, "c": 0, "s": kids}
            if k == "yield" and not is_top:
                u = [x for x in self.users() if m.events[x] is not m.procs[P]]
                if u:
                    return {"k": k, "a": rng.choice(u), "b": 0, "c": c, "s": []}
            if k in ("baddelay", "condforeign"):
                return {"k": k, "a": 0, "b": rng.choice([0, 1]), "c": 0, "s": []}
            if k == "request" and room and count <= g["max_ops"] - 2 - sum(
                    1 for r in range(1, len(m.resources)) if m.rkinds[r] in ("res", "prio", "preempt") and self.outstanding(P, r)):
                rs = [r for r in range(1, len(m.resources)) if m.rkinds[r] in ("res", "prio", "preempt") and not self.outstanding(P, r)]
                if rs:
                    return {"k": k, "a": rng.choice(rs), "b": rng.choice(g.get("prios", [0, 1, 2])), "c": rng.choice([0, 1]), "s": []}
            if k == "release" and room:
                u = self.mine(P, ("req",))
                if u:
                    return dict(Z, k=k, a=rng.choice(u))
            if k in ("cancel", "withexit") and room:
                u = [x for x in self.mine(P, ("req",) if k == "withexit" else ("req", "put", "get")) if m.queued_or_done(x)]
                if u:
                    a = rng.choice(u)
                    return dict(Z, k=k, a=a, b=1 if ((k == "cancel" and m.kinds[a] in ("put", "get") and rng.random() < 0.5)
                                                      or (k == "withexit" and rng.random() < 0.5)) else 0)
            if k in ("put", "get") and room:
                rs = [r for r in range(1, len(m.resources)) if m.rkinds[r] not in ("res", "prio", "preempt")]
                if rs:
                    r = rng.choice(rs)
                    if m.rkinds[r] == "cont":
                        return dict(Z, k=k, a=r, b=rng.choice(g.get("amounts", [1, 1, 2, 3])))
                    if k == "put":
                        if m.rkinds[r] == "store" and rng.random() < 0.12:
                            return dict(Z, k=k, a=r, b=Machine.NONE_ITEM)          # the item None
                        return dict(Z, k=k, a=r, b=100 * rng.choice([0, 1, 2]) + len(m.events))
                    f = 0
                    if m.rkinds[r] == "fstore" and m.resources[r].items and rng.random() < 0.6:
                        f = int(rng.choice(list(m.resources[r].items)))
                    return dict(Z, k=k, a=r, b=int(f))
            if k == "ryield" and not is_top:
                u = self.mine(P, ("req", "put", "get", "rel"))
                if u:
                    return dict(Z, k="yield", a=rng.choice(u), c=1)
            if k == "raise" and not is_top:
                return {"k": k, "a": 0, "b": rng.choice([1, 2, 3, 4]) if rng.random() < 0.4 else 0, "c": 0, "s": []}
            if k == "return" and not is_top and not (g.get("resources") and self.holds_any(P)):
                return {"k": k, "a": 0, "b": 0, "c": 0, "s": []}
            if is_top and k in ("run", "step"):
                return {"k": k, "a": 0, "b": 0, "c": 0, "s": []}
            if is_top and k == "rununtil" and room and m.fl is not None:
                if g["float"].get("until_abs") and rng.random() < 0.7:
                    m.fl["untils"].append(rng.choice(g["float"]["until_abs"]))       # absolute two-decimal instants
                else:
                    m.fl["untils"].append(m.env.now + rng.choice(g["float"]["until_deltas"]))
                return {"k": k, "a": len(m.fl["untils"]), "b": 0, "c": 0, "s": []}
            if is_top and k == "rununtil" and room:
                return {"k": k, "a": int(m.env.now) + rng.choice(g.get("until", [0, 1, 1, 2, 3])), "b": 0, "c": 0, "s": []}
            if is_top and k == "runev":
                u = self.users()
                if u:
                    return {"k": k, "a": rng.choice(u), "b": 0, "c": 0, "s": []}
        if not is_top and g.get("resources") and self.holds_any(P):
            return dict(Z, k="withexit", a=self.holds_any(P), b=rng.choice([0, 1]))
        return {"k": "return", "a": 0, "b": 0, "c": 0, "s": []} if not is_top else {"k": "run", "a": 0, "b": 0, "c": 0, "s": []}


class GenScripts(list):
    """scripts[p] grows while process p runs: iteration in Machine.body sees the ops as they are drawn."""


class GenScript(list):
    def __init__(self, chooser, pid, limit, table, is_top=False):
        super().__init__()
        self.ch, self.pid, self.limit, self.table, self.is_top = chooser, pid, limit, table, is_top

    def __len__(self):
        # one more op is available until the process has returned/raised or hit its limit
        n = super().__len__()
        if n and self[n - 1]["k"] in ("return", "raise"):
            return n
        if n >= self.limit:
            return n
        return n + 1

    def __getitem__(self, i):
        n = super().__len__()
        if isinstance(i, int) and i == n:
            o = self.ch.pick(self.pid, n, self.table, self.is_top)
            if self.is_top and n == self.limit - 1:
                o = {"k": "run", "a": 0, "b": 0, "c": 0, "s": []}      # the plan always ends by draining the agenda
            self.append(o)
        return super().__getitem__(i)


def run_generated(g):
    scripts = GenScripts()
    m = Machine(scripts)
    if g.get("float"):
        m.fl = {"delays": list(g["float"]["delays"]), "untils": []}
    patch_until_registration(m)
    ch = Chooser(m, g)
    if g.get("resources"):
        # resource histories: the top level creates the resources and all processes, then runs step by step
        plan = [{"k": "mkres", "a": c, "b": i, "c": 1 if g.get("halfcap") else 0,
                 "s": [kc, g["cscale"]] if (kc == 4 and g.get("cscale")) else [kc]} for kc, c, i in g["resources"]]
        plan += [{"k": "spawn", "a": 0, "b": 0, "c": 0, "s": []} for _ in range(g["nproc"])]
        plan += [{"k": "steps", "a": 0, "b": 0, "c": 0, "s": []}]
    else:
        plan = GenScript(ch, 0, g["max_plan"], g["plan_kinds"], is_top=True)
        list.append(plan, {"k": "spawn", "a": 0, "b": 0, "c": 0, "s": []})
    scripts.append(plan)
    for pid in range(1, g["max_procs"] + 1):
        scripts.append(GenScript(ch, pid, g["max_ops"], g["kinds"]))
    try:
        # Machine.run_plan iterates with enumerate(plan): drive it by index instead so that ops are drawn lazily
        i = 0
        while i < len(plan):
            o = plan[i]
            m.scripts = scripts
            m.run_plan_one(i, o)
            i += 1
        if m.fl is not None:
            log, ftab = rankify(m.log, m.fl)
            return {"scripts": [list(list.__iter__(s)) for s in scripts], "log": log, "gen": g, "ftab": ftab, "fl": m.fl,
                    "final": m.final_state()}
        return {"scripts": [list(list.__iter__(s)) for s in scripts], "log": m.log, "gen": g, "final": m.final_state()}
    except BaseException as e:  # noqa
        return {"scripts": [list(list.__iter__(s)) for s in scripts], "log": m.log, "gen": g,
                "driver_error": "%s: %s" % (type(e).__name__, e)}


def run_one(prog):
    if "gen" in prog:
        return run_generated(prog["gen"])
    return run_program(prog)


if __name__ == "__main__":
    netlib.main(run_one)
