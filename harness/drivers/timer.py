"""Drive the real onl.utils.Timer with a scripted stop/restart history and record a trace (C19).

Scenario:
  cfg    {"T": ticks, "auto": 0/1}
  args   {"kind": "none" | "scalar" | "list", "vals": [ints], "kw": -1 | int}   what is given to Timer(args=, kwargs=)
  den    ticks per unit of simulated time (1, 2, 4): real instants are ticks/den; flt=1 passes floats
  H      horizon in ticks: the run is observed up to and including this instant
  out    [{"t", "op": "S"|"R", "tau", "who": "pre"|"post", "late": 0/1}]  calls from harness processes; "pre"
         processes are created before the Timer, "post" after it (so the same-instant order against the timer's
         own events goes both ways); late=1 adds a zero-delay hop, which puts the call behind everything already
         queued for that instant (in particular behind a firing of that instant)
  inner  [{"k": ordinal of the firing, "op", "tau"}]  calls made by the callback itself
Only the public API is used: Timer(env, timeout, callback, auto_restart, args, kwargs), stop(), restart(tau).

Trace events (uniform records): F (callback entered: n, a1, a2, kw = what it received), FE (callback returned),
S / R (call issued; inn = 1 when issued from inside the callback), X (exception escaped stop()/restart()/the
constructor/env.step()), Q (horizon reached without an exception).
"""
import netlib
from netlib import ex

BAD = -777777
MAX_EVENTS = 600
BASE = {"e": "", "t": 0, "tau": 0, "inn": 0, "n": -1, "a1": -1, "a2": -1, "kw": -1, "type": ""}


def enc(v):
    if isinstance(v, bool) or not isinstance(v, int) or v < 0 or v >= 2 ** 30:
        return BAD
    return v


def expected(args):
    kind = args.get("kind", "none")
    vals = list(args.get("vals", []))
    if kind == "none":
        vals = []
    elif kind == "scalar":
        vals = vals[:1]
    vals = vals[:2]
    return {"n": len(vals), "a1": vals[0] if len(vals) > 0 else -1, "a2": vals[1] if len(vals) > 1 else -1,
            "kw": args.get("kw", -1)}


def run_one(sc):
    from onl.sim import Environment
    from onl.utils import Timer

    den = sc.get("den", 1)
    flt = sc.get("flt", 0)

    def tm(ticks):
        if den == 1 and not flt:
            return ticks
        return ticks / den

    env = Environment()
    ev = []
    inside = [False]
    nfire = [0]
    holder = [None]
    cfg = dict(sc["cfg"])
    cfg.update(expected(sc.get("args", {})))

    def now():
        return ex(env.now, den)

    def log(**kw):
        ev.append(dict(BASE, t=now(), **kw))

    def call(op, tau):
        log(e=op, tau=tau if op == "R" else 0, inn=int(inside[0]))
        try:
            if op == "S":
                holder[0].stop()
            else:
                holder[0].restart(tm(tau))
        except BaseException as e:  # noqa
            log(e="X", inn=int(inside[0]), type=type(e).__name__)

    inner = {}
    for c in sc.get("inner", []):
        inner.setdefault(c["k"], []).append(c)

    def callback(*a, **kw):
        nfire[0] += 1
        k = kw.get("k", -1) if set(kw) <= {"k"} else BAD
        log(e="F", n=len(a), a1=enc(a[0]) if len(a) > 0 else -1, a2=enc(a[1]) if len(a) > 1 else -1,
            kw=enc(k) if k != -1 else -1)
        inside[0] = True
        try:
            for c in inner.get(nfire[0], []):
                call(c["op"], c.get("tau", 0))
        finally:
            inside[0] = False
        log(e="FE")

    def caller(c):
        if c["t"] > 0:
            yield env.timeout(tm(c["t"]))
        if c.get("late"):
            yield env.timeout(0)
        call(c["op"], c.get("tau", 0))

    out = sc.get("out", [])
    for c in out:
        if c.get("who", "pre") == "pre":
            env.process(caller(c))
    a = sc.get("args", {})
    kwargs = {}
    if a.get("kind", "none") == "scalar":
        kwargs["args"] = a["vals"][0]
    elif a.get("kind") == "list":
        kwargs["args"] = list(a["vals"])
    if a.get("kw", -1) != -1:
        kwargs["kwargs"] = {"k": a["kw"]}
    try:
        holder[0] = Timer(env, tm(cfg["T"]), callback, bool(cfg["auto"]), **kwargs)
    except BaseException as e:  # noqa
        log(e="X", type=type(e).__name__)
        return {"cfg": cfg, "ev": ev}
    for c in out:
        if c.get("who", "pre") != "pre":
            env.process(caller(c))

    until = tm(sc["H"])
    ok = True
    steps = 0
    try:
        while env.peek() <= until:
            env.step()
            steps += 1
            if steps > 20000 or len(ev) > MAX_EVENTS:
                log(e="X", type="Runaway")      # e.g. firing over and over inside one instant
                ok = False
                break
    except BaseException as e:  # noqa
        log(e="X", inn=int(inside[0]), type=type(e).__name__)
        ok = False
    if ok:
        ev.append(dict(BASE, e="Q", t=sc["H"]))
    return {"cfg": cfg, "ev": ev}


if __name__ == "__main__":
    netlib.main(run_one)
