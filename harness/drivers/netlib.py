"""Driver-side helpers shared by the network-element drivers (run on the real code).

Observation uses only what the properties' `observe_at` lists name: taps around put()/out.put(),
harness-owned generator processes, scripted callables for randomness, public attributes.
"""
import io
import json
import os
import sys
import contextlib
from fractions import Fraction


class NonLattice(Exception):
    pass


def exact(x, scale=1):
    """x*scale as an exact integer, or NonLattice."""
    if isinstance(x, bool):
        return int(x)
    if isinstance(x, int):
        return x * scale
    if isinstance(x, float):
        if x != x or x in (float("inf"), float("-inf")):
            raise NonLattice(repr(x))
        f = Fraction(x) * scale
        if f.denominator != 1:
            raise NonLattice(repr(x))
        v = int(f)
        if abs(v) >= 2 ** 30:
            raise NonLattice(repr(x))
        return v
    raise NonLattice(repr(x))


def ex(x, scale=1):
    """exact() that encodes failure as the sentinel -777777 (matched by no spec action)."""
    try:
        return exact(x, scale)
    except NonLattice:
        return -777777


def ratio(x):
    """float -> [num, den] in lowest terms (dyadic), or [-777777, 1]."""
    try:
        f = Fraction(x)
        if abs(f.numerator) >= 2 ** 30 or f.denominator >= 2 ** 30:
            return [-777777, 1]
        return [f.numerator, f.denominator]
    except Exception:
        return [-777777, 1]


def check_repo():
    import onl
    want = os.environ.get("VERIF_REPO")
    if want and not os.path.abspath(onl.__file__).startswith(os.path.abspath(want) + os.sep):
        sys.stderr.write("driver imported onl from %s, expected %s\n" % (onl.__file__, want))
        sys.exit(3)


class Recorder:
    """Global event recorder: the position in `ev` is the global action order."""

    def __init__(self, env):
        self.env = env
        self.ev = []

    def log(self, **kw):
        kw.setdefault("t", ex(self.env.now))
        self.ev.append(kw)


def injector(env, rec, arrivals, make_packet, target, on_arrival, origin=0, scale=1):
    """Hand in packets at scripted instants.

    arrivals: list of dicts with t (absolute instant) and src: 0 = each arrival is its own process whose timeout is
    created at time 0; k>0 = chained source k, timeouts created one after the other.  The two styles make same-instant
    order against the element's internal events go both ways.  An arrival with "after": [k, hops] instead is *reactive*:
    it is handed in `hops` zero-delay steps after the k-th departure from the element (a closed-loop, ACK-clocked
    source), which lands it inside the instant of a transmission end, between the element's internal steps.
    Returns a function to be called by the sink tap at every departure.
    """
    chains = {}
    reactive = {}
    for i, a in enumerate(arrivals):
        if "after" in a:
            reactive.setdefault(a["after"][0], []).append((i, a))
        else:
            chains.setdefault(a.get("src", 1), []).append((i, a))

    def hand_in(i, a):
        pkt = make_packet(i, a)
        try:
            target.put(pkt)
        finally:
            on_arrival(i, a, pkt)

    def single(i, a):
        if a["t"] > 0:
            yield env.timeout(a["t"] * scale)        # scale: seconds per scripted tick
        hand_in(i, a)

    def chain(items):
        for i, a in items:
            d = a["t"] * scale - (env.now - origin)       # scripted instants count from the environment's initial time
            if d > 0:
                yield env.timeout(d)
            hand_in(i, a)

    def react(i, a):
        for _ in range(a["after"][1]):
            yield env.timeout(0)
        hand_in(i, a)

    for src, items in sorted(chains.items()):
        if src == 0:
            for i, a in items:
                env.process(single(i, a))
        else:
            env.process(chain(items))

    count = [0]

    def departed():
        count[0] += 1
        for i, a in reactive.get(count[0], ()):
            if a["after"][1] == 0:
                hand_in(i, a)
            else:
                env.process(react(i, a))
    return departed


HANG_LIMIT = 30


def run_env(env, rec, until=None, max_steps=200000):
    """Run to exhaustion (or `until`); an escaping exception becomes an X event, quiescence a Q event."""
    n = 0
    # a scenario that stops making progress inside one kernel step (an element spinning without yielding) must end
    # as an observable event, not hang the check
    import signal

    import hangbudget
    lim = hangbudget.limit(HANG_LIMIT)

    def _hang(signum, frame):
        hangbudget.note()
        raise TimeoutError("no progress for %s s of wall time" % lim)
    old = signal.signal(signal.SIGALRM, _hang)
    signal.setitimer(signal.ITIMER_REAL, lim, min(lim, 1.0))      # periodic: the next spinning process is stopped as well
    try:
        return _run_env(env, rec, until, max_steps)
    finally:
        signal.setitimer(signal.ITIMER_REAL, 0)
        signal.signal(signal.SIGALRM, old)


def _run_env(env, rec, until=None, max_steps=200000):
    n = 0
    try:
        while True:
            nxt = env.peek()
            if nxt == float("inf"):
                break
            if until is not None and nxt > until:
                break
            env.step()
            n += 1
            if n > max_steps:
                rec.ev.append({"e": "X", "t": ex(env.now), "type": "Runaway"})
                return False
    except BaseException as e:  # noqa
        rec.ev.append({"e": "X", "t": ex(env.now), "type": type(e).__name__, "msg": str(e)[:200]})
        return False
    return True


def main(run_one):
    check_repo()
    inp, outp = sys.argv[1], sys.argv[2]
    with open(inp) as f:
        scenarios = json.load(f)
    out = []
    sink = io.StringIO()
    for sc in scenarios:
        with contextlib.redirect_stdout(sink):
            out.append(run_one(sc))
        sink.seek(0)
        sink.truncate()
    with open(outp, "w") as f:
        json.dump(out, f)
