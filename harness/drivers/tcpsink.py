"""Feed the real TCPSink directly with a scripted arrival sequence and record what it acknowledges (C16, part 1).

Scenario:
  {"arr": [[k, s], ...]      arrivals in units: first byte k*mss, length s*mss
   "mss": bytes per unit, "fl": flow id of the data packets,
   "same": 0/1   1: a repeated (k, s) hands in the very same Packet object again (what a retransmission does)
   "opts": 0..3  constructor options (rec_waits / rec_arrivals switched off) -- no clause depends on them
   "gap": 0/1    1: one time unit passes between arrivals (driven from a harness process), 0: all at instant 0}
Only the public surface is used: TCPSink(env, ...), put(packet), the `out` attribute (a recording tap) and, at the
end, the public `recv_buffer`.

Trace events (uniform records): A (segment about to be handed in: seq, sz), K (acknowledgement seen on `out`: ack,
fl = its flow id), R (put() returned; k = acknowledgements emitted during the call), Q (end: pre = contiguous prefix
[0, pre) of recv_buffer), X (an exception escaped).
"""
import netlib

BAD = -777777
BASE = {"e": "", "seq": -1, "sz": -1, "ack": -1, "fl": -1, "k": -1, "pre": -1, "type": ""}


def enc(v):
    if isinstance(v, bool) or not isinstance(v, int):
        if isinstance(v, float) and v == int(v) and abs(v) < 2 ** 30:
            return int(v)
        return BAD
    return v if abs(v) < 2 ** 30 else BAD


def prefix_of(buf):
    """contiguous prefix [0, n) covered by a list of [start, end) ranges, whatever their order"""
    try:
        rs = sorted((enc(a), enc(b)) for a, b in buf)
    except Exception:
        return BAD
    n = 0
    for a, b in rs:
        if a == BAD or b == BAD:
            return BAD
        if a <= n < b:
            n = b
    return n


def run_one(sc):
    from onl.sim import Environment
    from onl.packet import Packet, TCPSink

    env = Environment()
    ev = []
    mss = sc.get("mss", 512)
    fl = sc.get("fl", 1)
    opts = sc.get("opts", 0)

    def log(**kw):
        ev.append(dict(BASE, **kw))

    class Tap:
        def __init__(self):
            self.n = 0

        def put(self, pkt):
            self.n += 1
            log(e="K", ack=enc(getattr(pkt, "ack", None)), fl=enc(getattr(pkt, "flow_id", None)))

    try:
        sink = TCPSink(env, rec_arrivals=not (opts & 1), rec_waits=not (opts & 2))
        tap = Tap()
        sink.out = tap
    except BaseException as e:  # noqa
        log(e="X", type=type(e).__name__)
        return {"ev": ev}
    made = {}

    def feed(k, s):
        key = (k, s)
        if sc.get("same") and key in made:
            pkt = made[key]
            pkt.time = env.now
        else:
            pkt = Packet(env.now, s * mss, k * mss, flow_id=fl)
            made[key] = pkt
        log(e="A", seq=k * mss, sz=s * mss)
        before = tap.n
        sink.put(pkt)
        log(e="R", k=tap.n - before)

    def proc():
        for k, s in sc["arr"]:
            if sc.get("gap"):
                yield env.timeout(1)
            feed(k, s)

    try:
        env.process(proc())
        env.run()
        log(e="Q", pre=prefix_of(sink.recv_buffer))
    except BaseException as e:  # noqa
        log(e="X", type=type(e).__name__)
    return {"ev": ev}


if __name__ == "__main__":
    netlib.main(run_one)
