"""Build a pipeline out of the real element classes, run a scripted workload to exhaustion and record what crossed
every edge (C08).

Scenario:
  {"nodes": [{"cls": <class name>, "par": {...}, "outs": [node numbers, 1-based]}, ...],
   "order": [node numbers in construction order],
   "spec":  {"kind", "succ", "nor", "loss"}        -- the topology as Conserve.tla sees it (echoed into the trace)}
Node classes: Gen (a real DistPacketGenerator with scripted draws), Inj (harness processes that create Packets at
scripted instants), Port, REDPort, Wire, TokenBucket, TwoRateTokenBucket, Sched (SP/WFQ/VC/DRR/RR/WRR, built by the
scheduler driver's `build`), FlowDemux, FIBDemux, SimplePacketSwitch, FairPacketSwitch, Splitter, NSplitter, PacketSink.

Observation: a recording tap on every edge (an object with put() that logs, forwards, logs again after the downstream
put() returned), the public counters of the element at the far end after each put and of every element when the agenda
is empty, the PacketSink dictionaries after each delivery, the scripted uniform draws of lossy wires.  A packet's
identity is a serial number per Python object.

Result: {"net": trace for ConserveTrace, "gens": [traces of the generators], "sinks": [traces of the sinks]}
(the latter two for GenSinkTrace).  All instants in the generator / sink traces are multiplied by TS so that the
quarter ticks a token bucket can produce stay integers.
"""
import signal

import netlib
from netlib import ex

BAD = -777777
TS = 4
NET_BASE = {"e": "", "t": 0, "fr": 0, "to": 0, "o": 0, "fl": [0, 0, 0, 0, 0, 0], "rcv": -1, "snt": -1, "drp": -1,
            "items": -1, "un": -1, "ud": 1, "type": ""}
GS_BASE = {"e": "", "t": 0, "id": 0, "sz": 0, "f": 0, "src": 0, "ct": 0, "sent": -1, "k": 0, "cnt": 0, "byt": 0,
           "arr": [], "wt": [], "cnts": [], "byts": [], "arrs": [], "wts": [], "type": ""}
GS_CFG = {"role": "", "d0": 0, "gaps": [], "sizes": [], "fin": -1, "flow": 0, "eid": 0, "recarr": 1, "abs": 1,
          "recwait": 1, "byflow": 1, "nk": 0}


class Hang(BaseException):
    pass


def _alarm(signum, frame):
    import hangbudget
    hangbudget.note()
    raise Hang("no progress")


def srccode(s):
    if isinstance(s, str) and s[:1] == "g" and s[1:].isdigit():
        return int(s[1:])
    return BAD


def plcode(p):
    if p is None:
        return 0
    if isinstance(p, int) and not isinstance(p, bool) and 0 < p < 2 ** 30:
        return p
    return BAD


def snap(p):
    """the identifying fields: id, flow, source, size, creation time, payload"""
    out = []
    for name, conv in (("packet_id", ex), ("flow_id", ex), ("src", srccode), ("size", ex),
                       ("time", lambda x: ex(x, TS)), ("payload", plcode)):
        try:
            out.append(conv(getattr(p, name)))
        except Exception:  # noqa
            out.append(BAD)
    return out


def tslist(xs):
    try:
        return [ex(x, TS) for x in xs]
    except Exception:  # noqa
        return [BAD]


class Draws:
    """scripted stand-in for the `random` module inside an element module"""

    def __init__(self, who, on_draw):
        self.who = who              # () -> node number the draw belongs to (0 = unknown)
        self.on_draw = on_draw
        self.seq = {}               # node -> list of [un, ud]
        self.n = {}

    def uniform(self, a, b):
        k = self.who()
        us = self.seq.get(k) or [[1, 2]]
        i = self.n.get(k, 0)
        self.n[k] = i + 1
        un, ud = us[i % len(us)]
        self.on_draw(k, un, ud)
        return a + (b - a) * (un / ud)

    def random(self):
        return self.uniform(0.0, 1.0)


def run_one(sc):
    from onl.sim import Environment
    from onl.packet import Packet, DistPacketGenerator, PacketSink
    from onl.netdev import Port, Wire, Splitter, NSplitter, SimplePacketSwitch, FairPacketSwitch, TokenBucket, \
        TwoRateTokenBucket
    from onl.netdev.red_port import REDPort
    from onl.netdev.demux import FlowDemux, FIBDemux
    import onl.netdev.red_port as red_mod
    import onl.netdev.wire as wire_mod
    import sched as sched_drv

    nodes = sc["nodes"]
    n = len(nodes)
    env = Environment()
    rec = netlib.Recorder(env)
    ev = rec.ev
    objs = {}
    keep = []
    el = {}                          # node number -> real object (None for Inj)
    putstack = []                    # node numbers whose put() is executing
    gen_ev = {}                      # node -> generator trace events
    sink_ev = {}                     # node -> sink trace events
    nk = max(n, 8) + 1

    def log(**kw):
        kw.setdefault("t", ex(env.now, TS))
        ev.append(dict(NET_BASE, **kw))

    def serial(p):
        if id(p) not in objs:
            objs[id(p)] = len(objs) + 1
            keep.append(p)
        return objs[id(p)]

    def cls(k):
        return nodes[k - 1]["cls"]

    def par(k):
        return nodes[k - 1].get("par", {})

    # ------------------------------------------------------------------ public counters of an element
    def counters(k):
        c = cls(k)
        x = el.get(k)
        d = {"rcv": -1, "snt": -1, "drp": -1, "items": -1}
        try:
            if c == "Gen":
                d.update(snt=x.packets_send)
            elif c in ("Port", "REDPort"):
                d.update(rcv=x.packets_received, drp=x.packets_dropped, items=len(x.store.items))
            elif c == "Wire":
                d.update(rcv=x.packets_rec, items=len(x.store.items))
            elif c in ("TokenBucket", "TwoRateTokenBucket"):
                d.update(rcv=x.packets_received, snt=x.packets_sent, items=len(x.store.items))
            elif c == "Sched":
                d.update(rcv=x.packets_received, items=x.total_packets)
            elif c in ("FlowDemux", "FIBDemux"):
                d.update(rcv=getattr(x, "packets_recevied", getattr(x, "packets_received", -1)))
            elif c == "SimplePacketSwitch":
                d.update(rcv=getattr(x.demux, "packets_recevied", getattr(x.demux, "packets_received", -1)),
                         drp=sum(p.packets_dropped for p in x.ports),
                         items=sum(len(p.store.items) for p in x.ports))
            elif c == "FairPacketSwitch":
                d.update(rcv=getattr(x.demux, "packets_recevied", getattr(x.demux, "packets_received", -1)),
                         drp=sum(p.packets_dropped for p in x.egress_ports),
                         items=sum(len(p.store.items) for p in x.egress_ports) + sum(s.total_packets for s in x.ports))
            elif c == "PacketSink":
                d.update(rcv=sum(x.packets_received.values()))
        except AttributeError as e:      # a missing public attribute is a machinery failure, not a packet loss
            out["machinery"] = "%s: %s" % (c, e)
        return {a: (ex(v) if v != -1 else -1) for a, v in d.items()}

    # ------------------------------------------------------------------ taps
    class Tap:
        def __init__(self, fr, to):
            self.fr, self.to = fr, to
            self.element_id = "tap%d_%d" % (fr, to)

        def put(self, packet):
            o = serial(packet)
            log(e="B", fr=self.fr, to=self.to, o=o, fl=snap(packet))
            if cls(self.fr) == "Gen":
                g = el[self.fr]
                f = snap(packet)
                gen_ev[self.fr].append(dict(GS_BASE, e="E", t=ex(env.now, TS), id=f[0], f=f[1], src=f[2], sz=f[3], ct=f[4],
                                            sent=ex(g.packets_send)))
            putstack.append(self.to)
            try:
                el[self.to].put(packet)
            finally:
                putstack.pop()
            log(e="R", fr=self.fr, to=self.to, o=o, fl=snap(packet), **counters(self.to))
            if cls(self.to) == "PacketSink":
                s = el[self.to]
                cf = sink_cfg[self.to]
                f = snap(packet)
                key = (packet.flow_id + 1) if cf["byflow"] else srccode(packet.src)
                idx = packet.flow_id if cf["byflow"] else packet.src
                sink_ev[self.to].append(dict(
                    GS_BASE, e="D", t=ex(env.now, TS), k=key, sz=f[3], ct=f[4], f=f[1], src=f[2], id=f[0],
                    cnt=ex(s.packets_received.get(idx, 0)), byt=ex(s.bytes_received.get(idx, 0)),
                    arr=tslist(s.arrivals.get(idx, [])), wt=tslist(s.waits.get(idx, []))))

    def who_draws():
        ap = env.active_process
        if putstack:
            return putstack[-1]
        if ap is not None:
            for k, x in el.items():
                if getattr(x, "action", None) is ap:
                    return k
        return 0

    def on_wire_draw(k, un, ud):
        if k and cls(k) == "Wire":
            log(e="U", to=k, un=un, ud=ud)
        else:
            log(e="X", type="UnattributedLossDraw")

    wire_draws = Draws(who_draws, on_wire_draw)
    red_draws = Draws(who_draws, lambda k, un, ud: None)
    wire_mod.random = wire_draws
    red_mod.random = red_draws

    sink_cfg = {}
    gen_cfg = {}
    taps = {}

    def tap(fr, to):
        taps[(fr, to)] = Tap(fr, to)
        return taps[(fr, to)]

    def rate_of(K):
        return 0 if K == 0 else 8.0 / K

    # ------------------------------------------------------------------ construction (in the scripted order)
    def construct(k):
        c, p = cls(k), par(k)
        dbg = bool(p.get("debug"))
        if c == "Gen":
            gaps = list(p["gaps"])
            sizes = list(p["sizes"])
            st = {"g": 0, "s": 0}

            def arrival():
                i = st["g"]
                st["g"] += 1
                if i < len(gaps):
                    return float(gaps[i]) if p.get("floats") else gaps[i]
                return float("inf")

            def size():
                i = st["s"]
                st["s"] += 1
                return sizes[i] if i < len(sizes) else 1

            fin = p.get("fin", -1)
            kw = {}
            if fin >= 0:
                kw["finish"] = fin
            if p.get("d0", 0) or p.get("floats"):
                kw["initial_delay"] = p.get("d0", 0)
            el[k] = DistPacketGenerator(env, "g%d" % k, arrival, size, flow_id=p["flow"], debug=dbg, **kw)
            gen_ev[k] = []
            gen_cfg[k] = dict(GS_CFG, role="gen", d0=p.get("d0", 0) * TS, gaps=[g * TS for g in gaps], sizes=sizes,
                              fin=(fin * TS if fin >= 0 else -1), flow=p["flow"], eid=k, nk=nk)
        elif c == "Inj":
            el[k] = None
            cnt = [0]

            def make_packet(i, a):
                cnt[0] += 1
                return Packet(env.now, a["sz"], cnt[0], src="g%d" % k, flow_id=a["f"], payload=a.get("pl") or None)

            class Target:
                def put(self, pkt):
                    taps[(k, nodes[k - 1]["outs"][0])].put(pkt)

            netlib.injector(env, rec, p["arr"], make_packet, Target(), lambda i, a, pkt: None)
        elif c == "Port":
            ql = None if p["mode"] == 0 else p["qlimit"]
            el[k] = Port(env, rate_of(p["K"]), ql, p["mode"] == 1, "n%d" % k, debug=dbg)
        elif c == "REDPort":
            el[k] = REDPort(env, rate_of(p["K"]), p["maxth"], p["minth"], p["pn"] / p["pd"], "n%d" % k, p["qlimit"],
                            weight_factor=p["w"], limit_bytes=(p["mode"] == 1), debug=dbg)
            red_draws.seq[k] = p.get("us") or [[1, 2]]
        elif c == "Wire":
            dl = list(p.get("dl") or [1])
            cnt = [0]

            def delay():
                d = dl[cnt[0] % len(dl)]
                cnt[0] += 1
                return d

            loss = p.get("loss")
            el[k] = Wire(env, delay, None if not loss else loss[0] / loss[1], wire_id=k, debug=dbg)
            wire_draws.seq[k] = p.get("us") or [[1, 2]]
        elif c == "TokenBucket":
            el[k] = TokenBucket(env, 8 * p["R"], p["B"], peak=(8 * p["P"] if p.get("P") else None), debug=dbg)
        elif c == "TwoRateTokenBucket":
            if p.get("PIR"):
                el[k] = TwoRateTokenBucket(env, 8 * p["CIR"], p["CBS"], 8 * p["PIR"], p["PBS"], debug=dbg)
            else:
                el[k] = TwoRateTokenBucket(env, 8 * p["CIR"], p["CBS"], debug=dbg)
        elif c == "Sched":
            el[k] = sched_drv.build(env, p)
            if dbg:
                el[k].debug = True          # the public flag the constructors store
        elif c == "FlowDemux":
            el[k] = FlowDemux([], None)
        elif c == "FIBDemux":
            el[k] = FIBDemux(outs=[], fib={f: port - 1 for f, port in p["table"]})
        elif c == "SimplePacketSwitch":
            el[k] = SimplePacketSwitch(env, p["nports"], 8.0 / p["K"], p["buffer"], element_id="sw%d" % k, debug=dbg)
        elif c == "FairPacketSwitch":
            weights = {f: w for f, w in enumerate(p["w"])}
            el[k] = FairPacketSwitch(env, p["nports"], 8.0 / p["K"], p["buffer"], weights, p["server"],
                                     element_id="sw%d" % k, debug=dbg)
            el[k].demux.fib = {f: port - 1 for f, port in p["table"]}
        elif c == "Splitter":
            el[k] = Splitter()
        elif c == "NSplitter":
            el[k] = NSplitter(p["n"])
        elif c == "PacketSink":
            cf = {"recarr": p.get("recarr", 1), "abs": p.get("abs", 1), "recwait": p.get("recwait", 1),
                  "byflow": p.get("byflow", 1)}
            sink_cfg[k] = cf
            if p.get("tcp"):
                from onl.packet import TCPSink

                class Ignore:
                    def put(self, pkt):
                        pass
                el[k] = TCPSink(env, rec_arrivals=bool(cf["recarr"]), absolute_arrivals=bool(cf["abs"]),
                                rec_waits=bool(cf["recwait"]), rec_flow_ids=bool(cf["byflow"]), debug=dbg)
                el[k].out = Ignore()
            else:
                el[k] = PacketSink(env, rec_arrivals=bool(cf["recarr"]), absolute_arrivals=bool(cf["abs"]),
                                   rec_waits=bool(cf["recwait"]), rec_flow_ids=bool(cf["byflow"]), debug=dbg)
            sink_ev[k] = []
        else:
            raise SystemExit("unknown node class %r" % c)

    def wire_up(k):
        c, p, outs = cls(k), par(k), nodes[k - 1].get("outs", [])
        x = el.get(k)
        ts = [tap(k, j) for j in outs]
        if c in ("Gen", "Port", "REDPort", "Wire", "TokenBucket", "TwoRateTokenBucket", "Sched"):
            x.out = ts[0]
        elif c == "FlowDemux":
            nouts = p["nouts"]
            x.outs = ts[:nouts]
            if p.get("dflt"):
                x.default_out = ts[nouts]
        elif c == "FIBDemux":
            nouts = p["nouts"]
            x.outs = ts[:nouts]
            rest = ts[nouts:]
            if p.get("dflt"):
                x.default_out = rest.pop(0)
            for f, t in zip(p.get("ends", []), rest):
                x.ends[f] = t
        elif c in ("SimplePacketSwitch", "FairPacketSwitch"):
            for i, t in enumerate(ts):
                x.ports[i].out = t
        elif c == "Splitter":
            x.out1, x.out2 = ts[0], ts[1]
        elif c == "NSplitter":
            for i, t in enumerate(ts):
                x.outs[i] = t

    out = {"net": {"cfg": sc["spec"], "ev": ev}, "gens": [], "sinks": []}
    old = signal.signal(signal.SIGALRM, _alarm)
    import hangbudget
    signal.setitimer(signal.ITIMER_REAL, hangbudget.limit(sc.get("watchdog", 10)), 1.0)
    ok = False
    try:
        try:
            order = sc.get("order") or list(range(1, n + 1))
            for k in order:
                construct(k)
            for k in order:
                if cls(k) == "Inj":
                    for j in nodes[k - 1]["outs"]:
                        tap(k, j)
                else:
                    wire_up(k)
        except Hang:
            raise
        except BaseException as e:  # noqa
            log(e="X", t=0, type="Build:" + type(e).__name__)
        else:
            ok = netlib.run_env(env, rec)
    except Hang:
        log(e="X", type="Hang")
        ok = False
    finally:
        signal.setitimer(signal.ITIMER_REAL, 0)
        signal.signal(signal.SIGALRM, old)
    for i, e in enumerate(ev):
        if e["e"] == "X":
            t = str(e.get("type", ""))[:60]
            m = str(e.get("msg", ""))[:120]
            ev[i] = dict(NET_BASE, e="X", t=ex(env.now, TS), type=t)
            out["net"]["error"] = (t + ": " + m)
    if ok:
        for k in range(1, n + 1):
            if cls(k) != "Inj":
                log(e="Q", to=k, **counters(k))
        log(e="Z")
    for k in sorted(gen_ev):
        g = gen_ev[k]
        if ok:
            g.append(dict(GS_BASE, e="Q", t=ex(env.now, TS), sent=ex(el[k].packets_send)))
        else:
            g.append(dict(GS_BASE, e="X", t=ex(env.now, TS)))
        out["gens"].append({"cfg": gen_cfg[k], "node": k, "ev": g})
    for k in sorted(sink_ev):
        s = el[k]
        cf = sink_cfg[k]
        sev = sink_ev[k]
        if ok:
            def per_key(d, conv, dflt):
                res = []
                for key in range(1, nk + 1):
                    idx = (key - 1) if cf["byflow"] else "g%d" % key
                    res.append(conv(d.get(idx, dflt)))
                return res
            sev.append(dict(GS_BASE, e="Q", t=ex(env.now, TS),
                            cnts=per_key(s.packets_received, ex, 0), byts=per_key(s.bytes_received, ex, 0),
                            arrs=per_key(s.arrivals, tslist, []), wts=per_key(s.waits, tslist, [])))
        else:
            sev.append(dict(GS_BASE, e="X", t=ex(env.now, TS)))
        out["sinks"].append({"cfg": dict(GS_CFG, role="sink", nk=nk, **cf), "node": k, "ev": sev})
    return out


if __name__ == "__main__":
    netlib.main(run_one)
