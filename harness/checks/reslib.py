"""Shared by C06 and C07: resource histories on SimKernel (ResMC) and the real onl.sim.resources."""
from . import kernlib


def gen_histories(ctx, n, family, label):
    rng = ctx.rng
    gens = []
    for i in range(n):
        if family == "res":
            resources = [[rng.choice([1, 2, 3, 3]), rng.choice([1, 1, 2, 3]), 0]]
            if rng.random() < 0.3:
                # a second resource: processes hold slots of both at once (nested with-blocks), preempted on one of them
                resources.append([rng.choice([1, 3, 3]), rng.choice([1, 1, 2]), 0])
            kinds = {"sleep": 3, "request": 4, "release": 2, "cancel": 1, "withexit": 2, "ryield": 4, "return": 0.3}
        else:
            kc = rng.choice([4, 4, 5, 6, 6, 7])
            if kc == 4:
                cap = rng.choice([2, 3, 5])
                resources = [[4, cap, rng.choice([0, 1, min(2, cap)])]]
            else:
                resources = [[kc, rng.choice([1, 2, 3, 1000000, 1000000]), 0]]
            kinds = {"sleep": 2, "put": 4, "get": 4, "cancel": 1.5, "ryield": 4, "return": 0.3}
            if kc == 6 and rng.random() < 0.5:
                kinds = {"sleep": 1, "put": 7, "get": 3, "cancel": 0.5, "ryield": 3, "return": 0.2}     # let the heap grow
        gens.append({"gen": {"seed": rng.randrange(1 << 30), "resources": resources,
                             "halfcap": 1 if (family != "res" and rng.random() < 0.25) else 0,
                             "cscale": rng.choice([0, 0, -40, -40, -33, 30]) if family != "res" else 0, "nproc": rng.choice([2, 3, 4, 5]),
                             "max_procs": 5, "max_ops": rng.choice([5, 7]), "max_events": 60, "max_plan": 1,
                             "delays": [0, 1, 1, 2], "catch": [1], "kinds": kinds, "plan_kinds": {"run": 1}}})
    out = ctx.drive("kernel", gens, procs=12)
    for o in out:
        if o.get("driver_error"):
            from ..vlib import core
            raise core.Machinery("kernel driver failed on generated history: %s" % o["driver_error"])
    tr = [{"scripts": o["scripts"], "log": o["log"], "final": o["final"]} for o in out]
    stuck = ctx.validate("KernelTrace", "KernelTrace.cfg", "kernel", tr, shard=120)
    ctx.events += sum(len(t["log"]) for t in tr)
    import json
    for i, t in enumerate(tr):
        if i in stuck:
            pos = stuck[i]
            ctx.violation("resource_trace", {"scripts": t["scripts"]}, {"code_log": t["log"]},
                          "recorded resource history is not a behaviour of SimKernel from entry %d: %s" % (
                              pos, json.dumps(t["log"][pos - 1]) if pos - 1 < len(t["log"]) else "<end of log>"),
                          sig="trace " + label)
        else:
            classify(ctx, t["scripts"], t["log"])
    if tr:
        ctx.sample({"program": tr[0]["scripts"], "log": tr[0]["log"][:10]})
    return tr, stuck


def classify(ctx, scripts, log):
    kinds = set()
    ops = [o["k"] for s in scripts[1:] for o in s]
    for e in log:
        if e["k"] == "R" and not e["ok"] and e["v"]["k"] == "preempted":
            kinds.add("preemption")
        if e["k"] == "T":
            s = e["v"]["s"]
            if s and len(s) > 1 and s[0] >= 1 and s[1 + s[0]] >= 1:
                kinds.add("queue_behind_users")
            if s and s[0] == 0 and len(s) > 1 and s[1] >= 2:
                kinds.add("two_or_more_waiting")
    if "cancel" in ops:
        kinds.add("cancel")
    if "withexit" in ops:
        kinds.add("with_exit")
    if ops.count("release") >= 2:
        kinds.add("several_releases")
    for k in kinds:
        ctx.count(k)
    before = getattr(ctx, "cases", 0)
    kernlib.classify(ctx, scripts, log)
    if kinds and getattr(ctx, "cases", 0) == before:
        ctx.count_case()
