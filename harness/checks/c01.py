"""C01 -- time order, urgent-first, trigger order: SimKernel.tla vs the real kernel."""
import json
from ..vlib import core
from . import kernlib

RULE = ("every program TLC enumerates within the bounds (processes x ops over the alphabet: timeouts with delays 0/1(/2), shared events, "
        "joins, spawns, interrupts, negative delay) is executed on the real kernel and its log (resumptions, probe callbacks of every event, "
        "refused calls, return/raise of run) compared with the specification's; plus on-the-fly generated larger programs validated by "
        "TLC (KernelTrace). non-trivial = program whose run has >= 3 effects at one instant, an interrupt or failure delivery, a refused "
        "call or run() raising; counted per distinct program. Float delays (0.1, 0.2, 0.3, 0.7, ...) are covered by generated programs whose instants "
        "are replaced by their ranks among the exact float sums t0 + d. The agenda of every Environment created by the repository's own 119 tests "
        "and its demo programs is recorded (schedule calls, popped events) and validated against AgendaTrace.tla")
KINDS = {"sleep": 5, "timeout": 2, "event": 2, "succeed": 2, "spawn": 2, "interrupt": 1.5, "yield": 4, "baddelay": 0.3}


def run(ctx, replay=None):
    if replay:
        return kernlib.replay(ctx, replay)
    if ctx.quick:
        kernlib.mc_replay(ctx, "KernelMC_c01.cfg")
        kernlib.gen_validate(ctx, 1500, KINDS)
        kernlib.gen_validate(ctx, 800, KINDS, label="generated-float-delays", **{"float": kernlib.FLOAT})
    else:
        kernlib.mc_replay(ctx, "KernelMC_c01.cfg", {"Delays = {0, 1}": "Delays = {0, 1, 2}"}, label="KernelMC/c01 3x2 delays 0..2")
        kernlib.mc_replay(ctx, "KernelMC_c01.cfg", {"MaxProc = 3": "MaxProc = 2", "MaxOps = 2": "MaxOps = 3"}, label="KernelMC/c01 2x3")
        # beyond the exhaustive bound: random deep behaviours of the same specification (TLC -simulate), replayed likewise
        kernlib.mc_replay(ctx, "KernelMC_c01.cfg", {"MaxProc = 3": "MaxProc = 4", "MaxOps = 2": "MaxOps = 4", "MaxEv = 9": "MaxEv = 22", "Delays = {0, 1}": "Delays = {0, 1, 2}"},
                          label="KernelMC/c01 simulate 4 procs x 4-5 ops", simulate=4000, depth=400)
        kernlib.gen_validate(ctx, 20000, KINDS)
        kernlib.gen_validate(ctx, 5000, KINDS, max_procs=6, max_ops=8, max_events=40, label="generated-large")
        kernlib.gen_validate(ctx, 10000, KINDS, label="generated-float-delays", **{"float": kernlib.FLOAT})
    kernlib.agenda_traces(ctx)
    return ctx.finish(RULE, assumptions=["float delays are handled by rank abstraction: the harness tabulates the float sums t + d, the specification decides order and equality of instants"])


if __name__ == "__main__":
    core.main(run, "C01")
