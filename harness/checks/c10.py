"""C10 -- Wire / Cable against spec/net/Wire.tla."""
import json
from ..vlib import core

RULE = ("input scenarios (arrival instants, delay-draw sequence, loss-draw sequence, loss rate) emitted by the exhaustive "
        "TLC runs of WireMC plus seeded random larger lattice scenarios, each replayed on the real Wire or on both "
        "directions of a real Cable (every direction validated as its own Wire instance; in a fifth of the scenarios the far "
        "end was connected to other receivers first, in a seventh the same receiver is assigned again mid-run); a scenario is non-trivial when "
        "it contains a packet held back for order (a + d earlier than the previous delivery, e.g. a decreasing delay "
        "sequence), a same-instant burst, an arrival at a delivery instant, a zero delay, a discarded packet, a discarded "
        "packet with others queued behind it, a loss draw exactly at the rate, the same packet object handed in again while "
        "its earlier entry is still inside (a retransmission), or bidirectional cable traffic; "
        "distinct = distinct scenarios")

ACTS = ("EnvArrive", "EnvDelay", "DoDeliver", "EnvTick")
UNITS = [[1, 1], [1, 1], [1, 2], [1, 4], [2, 1], [3, 1]]


def direction(rng, w):
    arr = [{"t": t, "src": rng.choice([0, 1, 1, 2]), "re": -1} for t in w["arr"]]
    if len(arr) >= 2 and rng.random() < 0.2:
        # a retransmission: the very packet object of an earlier arrival is handed in again
        for _ in range(rng.choice([1, 1, 2])):
            i = rng.randrange(1, len(arr))
            arr[i]["re"] = rng.randrange(0, i)
    return {"arr": arr, "dl": list(w["dl"]), "us": [list(u) for u in w["us"]]}


def replugged(rng, sc):
    """The far end connected elsewhere first / assigned again while packets are in flight: harmless re-configurations."""
    if rng.random() < 0.2:
        sc["replug"] = rng.choice([1, 1, 2])
    if rng.random() < 0.15:
        ts = [a["t"] for d in sc["dirs"] for a in d["arr"]]
        hi = max(ts + [1]) + 3
        sc["replug_at"] = sorted(rng.randint(0, hi) for _ in range(rng.choice([1, 2])))
    return sc


def wire_scenario(ctx, w):
    rng = ctx.rng
    return replugged(rng, _wire_scenario(ctx, w))


def cable_scenario(ctx, w1, w2):
    return replugged(ctx.rng, _cable_scenario(ctx, w1, w2))


def _wire_scenario(ctx, w):
    rng = ctx.rng
    return {"kind": "wire", "cfg": w["cfg"], "unit": rng.choice(UNITS), "intd": rng.choice([0, 1]),
            "dflt": rng.choice([0, 1]), "wid": rng.choice([0, 7]), "echo": 0, "ptime": rng.choice([0, 1]), "dirs": [direction(rng, w)]}


def _cable_scenario(ctx, w1, w2):
    """two workloads with the same loss configuration, one per direction of one Cable"""
    rng = ctx.rng
    return {"kind": "cable", "cfg": w1["cfg"], "unit": rng.choice(UNITS), "intd": rng.choice([0, 1]),
            "wid": rng.choice([0, 3]), "echo": rng.choice([0, 0, 1]), "ptime": rng.choice([0, 1]),
            "dirs": [direction(rng, w1), direction(rng, w2)]}


RATES = [(0, 1, 1), (0, 1, 1), (0, 1, 0), (1, 2, 0), (1, 4, 0), (3, 4, 0), (1, 1, 0), (1, 8, 0)]
DRAWS = [(0, 1), (1, 8), (1, 4), (3, 8), (1, 2), (5, 8), (3, 4), (7, 8), (1, 1)]


def random_workload(ctx, cfg=None):
    rng = ctx.rng
    if cfg is None:
        pn, pd, none = rng.choice(RATES)
        cfg = {"pn": pn, "pd": pd, "none": none}
    n = rng.randint(2, 14)
    style = rng.choice(["mixed", "mixed", "decreasing", "constant", "zero", "wide"])
    t = 0
    arr = []
    for _ in range(n):
        t += rng.choice([0, 0, 0, 1, 1, 2, 3, 5, 8])
        arr.append(t)
    if style == "decreasing":
        top = rng.randint(n, 3 * n)
        dl = [max(0, top - i * rng.choice([1, 2, 3])) for i in range(n)]
    elif style == "constant":
        dl = [rng.choice([1, 2, 5])] * n
    elif style == "zero":
        dl = [rng.choice([0, 0, 0, 1]) for _ in range(n)]
    elif style == "wide":
        dl = [rng.choice([0, 1, 4, 9, 16, 25]) for _ in range(n)]
    else:
        dl = [rng.choice([0, 1, 1, 2, 3, 5, 8]) for _ in range(n)]
    us = [list(rng.choice(DRAWS)) for _ in range(n)]
    if rng.random() < 0.3:          # draws exactly at the rate
        us = [[cfg["pn"], cfg["pd"]] if rng.random() < 0.4 else u for u in us]
    return {"cfg": cfg, "arr": arr, "dl": dl, "us": us}


def classify(ctx, tr, kinds):
    """which antecedents of C10 clauses this (accepted) trace exercises"""
    ev = tr["ev"]
    cfg = tr["cfg"]
    lastd = None
    dq = []                         # delay draws not yet matched to a delivery (the real wire draws only for survivors)
    fl = 0                          # packets in flight
    for i, e in enumerate(ev):
        k = e["e"]
        if k == "A":
            fl += 1
            if i and ev[i - 1]["e"] == "A" and ev[i - 1]["t"] == e["t"]:
                kinds.add("burst")
            if any(o["e"] == "D" and o["t"] == e["t"] for o in ev[max(0, i - 4):i + 5]):
                kinds.add("arrival_at_delivery_instant")
            if e["al"]:
                ina = sum(1 for o in ev[:i] if o["e"] == "A" and o["obj"] == e["obj"])
                outd = sum(1 for o in ev[:i] if o["e"] == "D" and o["obj"] == e["obj"])
                if ina > outd:      # (an earlier entry that was discarded also counts as not yet delivered)
                    kinds.add("resent_while_earlier_entry_inside")
        elif k == "W":
            dq.append(e["d"])
            if e["d"] == 0:
                kinds.add("zero_delay")
        elif k == "U":
            c = e["un"] * cfg["pd"] - cfg["pn"] * e["ud"]
            if c == 0 and cfg["pn"] > 0:
                kinds.add("draw_at_rate")
            if c < 0:
                kinds.add("discarded")
                if fl >= 2:
                    kinds.add("discarded_with_queue_behind")
                fl -= 1
        elif k == "D":
            fl -= 1
            if dq:
                d = dq.pop(0)
                if lastd is not None and e["at"] + d < lastd:
                    kinds.add("held_for_order")
            lastd = e["t"]


def flatten(scs, results):
    flat, owner = [], []
    for i, r in enumerate(results):
        for k, t in enumerate(r["sub"]):
            flat.append(t)
            owner.append((i, k))
    return flat, owner


def run(ctx, replay=None):
    if replay:
        obj = json.load(open(replay))
        scs = [obj["scenario"]]
    else:
        big = not ctx.quick
        cfg_a = open(core.tlc.SPEC + "/net/WireMC_lossless.cfg").read()
        cfg_b = open(core.tlc.SPEC + "/net/WireMC_lossy.cfg").read()
        cfg_c = open(core.tlc.SPEC + "/net/WireMC_live.cfg").read()
        cfg_d = open(core.tlc.SPEC + "/net/CableMC.cfg").read()
        if big:
            cfg_a = cfg_a.replace("MaxPk = 4", "MaxPk = 5")
            cfg_b = (cfg_b.replace("MaxT = 2", "MaxT = 3").replace("Delays = {0, 1, 2}", "Delays = {0, 1, 2, 3}")
                     .replace("Early = FALSE", "Early = TRUE"))
            cfg_c = cfg_c.replace("MaxT = 1", "MaxT = 3")
            cfg_d = cfg_d.replace("MaxT = 1", "MaxT = 2")
        r1 = ctx.mc("WireMC", cfg_a, "net", required_actions=ACTS, label="WireMC/lossless", timeout=3000)
        r2 = ctx.mc("WireMC", cfg_b, "net", required_actions=ACTS + ("EnvLoss",), label="WireMC/lossy", timeout=3000)
        ctx.mc("WireMC", cfg_c, "net", required_actions=ACTS + ("EnvLoss",), label="WireMC/live(Drains)", timeout=3000)
        ctx.mc("CableMC", cfg_d, "net", required_actions=("Step1", "Step2", "Tick"), label="CableMC", timeout=3000)
        seen = set()
        emitted = []
        for r in (r1, r2):
            for w in r.emitted():
                k = json.dumps(w, sort_keys=True)
                if k not in seen:
                    seen.add(k)
                    emitted.append(w)
        ctx.extra["scenarios_emitted_by_tlc"] = len(emitted)
        if not emitted:
            raise core.Machinery("WireMC emitted no scenario")
        n_emit = 2500 if ctx.quick else 60000
        n_cab = 500 if ctx.quick else 15000
        n_rand = 1500 if ctx.quick else 40000
        n_rcab = 500 if ctx.quick else 15000
        emitted.sort(key=lambda w: json.dumps(w, sort_keys=True))
        ctx.rng.shuffle(emitted)
        scs = [wire_scenario(ctx, w) for w in emitted[:n_emit]]
        bycfg = {}
        for w in emitted:
            bycfg.setdefault(json.dumps(w["cfg"], sort_keys=True), []).append(w)
        groups = sorted(bycfg)
        for _ in range(n_cab):
            g = bycfg[ctx.rng.choice(groups)]
            scs.append(cable_scenario(ctx, ctx.rng.choice(g), ctx.rng.choice(g)))
        scs += [wire_scenario(ctx, random_workload(ctx)) for _ in range(n_rand)]
        for _ in range(n_rcab):
            w1 = random_workload(ctx)
            scs.append(cable_scenario(ctx, w1, random_workload(ctx, cfg=w1["cfg"])))
    results = ctx.drive("wire", scs, procs=12)
    flat, owner = flatten(scs, results)
    stuck = ctx.validate("WireTrace", "WireTrace.cfg", "net", flat, shard=500)
    bad = {}
    for j, pos in stuck.items():
        i, k = owner[j]
        bad.setdefault(i, []).append((k, pos, flat[j]))
    distinct = set()
    for i, (sc, res) in enumerate(zip(scs, results)):
        key = json.dumps(sc, sort_keys=True)
        if key in distinct:
            continue
        distinct.add(key)
        if i in bad:
            k, pos, tr = sorted(bad[i], key=lambda x: x[0])[0]
            ev = tr["ev"]
            at = ev[pos - 1] if pos - 1 < len(ev) else None
            ctx.violation("wire_trace", sc, res,
                          "direction %d of %s: trace rejected at event %d: %s" % (k + 1, sc["kind"], pos, json.dumps(at)))
        else:
            kinds = set()
            for tr in res["sub"]:
                classify(ctx, tr, kinds)
            if sc["kind"] == "cable" and all(any(e["e"] == "D" for e in tr["ev"]) for tr in res["sub"]):
                kinds.add("cable_bidirectional")
                if sc.get("echo"):
                    kinds.add("cable_echo_at_delivery")
            for kd in kinds:
                ctx.count(kd)
            if i % 1499 == 0:
                ctx.sample({"scenario": sc, "trace_events": res["sub"][0]["ev"][:14]})
    ctx.extra["distinct_scenarios"] = len(distinct)
    return ctx.finish(RULE, assumptions=[
        "instants and delays on an integer lattice scaled by a unit in {1, 1/2, 1/4, 2, 3} (all exactly representable); "
        "float rounding off the lattice is not decided",
        "loss is checked as the threshold function of one scripted uniform draw per packet (lost below the rate, kept above, "
        "either exactly at the rate); frequencies / independence of a real generator are not examined",
        "draws are matched to packets in sequence order (k-th loss draw = k-th packet, next delay draw = first packet in "
        "flight without one); when inside the interval [entry, head of line] a draw is taken is not constrained, and a "
        "discarded packet may or may not have consumed a delay draw",
        "a draw made inside a Cable is attributed to the wire whose process is running or whose put() is executing"])


if __name__ == "__main__":
    core.main(run, "C10")
