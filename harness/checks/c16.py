"""C16 -- TCP acknowledgements are cumulative and correct; all data gets through.

Part 1: the real TCPSink fed directly, against spec/tcp/TcpSink.tla.
Part 2: real TCPPacketGenerator / Wire / TCPSink loops with scripted drops, against spec/tcp/TcpLoop.tla (by order).
"""
import itertools
import json
import os
import re

from ..vlib import core, tlc

RULE = ("part 1: arrival sequences emitted by the exhaustive TLC runs of TcpSinkMC (every sequence within the bounds) plus "
        "seeded random longer ones, each fed to the real TCPSink; part 2: every drop pattern of at most 2 data and 2 ACK "
        "transmissions among the first 8 (the patterns emitted by TcpLoopMC are a subset) and seeded random larger ones, "
        "each run on a real sender/wire/sink/wire loop with Reno and CUBIC over several delay / initial-RTT classes "
        "(one-way delays from 0 and a few microseconds up to 1, initial RTT estimates 1/16 .. 4), plus longer flows (12-32 "
        "segments, more in the thorough tier) with an early data loss so that fast retransmit and congestion avoidance are "
        "reached. "
        "A scenario is non-trivial when it contains (sink) a reordered arrival, a duplicate, a gap, a missing first "
        "segment, an overlap; (loop) a dropped data packet, a dropped ACK, a timer retransmission, a fast retransmission, "
        "a duplicate ACK at the sender, a duplicate ACK with nothing outstanding, a cumulative ACK that advances by more "
        "than one segment, a spurious timeout (retransmission although nothing was lost), a zero or microsecond path delay, "
        "a long flow that continues after a fast retransmit, or is of the loss-free RTT < RTO class; "
        "distinct = distinct scenarios")

WORKERS = int(os.environ.get("VERIF_TLC_WORKERS", "16") or 16)
LOOP_ACTS = ("EnvSend", "EnvTimer", "EnvRecv", "EnvAck", "EnvAckFrx")
SINK_ACTS = ("EnvArrive", "DoAck")
LAT = [[1, 8], [1, 4], [3, 8], [1, 2], [1, 1]]
RTT0 = [[1, 16], [1, 8], [1, 4], [1, 2], [1, 1], [2, 1], [4, 1]]
# zero and microsecond one-way delays (hosts on one switch): 0, 2^-17 s (7.6 us), 10 us, 2^-14 s (61 us)
TINY = [[0, 1], [0, 1], [1, 131072], [1, 100000], [1, 16384]]


def sub(text, **kv):
    for k, v in kv.items():
        text, n = re.subn(r"\b%s = .*" % k, "%s = %s" % (k, v), text)
        if n != 1:
            raise core.Machinery("constant %s not found in a TcpLoopMC configuration" % k)
    return text


# ------------------------------------------------------------------------------------------- scenarios
def sink_scenario(ctx, arr):
    rng = ctx.rng
    return {"part": "sink", "arr": [list(a) for a in arr], "mss": rng.choice([1, 100, 512, 512, 1460]),
            "fl": rng.choice([0, 1, 7]), "same": rng.choice([0, 1]), "opts": rng.choice([0, 0, 1, 2, 3]),
            "gap": rng.choice([0, 1])}


def random_arrivals(ctx):
    rng = ctx.rng
    n = rng.randint(3, 12)
    top = rng.randint(2, 9)
    style = rng.choice(["any", "any", "perm", "tail_first", "dups"])
    if style == "perm":
        idx = list(range(top + 1))
        rng.shuffle(idx)
        return [[k, 1] for k in idx]
    if style == "tail_first":
        idx = list(range(1, top + 1))
        rng.shuffle(idx)
        return [[k, 1] for k in idx] + [[0, 1]] + [[rng.randint(0, top), 1] for _ in range(rng.randint(0, 3))]
    if style == "dups":
        base = [[k, 1] for k in range(rng.randint(1, top))]
        return base + [list(rng.choice(base)) for _ in range(rng.randint(1, 5))]
    return [[rng.randint(0, top), rng.choice([1, 1, 1, 2, 3])] for _ in range(n)]


def timing(ctx, kind=None):
    """(fwd, rev, rtt0): 'slow' = the initial RTO 2*rtt0 is above the round-trip time, 'fast' = it is not,
    'tiny' = one-way delays of 0 or a few microseconds"""
    rng = ctx.rng
    if kind == "tiny":      # both directions (almost) instantaneous, or one of them and an ordinary one now and then
        f, r = rng.choice(TINY), rng.choice(TINY)
        if rng.random() < 0.15:
            f, r = rng.choice([(f, rng.choice(LAT)), (rng.choice(LAT), r)])
        return f, r, rng.choice(RTT0)
    for _ in range(100):
        f, r, t0 = rng.choice(LAT), rng.choice(LAT), rng.choice(RTT0)
        rtt = f[0] / f[1] + r[0] / r[1]
        slow = 2 * t0[0] / t0[1] > rtt
        if kind is None or (kind == "slow") == slow:
            return f, r, t0
    return [1, 8], [1, 8], [1, 1]


def loop_scenario(ctx, n, dd, ad, cc=None, kind=None):
    rng = ctx.rng
    f, r, t0 = timing(ctx, kind)
    sc = {"part": "loop", "cc": cc or rng.choice(["reno", "cubic"]), "n": n, "dd": sorted(dd), "ad": sorted(ad),
          "fwd": f, "rev": r, "rtt0": t0, "start": rng.choice([[0, 1], [0, 1], [1, 2], [3, 1]]),
          "fid": rng.choice([0, 1, 5]), "until": 1000000}
    x = rng.random()
    if x < 0.12:
        sc["path"] = "direct"        # gen.out = sink; sink.out = gen: every hand-over happens inside the other side's call
    elif x < 0.30:
        sc["path"] = "jitter"        # every packet has its own delay: data and ACKs overtake each other
        sc["fj"] = [rng.choice(LAT + TINY) for _ in range(rng.randint(2, 7))]
        sc["rj"] = [rng.choice(LAT + TINY) for _ in range(rng.randint(2, 7))]
    if rng.random() < 0.1:
        sc["finish"] = "none"
    elif rng.random() < 0.12 and sc.get("path") != "direct":
        # an unbounded source that stops at an instant: everything sent before it must still get through
        sc["finish_at"] = rng.choice([[1, 2], [1, 1], [3, 2], [2, 1]])
        sc.pop("path", None); sc.pop("fj", None); sc.pop("rj", None)
        sc["fwd"], sc["rev"] = rng.choice(LAT), rng.choice(LAT)      # a positive round-trip time: an unbounded source never ends an instant otherwise
        sc["dd"] = sorted(set(sc["dd"]) | {rng.randint(1, 12) for _ in range(rng.choice([0, 1, 2]))})
    return sc


def outage_scenario(ctx):
    """A long outage: seventeen consecutive data transmissions are lost (the timer of one segment backs off sixteen times,
    up to 2**17 s); everything must still get through in the end."""
    rng = ctx.rng
    n = rng.choice([2, 3, 4])
    k = rng.randint(1, n)
    sc = loop_scenario(ctx, n, list(range(k, k + 17)), [], cc=rng.choice(["reno", "cubic"]), kind="slow")
    for key in ("path", "fj", "rj", "finish", "finish_at"):
        sc.pop(key, None)
    sc["fwd"], sc["rev"] = rng.choice(LAT), rng.choice(LAT)
    sc["cap"] = 400
    sc["rtt0"] = rng.choice([[1, 4], [1, 2], [1, 1]])        # first RTO at most 2 s: seventeen doublings stay below the horizon
    sc["until"] = 3000000
    return sc


def patterns(maxidx, maxd, maxa):
    idx = range(1, maxidx + 1)
    ds = [c for k in range(maxd + 1) for c in itertools.combinations(idx, k)]
    as_ = [c for k in range(maxa + 1) for c in itertools.combinations(idx, k)]
    return [(d, a) for d in ds for a in as_]


def random_pattern(ctx, maxidx, maxd, maxa):
    rng = ctx.rng
    dd = rng.sample(range(1, maxidx + 1), rng.randint(0, maxd))
    ad = rng.sample(range(1, maxidx + 1), rng.randint(0, maxa))
    return dd, ad


# ------------------------------------------------------------------------------------------- classification
def classify_sink(sc):
    kinds = set()
    seen = []
    top = 0
    for k, s in sc["arr"]:
        if any(k < b and a < k + s for a, b in seen):
            kinds.add("sink_duplicate" if [k, k + s] in [list(x) for x in seen] else "sink_overlap")
        if k > top:
            kinds.add("sink_gap")
        if seen and k + s <= max(a for a, _ in seen):
            kinds.add("sink_reordered")
        if not seen and k > 0:
            kinds.add("sink_first_missing")
        seen.append((k, k + s))
        top = max(top, k + s)
    return kinds


def classify_loop(tr, sc=None):
    kinds = set()
    ev = tr["ev"]
    cfg = tr["cfg"]
    mss = cfg["mss"] or 1
    if cfg["timely"]:
        kinds.add("loop_lossfree_rtt_below_rto")
    if sc is not None:
        tiny = [d for d in (sc["fwd"], sc["rev"]) if d[0] * 1000 < d[1]]
        if tiny:
            kinds.add("loop_zero_delay" if any(d[0] == 0 for d in tiny) else "loop_microsecond_delay")
        if sc["n"] >= 12 and any(e["e"] == "T" and e["ctx"] == 1 for e in ev):
            kinds.add("loop_long_flow_after_fast_retransmit_" + sc["cc"])
    la = 0
    for e in ev:
        if e["e"] == "T":
            if e["dr"] == 1:
                kinds.add("loop_data_dropped")
            if e["re"] == 1 and e["ctx"] == 0:
                kinds.add("loop_timer_retransmission")
                if not cfg["dd"] and not cfg["ad"]:
                    kinds.add("loop_spurious_timeout")
            if e["ctx"] == 1:
                kinds.add("loop_fast_retransmission")
        elif e["e"] == "S" and e["dr"] == 1:
            kinds.add("loop_ack_dropped")
        elif e["e"] == "C":
            if e["ack"] == la:
                kinds.add("loop_duplicate_ack")
                if e["la"] == e["ns"]:
                    kinds.add("loop_duplicate_ack_nothing_outstanding")
            elif e["ack"] > la + mss:
                kinds.add("loop_cumulative_ack_jump")
            la = e["la"]
    return kinds


def describe(tr, pos):
    ev = tr["ev"]
    at = ev[pos - 1] if 0 < pos <= len(ev) else None
    short = {k: v for k, v in (at or {}).items() if v not in (-1, "")}
    return at, short


def sig_of(part, at, tr):
    if at is None:
        return part + ": trace ended early"
    if any(e["e"] == "X" for e in tr["ev"]):
        x = [e for e in tr["ev"] if e["e"] == "X"][0]
        return "%s: exception %s" % (part, x["type"])
    if part == "sink":
        return "sink: ACK number is not the contiguous prefix" if at["e"] == "K" else "sink: stuck at %s" % at["e"]
    if at["e"] == "T":
        return "loop: unexpected %s" % ("retransmission (timer)" if at["re"] == 1 and at["ctx"] == 0 else
                                        "retransmission (inside put)" if at["ctx"] == 1 else "transmission")
    if at["e"] == "S":
        return "loop: sink answer (ACK number / count) not as specified"
    if at["e"] == "C":
        return "loop: sender state after an ACK not as specified"
    if at["e"] == "Q":
        return "loop: run ended without everything delivered and acknowledged"
    return "loop: stuck at %s" % at["e"]


# ------------------------------------------------------------------------------------------- the check
def model_check(ctx):
    big = not ctx.quick
    r1 = ctx.mc("TcpSinkMC", "TcpSinkMC_unit.cfg", "tcp", required_actions=SINK_ACTS, label="TcpSinkMC/unit",
                workers=WORKERS, timeout=1200)
    r2 = ctx.mc("TcpSinkMC", "TcpSinkMC_mixed.cfg", "tcp", required_actions=SINK_ACTS, label="TcpSinkMC/mixed",
                workers=WORKERS, timeout=1200)
    safe = open(tlc.SPEC + "/tcp/TcpLoopMC_safe.cfg").read()
    live = open(tlc.SPEC + "/tcp/TcpLoopMC_live.cfg").read()
    timely = open(tlc.SPEC + "/tcp/TcpLoopMC_timely.cfg").read()
    if big:
        safe = sub(safe, DropIdx="{1, 2, 3, 4, 5, 6, 7, 8}", Win=3)
        live = sub(live, NSegs="{2, 3, 4}", DropIdx="{1, 2, 3, 4, 5, 6}")
        timely = sub(timely, NSegs="{2, 3, 4, 5, 6, 7}", QMax=7, Win=7)
    r3 = ctx.mc("TcpLoopMC", safe, "tcp", required_actions=LOOP_ACTS, label="TcpLoopMC/safe", workers=WORKERS, timeout=1500)
    ctx.mc("TcpLoopMC", live, "tcp", required_actions=LOOP_ACTS, label="TcpLoopMC/live(Delivers)", workers=WORKERS,
           timeout=1500)
    ctx.mc("TcpLoopMC", timely, "tcp", required_actions=("EnvSend", "EnvRecv", "EnvAck"),
           label="TcpLoopMC/timely(NoSpuriousRetx)", workers=WORKERS, timeout=600)
    # paths that reorder data and acknowledgements (an old ACK overtaken by a newer one never moves the mark back)
    reorder = sub(open(tlc.SPEC + "/tcp/TcpLoopMC_safe.cfg").read(), Fifos="{0}").replace("CONSTRAINT Emit\n", "")
    if big:
        reorder = sub(reorder, Win=3)
    ctx.mc("TcpLoopMC", reorder, "tcp", required_actions=LOOP_ACTS, label="TcpLoopMC/safe, reordering paths", workers=WORKERS,
           timeout=1500)
    # (No liveness run for reordering paths: weak fairness of "some packet in flight arrives" does not give every packet
    #  its finite delay -- a bag of packets fed by retransmissions can starve one of them -- and TLC has no fairness per
    #  element of a growing bag.  On the implementation side every jitter-path run must end with everything delivered.)
    # NoCrash is not vacuous: with the ACK handling of finding F14 TLC itself finds the history that raises
    rd = tlc.run("TcpLoopMC", "TcpLoopMC_dev.cfg", tlc.SPEC + "/tcp", workers=min(WORKERS, 4), timeout=600, coverage=False)
    if rd.violated != "NoCrash":
        raise core.Machinery("vacuity: TcpLoopMC with the F14 deviation does not violate NoCrash (%s)" % rd.violated)
    ctx.extra["nocrash_vacuity_run"] = {"spec": "TcpLoopMC/dev (DevF14 = TRUE)", "violated": "NoCrash",
                                        "counterexample_length": sum(1 for x in rd.trace if x.startswith("State "))}
    arrs = []
    seen = set()
    for r in (r1, r2):
        for w in r.emitted():
            k = json.dumps(w["arr"])
            if k not in seen:
                seen.add(k)
                arrs.append(w["arr"])
    pats = []
    seen = set()
    for w in r3.emitted():
        k = json.dumps(w, sort_keys=True)
        if k not in seen:
            seen.add(k)
            pats.append(w)
    if not arrs or not pats:
        raise core.Machinery("the model-checking runs emitted no scenario")
    ctx.extra["sink_sequences_emitted_by_tlc"] = len(arrs)
    ctx.extra["drop_patterns_emitted_by_tlc"] = len(pats)
    arrs.sort(key=json.dumps)
    pats.sort(key=lambda w: json.dumps(w, sort_keys=True))
    return arrs, pats


def build(ctx, arrs, pats):
    rng = ctx.rng
    q = ctx.quick
    scs = []
    rng.shuffle(arrs)
    for a in arrs[:2500 if q else len(arrs)]:
        scs.append(sink_scenario(ctx, a))
    for _ in range(800 if q else 20000):
        scs.append(sink_scenario(ctx, random_arrivals(ctx)))
    # every pattern of <= 2 data and <= 2 ACK drops among the first 8 transmissions
    for dd, ad in patterns(8, 2, 2):
        if q:
            for cc in ("reno", "cubic"):
                scs.append(loop_scenario(ctx, rng.choice([2, 3, 4]), dd, ad, cc, rng.choice([None, None, None, "tiny"])))
        else:
            for cc in ("reno", "cubic"):
                for n in (2, 3, 4, 6):
                    for kind in ("slow", "fast", "tiny"):
                        scs.append(loop_scenario(ctx, n, dd, ad, cc, kind))
    rng.shuffle(pats)
    for w in pats[:500 if q else len(pats)]:
        scs.append(loop_scenario(ctx, w["n"], w["dd"], w["ad"]))
    # larger random patterns and flows
    for _ in range(500 if q else 20000):
        dd, ad = random_pattern(ctx, 12 if q else 16, 3, 3)
        scs.append(loop_scenario(ctx, rng.randint(1, 10), dd, ad, kind=rng.choice([None, None, None, "tiny"])))
    # long outages: one segment is lost seventeen times in a row
    for _ in range(20 if q else 300):
        scs.append(outage_scenario(ctx))
    # the loss-free class, RTT below and not below the RTO
    for _ in range(150 if q else 3000):
        scs.append(loop_scenario(ctx, rng.randint(1, 12), [], [], kind=rng.choice(["slow", "slow", "fast", "tiny"])))
    # longer flows with an early data loss while at least four segments are in flight: the loss is repaired by fast
    # retransmit and the sender goes on in congestion avoidance (cwnd above ssthresh) -- Reno and CUBIC alike, mostly
    # over paths with zero / microsecond delays, sometimes with a second loss or a lost ACK later on
    for i in range(200 if q else 3000):
        n = rng.randint(12, 32 if q else 48)
        dd = [rng.randint(4, 12)]
        if rng.random() < 0.3:
            dd.append(rng.randint(13, 24))
        ad = [rng.randint(3, 30)] if rng.random() < 0.2 else []
        scs.append(loop_scenario(ctx, n, dd, ad, ("reno", "cubic")[i % 2], "tiny" if i % 4 else None))
    # long loss-free flows
    for i in range(20 if q else 400):
        scs.append(loop_scenario(ctx, rng.randint(16, 40 if q else 96), [], [], ("reno", "cubic")[i % 2],
                                 rng.choice(["slow", "tiny"])))
    return scs


def run(ctx, replay=None):
    if replay:
        scs = [json.load(open(replay))["scenario"]]
    else:
        arrs, pats = model_check(ctx)
        scs = build(ctx, arrs, pats)
    sink_i = [i for i, s in enumerate(scs) if s["part"] == "sink"]
    loop_i = [i for i, s in enumerate(scs) if s["part"] == "loop"]
    results = {}
    for part, idx, drv, mod in (("sink", sink_i, "tcpsink", "TcpSinkTrace"), ("loop", loop_i, "tcploop", "TcpLoopTrace")):
        if not idx:
            continue
        res = ctx.drive(drv, [scs[i] for i in idx], procs=12)
        flat = [{"cfg": r.get("cfg", {}), "ev": r["ev"]} for r in res]
        # shards of about 60 000 events (400 ordinary traces; fewer when a broken sender produces traces up to the cap)
        avg = max(1, sum(len(t["ev"]) for t in flat) // len(flat))
        stuck = ctx.validate(mod, mod + ".cfg", "tcp", flat, shard=max(25, min(400, 60000 // avg)), workers=12)
        for j, i in enumerate(idx):
            results[i] = (res[j], stuck.get(j))
    distinct = set()
    for i, sc in enumerate(scs):
        key = json.dumps(sc, sort_keys=True)
        if key in distinct:
            continue
        distinct.add(key)
        res, pos = results[i]
        part = sc["part"]
        if pos is not None:
            at, short = describe(res, pos)
            ctx.violation(part + "_trace", sc, res, "%s trace rejected at event %d: %s" % (part, pos, json.dumps(short)),
                          sig=sig_of(part, at, res))
            continue
        kinds = classify_sink(sc) if part == "sink" else classify_loop(res, sc)
        for k in kinds:
            ctx.count(k)
        if i % 1999 == 0 or (part == "loop" and "loop_fast_retransmission" in kinds and len(ctx.samples) < 3):
            ctx.sample({"scenario": sc, "trace_events": [{k: v for k, v in e.items() if v not in (-1, "")}
                                                         for e in res["ev"][:16]]}, limit=5)
    ctx.extra["distinct_scenarios"] = len(distinct)
    return ctx.finish(RULE, assumptions=[
        "the loop specification is untimed: a pending retransmission timer may expire at any point, so timer values, RTO "
        "doubling and the congestion window are not bound here (C17); traces are validated by the order of events only",
        "retransmission is specified for unacknowledged segments only: once a cumulative ACK covers a segment the sender "
        "neither times it out nor fast-retransmits it, and after the last byte is acknowledged it is silent",
        "a fast retransmission (a transmission from inside put()) is accepted on any duplicate ACK while the first "
        "unacknowledged segment is outstanding; which duplicate triggers it is C17's clause",
        "paths are FIFO with constant one-way delays (the real Wire, property C10); drops are applied by taps by "
        "transmission number, so 'finitely many drops' is a finite scripted set",
        "the loss-free RTT < RTO class is recognised by the driver: nothing scripted to be dropped and the sender's public "
        "rto strictly above fwd + rev at every recorded event; for that class the specification enables no timer expiry",
        "MSS is the sender's fixed 512 bytes; flow sizes are multiples of it; sink scenarios scale segments by 1, 100, "
        "512 or 1460 bytes per unit"])


if __name__ == "__main__":
    core.main(run, "C16")
