"""C06 -- Resource / PriorityResource / PreemptiveResource: SimKernel.tla (resource section) vs onl.sim.resources."""
from ..vlib import core
from . import kernlib, reslib

RULE = ("every history TLC enumerates within the bounds (processes x ops over request(priority, preempt) / release / cancel / with-exit / "
        "sleep / yield on resources of capacity 1-2) is executed on the real classes, driven step by step, and the log (grant instants, "
        "Interrupt(Preempted) causes, users/queue after every kernel step) compared with the specification's; plus generated longer "
        "histories (2-5 processes, capacity 1-3) validated by TLC. non-trivial = history with a preemption, a queue behind users, a "
        "cancel, a with-exit, several releases or a same-instant coincidence")
INV = ("Capacity", "NoIdleSlot", "QueueSorted", "GrantOrder", "PreemptRule")


def run(ctx, replay=None):
    if replay:
        return kernlib.replay(ctx, replay)
    q = ctx.quick
    runs = [({}, "preempt1 2x3"),
            ({'ResName = "preempt1"': 'ResName = "res1"', "Prios = {0, 1}": "Prios = {0}"}, "res1 2x3")]
    if not q:
        runs += [({'ResName = "preempt1"': 'ResName = "prio1"', "NProc = 2": "NProc = 3", "MaxOps = 3": "MaxOps = 2", "MaxEv = 12": "MaxEv = 15"}, "prio1 3x2"),
                 ({'ResName = "preempt1"': 'ResName = "preempt2"', "NProc = 2": "NProc = 3", "MaxOps = 3": "MaxOps = 2", "MaxEv = 12": "MaxEv = 15"}, "preempt2 3x2"),
                 ({'ResName = "preempt1"': 'ResName = "res2"', "Prios = {0, 1}": "Prios = {0}", "NProc = 2": "NProc = 3", "MaxOps = 3": "MaxOps = 2", "MaxEv = 12": "MaxEv = 15"}, "res2 3x2"),
                 ({"Delays = {1}": "Delays = {0, 1}"}, "preempt1 2x3 delays 0,1")]
    kernlib.mc_replay_many(ctx, [{"cfgname": "ResMC_c06.cfg", "over": over, "label": "ResMC/" + label} for over, label in runs],
                           parallel=3, module="ResMC", limit=15000 if q else 150000)
    reslib.gen_histories(ctx, 1200 if q else 20000, "res", "generated-resources")
    return ctx.finish(RULE, assumptions=["each process holds or awaits at most one request per resource and leaves its with-block before ending (the property's quantifier)"])


if __name__ == "__main__":
    core.main(run, "C06")
