"""C12 -- all six schedulers against Sched.tla with the policy-agnostic selection rule ("ANY")."""
import json
from ..vlib import core
from . import schedlib

RULE = ("seeded random lattice workloads (and workloads emitted by the exhaustive SchedMC runs) replayed on each of the six real "
        "schedulers and validated against Sched.tla with policy ANY; non-trivial = scenario contains a same-instant burst, an "
        "arrival exactly at a transmission end, a backlog of >= 3, an idle gap, flows sharing a class or a monitor sample "
        "taken during a transmission; distinct = distinct scenario JSON")


def run(ctx, replay=None):
    if replay:
        scs = [json.load(open(replay))["scenario"]]
    else:
        n = 500 if ctx.quick else 8000
        scs = []
        big = {"MaxPk = 3": "MaxPk = 4", "MaxT = 2": "MaxT = 3"}
        em = schedlib.mc(ctx, "ANY", thorough_over=big)
        # the policy-agnostic workloads are replayed on every scheduler kind
        for kind in schedlib.KINDS:
            ems = [w for w in em]
            if kind == "WFQ":      # WFQ needs its own lattice (sizes and instants multiples of lcm(1..sum w))
                ems = [{"cfg": dict(w["cfg"], unit=2), "arr": [{"t": a["t"] * 2, "f": a["f"], "sz": a["sz"] * 2} for a in w["arr"]]} for w in em]
            if kind == "DRR":
                ems = [{"cfg": dict(w["cfg"], unit=3), "arr": w["arr"]} for w in em]
            scs += schedlib.emitted_scenarios(ctx, ems, kind, "ANY", "", 150 if ctx.quick else 3000)
        for kind in schedlib.KINDS:
            for _ in range(n):
                scs.append(schedlib.random_scenario(ctx.rng, kind, policy="ANY", bind=""))
    traces = ctx.drive("sched", scs, procs=12)
    schedlib.validate_and_report(ctx, scs, traces, "sched_core")
    return ctx.finish(RULE, assumptions=["integer time/size lattice (rate = 8/K bit/s)"])


if __name__ == "__main__":
    core.main(run, "C12")
