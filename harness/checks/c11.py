"""C11 -- TokenBucket / TwoRateTokenBucket against spec/net/TokenBucket.tla and spec/net/TwoRateTB.tla."""
import json
from concurrent.futures import ThreadPoolExecutor
from math import gcd
from ..vlib import core

RULE = ("workloads emitted by the exhaustive TLC runs of TokenBucketMC and TwoRateTBMC (every arrival pattern within "
        "the bounds) plus seeded random larger lattice workloads, each replayed on the real TokenBucket / "
        "TwoRateTokenBucket; a scenario is non-trivial when it contains a packet that had to wait for tokens, a "
        "packet larger than the bucket, an idle period long enough to refill the bucket to its cap, a same-instant "
        "burst, an arrival exactly at a release instant, a peak-rate spacing, or (two-rate) a yellow / red packet or a "
        "packet meeting an exactly empty peak bucket; distinct = distinct (kind, cfg, workload, injector style) tuples")

SRC = [0, 1, 1, 2]


def lcm(a, b):
    return a * b // gcd(a, b)


def decorate(ctx, kind, w):
    rng = ctx.rng
    cfg = {k: v for k, v in w["cfg"].items() if k != "u"}
    style = rng.choice(["mixed", "mixed", "single", "chain"])
    arr = []
    for a in w["arr"]:
        src = 0 if style == "single" else 1 if style == "chain" else rng.choice(SRC)
        arr.append({"t": a["t"], "sz": a["sz"], "src": src})
    if kind == "trtb" and rng.random() < 0.25:
        # packets that arrive already coloured by an upstream meter: this meter's colour depends on its buckets only
        for a in arr:
            a["pre"] = rng.choice(["", "green", "yellow", "red", "red"])
    sc = {"kind": kind, "cfg": cfg, "arr": arr}
    if rng.random() < 0.15:
        sc["t0"] = rng.choice([-50, -7, -1, 3, 100])      # the environment's clock does not start at 0
    if kind == "trtb" and not cfg.get("PIR"):
        # a peak burst size without a peak rate is still "no PIR given": the committed bucket alone shapes
        if w.get("idle_pbs") or rng.random() < 0.3:
            sc["idle_pbs"] = w.get("idle_pbs") or rng.choice([1, 2, 3, 6, 9, 30]) * max(1, cfg["CIR"])
    return sc


def random_tb(ctx):
    rng = ctx.rng
    R = rng.choice([1, 1, 2, 3, 4])
    P = rng.choice([0, 0, 1, 2, 4, 5])
    u = lcm(R, P or 1)
    B = u * rng.choice([1, 2, 3, 4, 6, 9])
    n = rng.randint(2, 12)
    # instants on the lattice of whole waits (u/R and u/P ticks are integers): any integer instant is fine
    step = rng.choice([1, 1, u // R, u])
    t = 0
    arr = []
    for _ in range(n):
        t += step * rng.choice([0, 0, 0, 1, 1, 2, 3, 5, 8, 20, 60])
        arr.append({"t": t, "sz": u * rng.choice([1, 1, 2, 3, 4, 5, 7, 12])})
    return {"cfg": {"R": R, "B": B, "P": P}, "arr": arr}


def random_trtb(ctx):
    rng = ctx.rng
    cir = rng.choice([1, 1, 2, 3])
    if rng.random() < 0.7:
        pir = rng.choice([1, 2, 2, 3, 4, 6])
        u = pir
        pbs = u * rng.choice([1, 2, 3, 4, 6, 9])
        cbs = rng.choice([1, 2, 3, 4, 5, 6, 8, 12, 20])
        shape = pir
    else:
        pir = 0
        pbs = 0
        u = cir
        cbs = u * rng.choice([1, 2, 3, 4, 6, 9])
        shape = cir
    n = rng.randint(2, 12)
    step = rng.choice([1, 1, u // shape, u])
    t = 0
    arr = []
    for _ in range(n):
        t += step * rng.choice([0, 0, 0, 1, 1, 2, 3, 5, 8, 20, 60])
        arr.append({"t": t, "sz": u * rng.choice([1, 1, 2, 3, 4, 5, 7, 12])})
    sc = {"cfg": {"CIR": cir, "CBS": cbs, "PIR": pir, "PBS": pbs}, "arr": arr}
    if not pir and rng.random() < 0.4:
        sc["idle_pbs"] = u * rng.choice([1, 2, 3, 6, 9, 30])     # pbs without pir: still "no PIR is given"
    return sc


def coincide(ctx, sc, tr):
    """A variant of a replayed scenario in which later arrivals are moved onto observed release instants."""
    rng = ctx.rng
    deps = sorted({e["t"] for e in tr["ev"] if e["e"] == "D" and e["t"] > 0})
    if not deps or len(sc["arr"]) < 2:
        return None
    arr = [dict(a) for a in sc["arr"]]
    k = rng.randrange(1, len(arr))
    shift = rng.choice(deps) - arr[k]["t"]
    for a in arr[k:]:
        a["t"] += shift
    if arr[k]["t"] < arr[k - 1]["t"]:
        return None
    for a in arr[k:]:
        a["src"] = rng.choice(SRC)
    return dict({"kind": sc["kind"], "cfg": sc["cfg"], "arr": arr}, **{k: sc[k] for k in ("idle_pbs", "t0") if sc.get(k)})


def classify(ctx, sc, tr):
    ev = tr["ev"]
    cfg = sc["cfg"]
    kinds = set()
    arr_t = {}
    dep_t = sorted({e["t"] for e in ev if e["e"] == "D"})
    tb = sc["kind"] == "tb"
    bsize = cfg["B"] if tb else (cfg["PBS"] if cfg["PIR"] else cfg["CBS"])
    brate = cfg["R"] if tb else (cfg["PIR"] or cfg["CIR"])
    last_d = None
    for i, e in enumerate(ev):
        if e["e"] == "A":
            arr_t[e["id"]] = e["t"]
            if i and ev[i - 1]["e"] == "A" and ev[i - 1]["t"] == e["t"]:
                kinds.add("burst")
            if e["t"] in dep_t:
                kinds.add("arrival_at_release_instant")
            if e["sz"] > bsize:
                kinds.add("packet_larger_than_bucket")
        if e["e"] == "D":
            head = max(arr_t.get(e["id"], 0), last_d if last_d is not None else 0)
            spacing = (e["sz"] // cfg["P"]) if tb and cfg["P"] else 0
            if e["t"] - spacing > head:
                kinds.add("waited_for_tokens")
                if sc.get("idle_pbs"):
                    kinds.add("waited_for_committed_tokens_with_pbs_but_no_pir")
            if spacing:
                kinds.add("peak_spacing")
            if last_d is not None and arr_t.get(e["id"], 0) - last_d >= (bsize + brate - 1) // brate:
                kinds.add("idle_refill_to_cap")
            if not tb:
                if e["col"] in ("yellow", "red"):
                    kinds.add(e["col"] + "_packet")
                if e["col"] == "green" and any(o["e"] == "D" and o["col"] != "green" for o in ev[:i]):
                    kinds.add("green_after_yellow_or_red")
                if cfg["PIR"] and e["pl"] == 0 and arr_t.get(e["id"] + 1, e["t"] + 1) <= e["t"]:
                    kinds.add("next_packet_meets_empty_peak_bucket")
            last_d = e["t"]
    for k in kinds:
        ctx.count(("tb:" if tb else "trtb:") + k)
    return kinds


TB_ACTS = ("EnvArrive", "EnvTick", "DoTake", "DoDebitAtOnce", "DoDebitAfterWait", "DoRelease")
MC = (("TokenBucketMC", "TokenBucketMC_plain.cfg", "tb", TB_ACTS),
      ("TokenBucketMC", "TokenBucketMC_peak.cfg", "tb", TB_ACTS),
      ("TwoRateTBMC", "TwoRateTBMC_pir.cfg", "trtb",
       ("EnvArrive", "EnvTick", "DoTake", "DoDepartGreen", "DoDepartYellow", "DoDepartRed")),
      ("TwoRateTBMC", "TwoRateTBMC_cir.cfg", "trtb", ("EnvArrive", "EnvTick", "DoTake", "DoDepartGreen", "DoDepartYellow")))

def mc_all(ctx):
    """The exhaustive runs are independent: run them side by side, each accounted for in a private context, and
    merge the accounts afterwards (Ctx.mc is not meant to be called from several threads).  The private contexts
    are created before any violation is recorded (creating a Ctx clears the property's old replay files).
    Thorough tier: one more packet (4) everywhere; the two-rate PIR model, whose state space is multiplied by the
    free committed level, runs once with 4 packets / 3 sizes / 2 configurations and once with 3 packets / 4 sizes /
    5 configurations."""
    jobs = []
    for mod, cfgfile, kind, acts in MC:
        cfg = open(core.tlc.SPEC + "/net/" + cfgfile).read()
        label = mod + "/" + cfgfile[len(mod) + 1:-4]
        if ctx.quick:
            jobs.append((mod, cfg, label, acts, {"workers": 4}))
        elif label.endswith("/pir"):
            # invariants only: its workloads (millions of duplicates differing in the committed level) are not emitted
            jobs.append((mod, cfg.replace("MaxPk = 3", "MaxPk = 4").replace("Sizes = {1, 2, 3, 5}", "Sizes = {1, 2, 5}")
                         .replace("CONSTRAINT Emit\n", ""), label + " 4 packets", acts, {"workers": 8}))
            jobs.append((mod, cfg.replace('Tier = "pir"', 'Tier = "pir+"'), label + "+ 3 packets", acts, {"workers": 8}))
        else:
            jobs.append((mod, cfg.replace("MaxPk = 3", "MaxPk = 4"), label + " 4 packets", acts, {"workers": 8}))

    def one(job):
        mod, cfg, label, acts, kw = job
        sub = core.Ctx(ctx.pid, ctx.tier, ctx.seed)
        r = sub.mc(mod, cfg, "net", required_actions=acts, label=label, timeout=3000, **kw)
        return sub, r

    with ThreadPoolExecutor(max_workers=4 if ctx.quick else 3) as ex:
        done = list(ex.map(one, jobs))
    for sub, r in done:
        ctx.states += sub.states
        ctx.transitions += sub.transitions
        ctx.exhaustive = ctx.exhaustive and sub.exhaustive
        ctx.notes += sub.notes
        ctx.mc_runs += sub.mc_runs
        for a, (d, t) in sub.actions.items():
            od, ot = ctx.actions.get(a, (0, 0))
            ctx.actions[a] = (od + d, ot + t)
    return [(job[0], r) for job, (_, r) in zip(jobs, done)]


TRACE = {"tb": "TokenBucketTrace", "trtb": "TwoRateTBTrace"}


def run(ctx, replay=None):
    if replay:
        obj = json.load(open(replay))
        scs = [obj["scenario"]]
    else:
        emitted = {"tb": [], "trtb": []}
        seen = set()
        for mod, r in mc_all(ctx):
            kind = "tb" if mod == "TokenBucketMC" else "trtb"
            for w in r.emitted():
                k = kind + json.dumps(w, sort_keys=True)
                if k not in seen:
                    seen.add(k)
                    emitted[kind].append(w)
        ctx.extra["workloads_emitted_by_tlc"] = {k: len(v) for k, v in emitted.items()}
        n_emit = 1500 if ctx.quick else 40000
        n_rand = 1200 if ctx.quick else 30000
        scs = []
        for kind in ("tb", "trtb"):
            ws = emitted[kind]
            ws.sort(key=lambda w: json.dumps(w, sort_keys=True))
            ctx.rng.shuffle(ws)
            scs += [decorate(ctx, kind, w) for w in ws[:n_emit]]
            gen = random_tb if kind == "tb" else random_trtb
            scs += [decorate(ctx, kind, gen(ctx)) for _ in range(n_rand)]
    traces = ctx.drive("tokenbucket", scs, procs=12)
    if not replay:
        # second pass: move arrivals onto release instants observed in the first pass
        extra = []
        for sc, tr in zip(scs, traces):
            if ctx.rng.random() < 0.35:
                v = coincide(ctx, sc, tr)
                if v:
                    extra.append(v)
        if extra:
            traces += ctx.drive("tokenbucket", extra, procs=12)
            scs += extra
    stuck = {}
    for kind in ("tb", "trtb"):
        idx = [i for i, sc in enumerate(scs) if sc["kind"] == kind]
        if not idx:
            continue
        st = ctx.validate(TRACE[kind], TRACE[kind] + ".cfg", "net", [traces[i] for i in idx], shard=400)
        for k, pos in st.items():
            stuck[idx[k]] = pos
    distinct = set()
    for i, (sc, tr) in enumerate(zip(scs, traces)):
        key = json.dumps(sc, sort_keys=True)
        if key in distinct:
            continue
        distinct.add(key)
        if i in stuck:
            pos = stuck[i]
            ev = tr["ev"]
            at = ev[pos - 1] if pos - 1 < len(ev) else None
            what = "end" if at is None else at["e"] + (":" + at["type"] if at["e"] == "X" else "")
            ctx.violation(sc["kind"] + "_trace", sc, tr, "trace rejected at event %d: %s" % (pos, json.dumps(at)),
                          sig="%s_trace rejected at %s" % (sc["kind"], what))
        else:
            classify(ctx, sc, tr)
            if i % 997 == 0:
                ctx.sample({"scenario": sc, "trace_events": tr["ev"][:12]})
    ctx.extra["distinct_scenarios"] = len(distinct)
    return ctx.finish(RULE, assumptions=[
        "instants, sizes, bucket sizes and rates on an integer lattice (rate = 8*R bit/s = R bytes per tick; sizes and the "
        "shaping bucket size are multiples of the shaping rate, sizes multiples of the peak rate) so that every wait is a "
        "whole number of ticks; float rounding off the lattice is not decided",
        "current_bucket(_commit/_peak) and update_time are bound through the bucket content they denote at the instant of "
        "the tap, min(size, level + rate*(now - update_time)), not as raw numbers",
        "the property does not say what a yellow or red packet does to the committed bucket: the specification accepts any "
        "reported committed content that was not raised by such a packet; green conformance to (CIR, CBS) is proved for all "
        "these choices by TLC (GreenConformsToCIR)",
        "packets are served one at a time: the next packet is examined when its predecessor has been released (with a peak "
        "rate: after the predecessor's size/peak spacing), which is what makes consecutive departures size/peak apart",
        "PBS >= 1 and CBS >= 1; packet sizes >= 1"])


if __name__ == "__main__":
    core.main(run, "C11")
