"""Shared orchestration of the kernel checks C01-C05 (and reused by C06, C07, C20)."""
import json
import os
from ..vlib import core, tlc

FLOAT = {"delays": [0.0, 0.1, 0.2, 0.3, 0.7, 1.1, 3.7, -1e-16, -2e-13, -0.5], "until_deltas": [0.0, 0.1, 0.25, 0.3, 1.3],
         "until_abs": [0.3, 0.47, 1.7, 2.33, 4.41, 5.55, 7.77, 9.81, 13.51, 0.1, 0.6, 1.9, 3.3, 6.1, 8.2]}
BASE = {"sleep": 0, "timeout": 0, "event": 0, "succeed": 0, "fail": 0, "spawn": 0, "interrupt": 0, "cond": 0,
        "condnoprobe": 0, "yield": 0, "baddelay": 0, "condforeign": 0, "raise": 0, "return": 0.3}


def cfg_text(name, over=None):
    s = open(os.path.join(tlc.SPEC, "kernel", name)).read()
    for a, b in (over or {}).items():
        assert a in s, (name, a)
        s = s.replace(a, b)
    return s


def mc_replay_many(ctx, runs, parallel=4, **common):
    """runs: list of dicts(cfgname, over, label, ...) -- TLC runs concurrently, replays afterwards."""
    jobs = []
    for r in runs:
        module = r.get("module", common.get("module", "KernelMC"))
        jobs.append({"module": module, "cfg": cfg_text(r["cfgname"], r.get("over")), "spec_dir": "kernel",
                     "label": r.get("label") or "%s/%s" % (module, r["cfgname"]), "timeout": r.get("timeout", 3400), "coverage": False})
    results = ctx.mc_many(jobs, parallel=parallel)
    out = []
    for r, res in zip(runs, results):
        kw = dict(common)
        kw.update({k: v for k, v in r.items() if k not in ("cfgname", "over", "label", "timeout")})
        out.append(mc_replay(ctx, r["cfgname"], r.get("over"), label=r.get("label"), _result=res, **kw))
    return out


def mc_replay(ctx, cfgname, over=None, label=None, driver="kernel", module="KernelMC", limit=None,
              required=(), timeout=3400, wrap=None, _result=None, simulate=None, depth=None):
    """Exhaustive run of the kernel spec over all programs within the bounds; every emitted program is executed
    on the real kernel and its log compared with the log the specification predicts (spec -> code)."""
    # -coverage is switched off for the kernel spec: with its large CASE expressions TLC's coverage bookkeeping makes
    # the run orders of magnitude slower; vacuity is judged from the emitted logs instead (classify()).
    extra = {"simulate": simulate, "depth": depth, "seed": ctx.seed + 1} if simulate else {}
    r = _result if _result is not None else ctx.mc(module, cfg_text(cfgname, over), "kernel", required_actions=required,
                                                   label=label or "%s/%s" % (module, cfgname), timeout=timeout, coverage=False, **extra)
    # emitted lines are already de-duplicated; when only a sample is to be replayed, sample the raw lines before decoding
    total_emitted = len(r.prints)
    if limit and total_emitted > limit:
        r.prints.sort()
        ctx.rng.shuffle(r.prints)
        del r.prints[limit:]
        ctx.notes.append("%s: %d of %d emitted programs replayed" % (label or cfgname, limit, total_emitted))
    progs = {}
    for w in r.emitted():
        progs.setdefault(json.dumps(w["script"], sort_keys=True), w)
    r.prints = []
    keys = sorted(progs)
    plist = [progs[k] for k in keys]
    inputs = [{"scripts": p["script"]} for p in plist]
    if wrap:
        inputs = [wrap(x) for x in inputs]
    out = ctx.drive(driver, inputs, procs=12)
    ctx.traces += len(plist)
    ctx.extra["programs_emitted_by_tlc"] = ctx.extra.get("programs_emitted_by_tlc", 0) + total_emitted
    bad = 0
    for p, o in zip(plist, out):
        ctx.events += len(o["log"])
        if o.get("driver_error"):
            raise core.Machinery("kernel driver failed on %s: %s" % (json.dumps(p["script"]), o["driver_error"]))
        if o["log"] == p["log"] and "final" in p and o.get("final") != p["final"]:
            bad += 1
            pos = next((i for i, (a, b) in enumerate(zip(o["final"], p["final"])) if a != b), -1)
            ctx.violation("kernel_replay", {"scripts": p["script"]}, {"code_final": o["final"], "spec_final": p["final"]},
                          "state of event %d after the run differs: code %s / spec %s" % (
                              pos + 1, json.dumps(o["final"][pos]) if 0 <= pos < len(o["final"]) else "?",
                              json.dumps(p["final"][pos]) if 0 <= pos < len(p["final"]) else "?"),
                          sig="replay-final " + cfgname)
        elif o["log"] != p["log"]:
            bad += 1
            pos = next((i for i, (a, b) in enumerate(zip(o["log"], p["log"])) if a != b), min(len(o["log"]), len(p["log"])))
            ctx.violation("kernel_replay", {"scripts": p["script"]}, {"code_log": o["log"], "spec_log": p["log"]},
                          "log differs from the specification's at entry %d: code %s / spec %s" % (
                              pos + 1, json.dumps(o["log"][pos]) if pos < len(o["log"]) else "<end>",
                              json.dumps(p["log"][pos]) if pos < len(p["log"]) else "<end>"),
                          sig="replay " + cfgname)
        else:
            classify(ctx, p["script"], p["log"])
    if plist:
        ctx.sample({"program": plist[0]["script"], "log": plist[0]["log"][:12]})
    return plist, out


def gen_validate(ctx, n, kinds, plan_kinds=None, label="generated", orphan_finding=None, driver="kernel", **gp):
    """Programs drawn on the fly on the real kernel (beyond the exhaustive bounds); the recorded logs are validated
    by TLC against SimKernel (code -> spec)."""
    g0 = {"max_procs": 4, "max_ops": 6, "max_events": 24, "max_plan": 2, "delays": [0, 0, 1, 1, 2, 3], "catch": [0, 1, 1],
          "kinds": dict(BASE, **kinds), "plan_kinds": plan_kinds or {"run": 1}}
    g0.update(gp)
    base = ctx.rng.randrange(1 << 30)
    gens = [{"gen": dict(g0, seed=base + i)} for i in range(n)]
    out = ctx.drive(driver, gens, procs=12)
    for o in out:
        if o.get("driver_error"):
            raise core.Machinery("kernel driver failed on generated program: %s" % o["driver_error"])
    tr = [dict({"scripts": o["scripts"], "log": o["log"], "final": o["final"]}, **({"ftab": o["ftab"], "fl": o["fl"]} if "ftab" in o else {})) for o in out]
    stuck = ctx.validate("KernelTrace", "KernelTrace.cfg", "kernel", tr, shard=150)
    ctx.events += sum(len(t["log"]) for t in tr)
    still = {}
    if stuck and orphan_finding:
        idx = sorted(stuck)
        st2 = ctx.validate("KernelTrace", "KernelTrace_orphan.cfg", "kernel", [tr[i] for i in idx], shard=150)
        ctx.traces -= len(idx)
        for j, i in enumerate(idx):
            if j in st2:
                still[i] = stuck[i]
            else:
                ctx.known(orphan_finding, tr[i])
    else:
        still = stuck
    for i, t in enumerate(tr):
        if i in still:
            pos = still[i]
            ctx.violation("kernel_trace", {"scripts": t["scripts"]}, {"code_log": t["log"]},
                          "recorded log is not a behaviour of SimKernel from entry %d: %s" % (
                              pos, json.dumps(t["log"][pos - 1]) if pos - 1 < len(t["log"]) else "<end of log: the specification expects more>"),
                          sig="trace " + label)
        elif i not in stuck:
            classify(ctx, t["scripts"], t["log"])
    if tr:
        ctx.sample({"program": tr[0]["scripts"], "log": tr[0]["log"][:12]})
    return tr, still


def fixed_programs(ctx, progs, orphan_finding=None, label="fixed"):
    """Hand-written regression programs: executed on the real kernel, validated by TLC (strict, then with the deviation)."""
    out = ctx.drive("kernel", progs, procs=1)
    tr = [{"scripts": p["scripts"], "log": o["log"]} for p, o in zip(progs, out)]
    stuck = ctx.validate("KernelTrace", "KernelTrace.cfg", "kernel", tr, shard=50)
    for i in sorted(stuck):
        ok = False
        if orphan_finding:
            st2 = ctx.validate("KernelTrace", "KernelTrace_orphan.cfg", "kernel", [tr[i]], shard=50)
            ctx.traces -= 1
            ok = not st2
        if ok:
            ctx.known(orphan_finding, tr[i])
        else:
            ctx.violation("kernel_trace", {"scripts": tr[i]["scripts"]}, {"code_log": tr[i]["log"]},
                          "recorded log rejected at entry %d" % stuck[i], sig="trace " + label)
    return tr, stuck


def classify(ctx, scripts, log):
    kinds = set()
    times = {}
    for e in log:
        if e["k"] in ("R", "P"):
            times[e["t"]] = times.get(e["t"], 0) + 1
        if e["k"] == "R" and not e["ok"]:
            kinds.add("interrupt_delivered" if e["v"]["k"] == "intr" else "failure_delivered")
        if e["k"] == "E":
            kinds.add("refused_call")
        if e["k"] == "X":
            kinds.add("run_raised")
        if e["v"]["k"] == "cv":
            kinds.add("condition_value")
        if e["k"] == "T":
            kinds.add("single_step")
    if any(v >= 3 for v in times.values()):
        kinds.add("same_instant_coincidence>=3")
    # a run(until=...) that was ended by an exception, followed by another run that returned normally
    plan = [o["k"] for o in scripts[0]] if scripts else []
    xs = [i for i, e in enumerate(log) if e["k"] == "X" and e["v"]["k"] not in ("ValueError", "EmptySchedule")]
    if xs and ("rununtil" in plan or "runev" in plan) and any(e["k"] == "RET" for e in log[xs[0] + 1:]):
        kinds.add("run_resumed_after_aborted_run")
    ops = [o["k"] for s in scripts for o in s]
    if ops.count("rununtil") + ops.count("runev") + ops.count("step") >= 2:
        kinds.add("split_run")
    for k in kinds:
        ctx.count(k)
    if kinds:
        ctx.count_case()
    return kinds


def replay(ctx, path):
    obj = json.load(open(path))
    sc = obj["scenario"]
    out = ctx.drive("kernel", [{"scripts": sc["scripts"]}], procs=1)
    tr = [{"scripts": sc["scripts"], "log": out[0]["log"]}]
    stuck = ctx.validate("KernelTrace", "KernelTrace.cfg", "kernel", tr, shard=10)
    if stuck:
        ctx.violation("kernel_trace", sc, {"code_log": out[0]["log"]}, "recorded log rejected at entry %d" % stuck[0])
    ctx.sample({"program": sc["scripts"], "log": out[0]["log"][:12]})
    return ctx.finish("replay of one stored scenario")


def agenda_traces(ctx, apps=("basic", "sp", "rr", "drr", "wfq", "token_bucket", "hub", "tcp", "fair_packet_switch")):
    """C01(b): record what every Environment of the repository's own tests and demo programs does with its agenda
    (schedule calls, popped events) and let TLC validate the traces against AgendaTrace.tla."""
    import subprocess, tempfile, shutil, sys
    repo = core.repo_path()
    plug = os.path.join(core.VERIF, "harness", "plugins")
    tmp = tempfile.mkdtemp(prefix="vagenda.")
    traces = []
    names = []
    try:
        env = dict(os.environ, PYTHONPATH=repo + ":" + plug, PYTHONDONTWRITEBYTECODE="1", PYTHONHASHSEED="0")
        env["AGENDA_TRACE_OUT"] = os.path.join(tmp, "tests.json")
        subprocess.run([core.PY, "-B", "-m", "pytest", "-q", "-p", "no:cacheprovider", "-p", "agenda_recorder", "--timeout=300",
                        os.path.join(repo, "tests")], cwd=tmp, env=env, stdout=subprocess.PIPE, stderr=subprocess.STDOUT, timeout=1200)
        if os.path.exists(env["AGENDA_TRACE_OUT"]):
            t = json.load(open(env["AGENDA_TRACE_OUT"]))
            traces += t
            names += ["tests#%d" % i for i in range(len(t))]
        for a in apps:
            path = os.path.join(repo, "tests", "apps", a + ".py")
            if not os.path.exists(path):
                continue
            env["AGENDA_TRACE_OUT"] = os.path.join(tmp, "app_%s.json" % a)
            code = "import agenda_recorder, runpy, sys; sys.argv=[%r]; runpy.run_path(%r, run_name='__main__')" % (a, path)
            try:
                subprocess.run([core.PY, "-B", "-c", code], cwd=tmp, env=env, stdout=subprocess.DEVNULL, stderr=subprocess.DEVNULL, timeout=180)
            except subprocess.TimeoutExpired:
                continue
            if os.path.exists(env["AGENDA_TRACE_OUT"]):
                t = json.load(open(env["AGENDA_TRACE_OUT"]))
                traces += t
                names += ["apps/%s#%d" % (a, i) for i in range(len(t))]
    finally:
        shutil.rmtree(tmp, ignore_errors=True)
    if not traces:
        raise core.Machinery("agenda recorder produced no trace")
    stuck = ctx.validate("AgendaTrace", "AgendaTrace.cfg", "kernel", traces, shard=40)
    for i, pos in sorted(stuck.items()):
        ev = traces[i]["ev"]
        ctx.violation("agenda_trace", {"source": names[i]}, {"ev": ev[max(0, pos - 6):pos + 2]},
                      "agenda trace of %s violates the ordering law at event %d: %s" % (names[i], pos, json.dumps(ev[pos - 1]) if pos - 1 < len(ev) else "<end>"),
                      sig="agenda " + names[i].split("#")[0])
    ctx.count("agenda_traces_of_repository_tests_and_demos", len(traces) - len(stuck))
    ctx.extra["agenda_trace_events"] = sum(len(t["ev"]) for t in traces)
    return traces, stuck
