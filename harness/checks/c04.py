"""C04 -- interrupts: SimKernel.tla vs the real kernel."""
from ..vlib import core
from . import kernlib

RULE = ("every program TLC enumerates within the bounds (processes interrupting each other, victims that ignore, re-wait, wait for something "
        "else, terminate or raise; interrupts of dead processes and of oneself) replayed on the real kernel, logs compared; plus generated "
        "larger programs validated by TLC. non-trivial as in C01")
KINDS = {"sleep": 5, "spawn": 2.5, "interrupt": 4, "yield": 4, "event": 1, "succeed": 1, "raise": 0.7, "return": 0.5}


def run(ctx, replay=None):
    if replay:
        return kernlib.replay(ctx, replay)
    if ctx.quick:
        kernlib.mc_replay(ctx, "KernelMC_c04.cfg", {"MaxEv = 9": "MaxEv = 7"}, label="KernelMC/c04 3x2 ev7")
        kernlib.gen_validate(ctx, 1500, KINDS)
    else:
        kernlib.mc_replay(ctx, "KernelMC_c04.cfg", label="KernelMC/c04 3x2")
        kernlib.mc_replay(ctx, "KernelMC_c04.cfg", {"MaxProc = 3": "MaxProc = 2", "MaxOps = 2": "MaxOps = 3", "MaxEv = 9": "MaxEv = 8"},
                          label="KernelMC/c04 2x3")
        kernlib.gen_validate(ctx, 20000, KINDS)
        kernlib.gen_validate(ctx, 5000, KINDS, max_procs=6, max_ops=8, max_events=40, label="generated-large")
    return ctx.finish(RULE)


if __name__ == "__main__":
    core.main(run, "C04")
