"""C04 -- interrupts: SimKernel.tla vs the real kernel."""
from ..vlib import core
from . import kernlib

RULE = ("every program TLC enumerates within the bounds (processes interrupting each other, victims that ignore, re-wait, wait for something "
        "else, terminate or raise; interrupts of dead processes and of oneself, interrupts issued by plain callbacks of events) replayed on the real kernel, logs compared; plus generated "
        "larger programs validated by TLC. non-trivial as in C01")
KINDS = {"sleep": 5, "spawn": 2.5, "interrupt": 4, "yield": 4, "event": 1, "succeed": 1, "raise": 0.7, "return": 0.5}
# victims waiting on conditions / shared events / resources-free joins: interrupts meeting the other event kinds
MIXED = {"sleep": 4, "timeout": 2, "spawn": 2.5, "interrupt": 4, "yield": 5, "event": 2, "succeed": 2, "fail": 0.7, "cond": 2, "condnoprobe": 3,
         "raise": 0.5, "return": 0.5}


def run(ctx, replay=None):
    if replay:
        return kernlib.replay(ctx, replay)
    if ctx.quick:
        kernlib.mc_replay(ctx, "KernelMC_c04.cfg", {"MaxEv = 9": "MaxEv = 7", '"interrupt", "interruptn"': '"interrupt"'}, label="KernelMC/c04 3x2 ev7")
        # interrupts issued by plain callbacks of events (no process is active while they run)
        kernlib.mc_replay(ctx, "KernelMC_c04.cfg", {"MaxProc = 3": "MaxProc = 2", "MaxOps = 2": "MaxOps = 3", "MaxEv = 9": "MaxEv = 8",
                                                   '"interrupt", "interruptn", "yield", "raise"': '"cbintr", "yield"', "Delays = {0, 1}": "Delays = {1}"},
                          label="KernelMC/c04 2x3 interrupting callbacks", limit=40000)
        kernlib.gen_validate(ctx, 1500, dict(KINDS, cbintr=2))
        kernlib.gen_validate(ctx, 2500, MIXED, label="generated-interrupts-and-conditions", orphan_finding="F19b")
    else:
        kernlib.mc_replay(ctx, "KernelMC_c04.cfg", label="KernelMC/c04 3x2")
        kernlib.mc_replay(ctx, "KernelMC_c04.cfg", {"MaxProc = 3": "MaxProc = 2", "MaxOps = 2": "MaxOps = 3", "MaxEv = 9": "MaxEv = 8"},
                          label="KernelMC/c04 2x3")
        # beyond the exhaustive bound: random deep behaviours of the same specification (TLC -simulate), replayed likewise
        kernlib.mc_replay(ctx, "KernelMC_c04.cfg", {"MaxProc = 3": "MaxProc = 4", "MaxOps = 2": "MaxOps = 4", "MaxEv = 9": "MaxEv = 22"},
                          label="KernelMC/c04 simulate 4 procs x 4-5 ops", simulate=4000, depth=400)
        kernlib.mc_replay(ctx, "KernelMC_c04.cfg", {"MaxProc = 3": "MaxProc = 2", "MaxOps = 2": "MaxOps = 3", "MaxEv = 9": "MaxEv = 9",
                                                   '"interrupt", "interruptn", "yield", "raise"': '"cbintr", "interrupt", "yield"'},
                          label="KernelMC/c04 2x3 interrupting callbacks", limit=300000)
        kernlib.gen_validate(ctx, 20000, dict(KINDS, cbintr=2))
        kernlib.gen_validate(ctx, 5000, KINDS, max_procs=6, max_ops=8, max_events=40, label="generated-large")
        kernlib.gen_validate(ctx, 25000, MIXED, label="generated-interrupts-and-conditions", orphan_finding="F19b")
    return ctx.finish(RULE)


if __name__ == "__main__":
    core.main(run, "C04")
