"""C13 -- real schedulers (SP) against Sched.tla with their own selection policy."""
import json
from ..vlib import core
from . import schedlib

KINDS = "SP".split()
BIND = {"WFQ": "WFQ", "VC": "VC", "DRR": "DRR"}
RULE = ("seeded random lattice workloads (and workloads emitted by the exhaustive SchedMC runs) replayed on the real " + "/".join(KINDS) +
        " and validated against Sched.tla with the scheduler's own policy; non-trivial = scenario with a burst, an arrival at a "
        "transmission end, a backlog >= 3, an idle gap or flows sharing a class; distinct = distinct scenario JSON")


def run(ctx, replay=None):
    if replay:
        scs = [json.load(open(replay))["scenario"]]
    else:
        n = (1500 if ctx.quick else 20000) // len(KINDS)
        scs = []
        big = {"MaxPk = 3": "MaxPk = 4", "MaxT = 2": "MaxT = 3"}
        for kind in KINDS:
            over_q = {"Sizes = {1, 3, 6}": "Sizes = {1, 3}"} if kind == "DRR" else None
            over_t = {"MaxPk = 3": "MaxPk = 4"} if kind == "DRR" else big
            req = schedlib.ACTS + (("DoScan",) if kind in ("WFQ", "DRR", "RR", "WRR") else ())
            em = schedlib.mc(ctx, kind, thorough_over=over_t, quick_over=over_q, required=req)
            scs += schedlib.emitted_scenarios(ctx, em, kind, kind, BIND.get(kind, ""), 400 if ctx.quick else 20000)
        for kind in KINDS:
            for _ in range(n):
                scs.append(schedlib.random_scenario(ctx.rng, kind, policy=kind, bind=BIND.get(kind, ""), mon_p=0.1))
    traces = ctx.drive("sched", scs, procs=12)
    schedlib.validate_and_report(ctx, scs, traces, "sched_policy")
    return ctx.finish(RULE, assumptions=["integer time/size lattice (rate = 8/K bit/s; WFQ sizes and instants multiples of lcm(1..sum of weights))"])


if __name__ == "__main__":
    core.main(run, "C13")
