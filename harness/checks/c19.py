"""C19 -- onl.utils.Timer against spec/misc/Timer.tla."""
import json
import re
from ..vlib import core

RULE = ("call histories emitted by the exhaustive TLC runs of TimerMC (every history of outside / in-callback "
        "stop and restart calls within the bounds) plus seeded random longer histories, each replayed on the real "
        "Timer by harness processes created before and after the timer and by the scripted callback; a scenario is "
        "non-trivial when it contains a call at an expiry instant (before or after the firing), a call from inside "
        "the callback, several calls in one instant, a restart after a stop, a restart of an expired one-shot timer, "
        "or scalar arguments; distinct = distinct scenarios")

WORKERS = 8      # the state graph is a shallow tree; more TLC workers only add contention
RANKS = [("pre", 0), ("post", 0), ("pre", 1), ("post", 1)]   # same-instant order of the harness callers


def decorate(ctx, cfg, calls, inner, H):
    """calls: outside calls in history order with optional 'rel' ('b' must precede a due firing of its instant,
    'a' must follow the firing of its instant, 'n' free)."""
    rng = ctx.rng
    out = []
    prev_t, prev_rank = None, 0
    for c in calls:
        lo = prev_rank if c["t"] == prev_t else 0
        rel = c.get("rel", "n")
        if rel == "b":
            allowed = [0]
        elif rel == "a":
            allowed = [r for r in (2, 3) if r >= lo]
        else:
            allowed = [r for r in (0, 1, 2, 3) if r >= lo]
        r = rng.choice(allowed or [3])
        prev_t, prev_rank = c["t"], r
        out.append({"t": c["t"], "op": c["op"], "tau": c["tau"], "who": RANKS[r][0], "late": RANKS[r][1]})
    kind = rng.choice(["scalar", "scalar", "list", "list", "none"])
    if kind == "scalar":
        vals = [rng.choice([0, 7, 12345])]
    elif kind == "list":
        vals = [rng.choice([0, 1, 7, 99]) for _ in range(rng.choice([0, 1, 1, 2, 2]))]
    else:
        vals = []
    args = {"kind": kind, "vals": vals, "kw": rng.choice([-1, -1, 5])}
    den = rng.choice([1, 1, 2, 4])
    return {"cfg": {"T": cfg["T"], "auto": cfg["auto"]}, "args": args, "den": den, "flt": rng.choice([0, 1]),
            "H": H, "out": out, "inner": inner}


def from_history(ctx, h, horizon):
    hist = h["hist"]
    calls, inner = [], []
    nf = 0
    fired_at = set()
    for e in hist:
        if e["k"] == "F":
            nf += 1
            fired_at.add(e["t"])
        elif e["inn"] == 1:
            inner.append({"k": nf, "op": e["k"], "tau": e["tau"]})
        else:
            rel = "b" if e["pre"] == 1 else ("a" if e["t"] in fired_at else "n")
            calls.append({"t": e["t"], "op": e["k"], "tau": e["tau"], "rel": rel})
    last = max([e["t"] for e in hist] + [h["cfg"]["T"]])
    sc = decorate(ctx, h["cfg"], calls, inner, last + ctx.rng.choice([1, 3, 4, 7]))
    sc["until"] = min(sc["H"], horizon)        # the emitted history is complete up to the model's horizon
    sc["expect"] = [[e["k"], e["t"], e["tau"], e["inn"]] for e in hist if e["t"] <= sc["until"]]
    sc["kinds"] = sorted({"call_preempts_due_firing" for c in calls if c["rel"] == "b"} |
                         {"call_after_firing_same_instant" for c in calls if c["rel"] == "a"})
    return sc


def random_history(ctx):
    rng = ctx.rng
    big = 6 if ctx.quick else 9
    T = rng.randint(1, big)
    auto = rng.choice([0, 1])
    taus = [rng.randint(1, big) for _ in range(3)]
    t = 0
    calls = []
    for _ in range(rng.choice([0, 1, 2, 2, 3, 3, 4, 5, 6, 8])):
        t += rng.choice([0, 0, 0, 1, 1, 2, 3, T, T, taus[0], taus[1]])
        op = rng.choice(["S", "R", "R", "R"])
        calls.append({"t": t, "op": op, "tau": rng.choice(taus) if op == "R" else 0})
    inner = []
    for k in range(1, 6):
        if rng.random() < 0.3:
            for _ in range(rng.choice([1, 1, 2, 3])):
                op = rng.choice(["S", "R", "R", "R", "R"])
                inner.append({"k": k, "op": op, "tau": rng.choice(taus) if op == "R" else 0})
    return decorate(ctx, {"T": T, "auto": auto}, calls, inner, t + rng.choice([1, 2, T, 2 * T + 1, 3 * big]))


def observed(tr, until):
    return [[e["e"], e["t"], e["tau"], e["inn"]] for e in tr["ev"] if e["e"] in ("F", "S", "R") and e["t"] <= until]


def classify(ctx, sc, tr):
    ev = tr["ev"]
    kinds = set()
    if sc.get("expect") is not None and observed(tr, sc["until"]) == sc["expect"]:
        kinds.update(sc.get("kinds", []))
        kinds.add("tlc_history_reproduced_exactly")
    fired = set()
    stopped = False
    nfire = 0
    last_call_t = None
    for e in ev:
        if e["e"] == "F":
            fired.add(e["t"])
            nfire += 1
        elif e["e"] in ("S", "R"):
            if e["inn"]:
                kinds.add("call_from_callback")
            else:
                if e["t"] in fired:
                    kinds.add("outside_call_at_firing_instant_after_firing")
                if last_call_t == e["t"]:
                    kinds.add("several_outside_calls_one_instant")
                last_call_t = e["t"]
            if e["e"] == "R" and stopped:
                kinds.add("restart_after_stop")
            if e["e"] == "R" and not e["inn"] and nfire and not tr["cfg"]["auto"]:
                kinds.add("restart_of_fired_one_shot")
            if e["e"] == "S":
                stopped = True
    if sc["args"]["kind"] == "scalar" and nfire:
        kinds.add("scalar_args_fired")
    for k in kinds:
        ctx.count(k)
    return kinds


def mc_cfgs(ctx):
    """(label, cfg text, horizon, actions that must be covered) of the exhaustive runs of this tier."""
    out_cfg = open(core.tlc.SPEC + "/misc/TimerMC_out.cfg").read()
    in_cfg = open(core.tlc.SPEC + "/misc/TimerMC_in.cfg").read()
    base = ["EnvStop", "EnvRestart", "DoFire", "DoEndCb", "EnvTick"]
    cb = ["CbStop", "CbRestart"]

    def sub(text, **kv):
        for k, v in kv.items():
            text, n = re.subn(r"\b%s = \d+" % k, "%s = %d" % (k, v), text)
            if n != 1:
                raise core.Machinery("constant %s not found in the TimerMC configuration" % k)
        return text

    if ctx.quick:
        runs = [("TimerMC/out", out_cfg, base), ("TimerMC/in", in_cfg, base + cb)]
    else:
        runs = [("TimerMC/out", sub(out_cfg, MaxT=5, Horizon=9), base),
                ("TimerMC/out+in", sub(out_cfg, MaxIn=1, MaxT=3, Horizon=7), base + cb),
                ("TimerMC/in", sub(in_cfg, MaxIn=3, MaxT=4, Horizon=8), base + cb)]
    return [(lab, c, int(re.search(r"Horizon = (\d+)", c).group(1)), acts) for lab, c, acts in runs]


def run(ctx, replay=None):
    if replay:
        obj = json.load(open(replay))
        scs = [obj["scenario"]]
    else:
        seen = set()
        emitted = []
        # unbounded parameters: NeverOverdue, NoSecondFiringOfOneExpiry, PositivePeriod as an inductive invariant of Timer.tla
        ctx.inductive("TimerApa", "misc")
        for label, cfg, horizon, acts in mc_cfgs(ctx):
            r = ctx.mc("TimerMC", cfg, "misc", required_actions=acts, label=label, timeout=3000, workers=WORKERS)
            for h in r.emitted():
                k = json.dumps(h, sort_keys=True)
                if k not in seen:
                    seen.add(k)
                    h["horizon"] = horizon
                    emitted.append(h)
            r.out = ""
            r.prints = []
        if not emitted:
            raise core.Machinery("TimerMC emitted no history")
        ctx.extra["histories_emitted_by_tlc"] = len(emitted)
        n_emit = 4000 if ctx.quick else 100000
        n_rand = 2500 if ctx.quick else 50000
        emitted.sort(key=lambda h: json.dumps(h, sort_keys=True))
        ctx.rng.shuffle(emitted)
        scs = [from_history(ctx, h, h["horizon"]) for h in emitted[:n_emit]]
        scs += [random_history(ctx) for _ in range(n_rand)]
    traces = ctx.drive("timer", scs, procs=12)
    stuck = ctx.validate("TimerTrace", "TimerTrace.cfg", "misc", traces, shard=1000)
    distinct = set()
    for i, (sc, tr) in enumerate(zip(scs, traces)):
        key = json.dumps(sc, sort_keys=True)
        if key in distinct:
            continue
        distinct.add(key)
        if i in stuck:
            pos = stuck[i]
            ev = tr["ev"]
            at = ev[pos - 1] if pos - 1 < len(ev) else None
            sig = "no spec step matches %s%s" % (at["e"] + (":" + at["type"] if at["type"] else ""),
                                                " (inside the callback)" if at["inn"] else "") if at else "end"
            detail = "trace rejected at event %d: %s" % (pos, json.dumps(at))
            try:
                ctx.violation("timer_trace", sc, tr, detail, sig=sig)
            except TypeError:       # older vlib without the sig parameter
                ctx.violation("timer_trace", sc, tr, detail)
        else:
            classify(ctx, sc, tr)
            if i % 1499 == 0:
                ctx.sample({"scenario": sc, "trace_events": tr["ev"][:14]})
    ctx.extra["distinct_scenarios"] = len(distinct)
    if not replay and not ctx.violations:
        for k in ("call_preempts_due_firing", "call_after_firing_same_instant", "call_from_callback",
                  "several_outside_calls_one_instant", "restart_after_stop", "restart_of_fired_one_shot",
                  "scalar_args_fired", "tlc_history_reproduced_exactly"):
            if not ctx.nontrivial.get(k):
                raise core.Machinery("vacuity: no replayed scenario of kind %s" % k)
    return ctx.finish(RULE, assumptions=[
        "instants and timeouts on a lattice of 1, 1/2 or 1/4 time units (ints and floats); float rounding off the lattice is not decided",
        "after restart(tau) an auto-restart timer's period is tau (the `timeout` in force), as `every timeout thereafter` is read",
        "whether restart() re-arms a one-shot timer whose expiry has already been consumed is left open by the property: both accepted",
        "a stopped timer never fires again, also not after restart() (`after stop() it never fires again`)",
        "the callback itself does not raise; calls from inside the callback are stop()/restart() on the own timer only"])


if __name__ == "__main__":
    core.main(run, "C19")
