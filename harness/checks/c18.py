"""C18 -- demuxes, switches, hubs, splitters (spec/net/Routing.tla) and the fat tree (spec/net/FatTree*.tla)."""
import json
import time
from concurrent.futures import ThreadPoolExecutor
from ..vlib import core
from ..vlib import tlc

RULE = ("put-level scenarios emitted by the exhaustive TLC runs of RoutingMC (every table / end map / default / hub "
        "population / splitter wiring within the bounds) plus seeded random larger ones, each replayed on the real "
        "element with recording devices on every output; graphs, flows and forwarding tables exported from the real "
        "FatTree(k) and judged by TLC (FatTreeCheck); end-to-end simulated fat trees with a recording sink per flow "
        "class.  A scenario is non-trivial when it exercises a clause antecedent: end device next to a table entry, "
        "empty table, unknown flow with/without default, flow id = number of outputs, hub port device, hub sender "
        "excluded, header rewrite before/after the put returned, dictionary-valued header rewrite, a downstream "
        "device that raises, a configuration change between two puts (and the same flow / sender exercised before and after "
        "it), reverse (ACK) tables, flows sharing a class; distinct = distinct scenario objects")

NF = 12
SCALARS = list(range(1, 11))
DICTS = [11, 12]
SERVERS = ["DRR", "WFQ", "SP", "VirtualClock"]
EXCS = ["KeyError", "IndexError", "ValueError", "RuntimeError", "Boom"]


# ----------------------------------------------------------------------------- model checking
def mc_all(ctx):
    """The five RoutingMC configurations and FatTreeNetMC, run concurrently (they are independent), booked through ctx.mc."""
    big = not ctx.quick
    acts = {
        "demux": ("EnvPut", "DoDeliver", "DoReturn"),
        "boom": ("EnvPut", "DoDeliver", "DoReturn", "DoRaise"),
        "hub": ("EnvPut", "DoDeliver", "DoPortForward", "DoReturn"),
        "hublive": ("EnvPut", "DoDeliver", "DoPortForward", "DoReturn"),
        "split": ("EnvPut", "DoDeliver", "DoReturn", "EnvModify"),
        "reconf": ("EnvPut", "DoDeliver", "DoReturn", "EnvSetEntry", "EnvDelEntry", "EnvReplaceTable", "EnvAppendOut",
                   "EnvSetEnd", "EnvDelEnd", "EnvSetDefault"),
        "reconfhub": ("EnvPut", "DoDeliver", "DoPortForward", "DoReturn", "EnvAddEndpoint"),
    }
    cfgs = {}
    for name in acts:
        text = open(tlc.SPEC + "/net/RoutingMC_%s.cfg" % name).read()
        if big and name == "demux":
            text = text.replace("MaxFlow = 3", "MaxFlow = 4")
        if big and name == "boom":
            text = text.replace("MaxFlow = 2", "MaxFlow = 3").replace("MaxOuts = 2", "MaxOuts = 3")
        if big and name == "reconf":
            text = text.replace("MaxPuts = 2", "MaxPuts = 3")
        if big and name == "reconfhub":
            text = text.replace("MaxReconf = 1", "MaxReconf = 2")
        if big and name == "hublive":
            text = text.replace("MaxOuts = 3", "MaxOuts = 4")
        cfgs[name] = text
    module = {n: "RoutingMC" for n in cfgs}
    acts["net"] = ("NetArrive",)
    cfgs["net"] = open(tlc.SPEC + "/net/FatTreeNetMC.cfg").read()
    module["net"] = "FatTreeNetMC"
    workers = 3 if ctx.quick else 6
    with ThreadPoolExecutor(max_workers=len(cfgs)) as ex:
        futs = {n: ex.submit(tlc.run, module[n], c, tlc.SPEC + "/net", workers=workers, timeout=3000)
                for n, c in cfgs.items()}
        raw = {}
        for n, f in futs.items():
            raw[n] = f.result()
    out = {}
    real_run = tlc.run
    try:
        for n in cfgs:
            tlc.run = lambda *a, _r=raw[n], **k: _r          # bookkeeping + vacuity rules of ctx.mc on the finished run
            out[n] = ctx.mc(module[n], cfgs[n], "net", required_actions=acts[n], label=module[n] + "/" + n)
    finally:
        tlc.run = real_run
    return out


def group_emitted(results):
    """TLC emits one (cfg, put) pair per line; a scenario is one element configuration with its puts."""
    by = {}
    for name, r in results.items():
        for w in r.emitted():
            cfg = w["cfg"]
            if w.get("script"):
                steps = []
                for st in w["script"]:
                    if st["op"] == "put":
                        steps.append({"op": "put", "f": st["f"], "s": st["p"], "mods": []})
                    else:
                        steps.append({"op": st["op"], "f": st["f"], "p": st["p"], "tb": st["tb"]})
                key = json.dumps([cfg, steps], sort_keys=True)
                by[key] = {"cfg": cfg, "steps": steps, "puts": {}, "tier": name}
                continue
            key = json.dumps(cfg, sort_keys=True)
            put = {"f": w["f"], "s": w["s"], "mods": w["mods"]}
            ent = by.setdefault(key, {"cfg": cfg, "puts": {}, "tier": name})
            ent["puts"][json.dumps(put, sort_keys=True)] = put
    res = []
    for key in sorted(by):
        e = by[key]
        if "steps" in e:
            res.append({"cfg": e["cfg"], "steps": e["steps"], "puts": [], "tier": e["tier"]})
            continue
        res.append({"cfg": e["cfg"], "puts": [e["puts"][k] for k in sorted(e["puts"])], "tier": e["tier"]})
    return res


# ----------------------------------------------------------------------------- scenario decoration
def style_for(ctx, cfg):
    rng = ctx.rng
    kind = cfg["kind"]
    st = {}
    if kind == "flow":
        st["ctor"] = rng.choice(["positional", "short"])
    elif kind == "fib":
        st["ctor"] = rng.choice(["args", "positional", "attrs"])
    elif kind in ("simple", "fair"):
        st["rate"] = rng.choice([8000.0, 800.0, 64000.0])
        st["buffer"] = rng.choice([50, 1000])
        st["server"] = rng.choice(SERVERS)
    elif kind == "hub":
        st["hub"] = rng.choice(["default", "list", "add", "mixed"] if not any(cfg["pdev"]) else ["list", "add", "mixed"])
    if cfg.get("boomc"):
        st["exc"] = rng.choice(EXCS)
    return st


def flows_needed(cfg, steps):
    fl = [f for f, _ in cfg["table"]] + list(cfg["ends"]) + [0]
    for st in steps:
        fl.append(st.get("f", 0))
        fl += [f for f, _ in st.get("tb", [])]
    return 1 + max(fl)


def steps_of(sc):
    return sc["steps"] if sc.get("steps") is not None else [dict(p, op="put") for p in sc["puts"]]


def decorate(ctx, e):
    """TLC-emitted scenario -> driver scenario (model header fields 1/2 -> a real scalar / dictionary field)."""
    rng = ctx.rng
    cfg = {k: v for k, v in e["cfg"].items() if k != "dictk"}
    if "steps" in e:
        sc = {"fam": "routing", "cfg": cfg, "steps": e["steps"], "style": style_for(ctx, cfg), "origin": "tlc/" + e.get("tier", "")}
        if cfg["kind"] == "fair":
            sc["style"]["nflow"] = flows_needed(cfg, e["steps"])
        return sc
    puts = []
    for p in e["puts"]:
        mods = []
        sk = rng.choice(SCALARS)
        dk = rng.choice(DICTS)
        for m in p.get("mods", []):
            if m["k"] == 2:
                mods.append({"oi": m["oi"], "k": dk, "w": 2 ** m["oi"], "early": m["early"]})
            else:
                mods.append({"oi": m["oi"], "k": sk, "w": 10 + m["oi"], "early": m["early"]})
        puts.append({"f": p["f"], "s": p["s"], "mods": mods})
    rng.shuffle(puts)
    sc = {"fam": "routing", "cfg": cfg, "puts": puts, "style": style_for(ctx, cfg), "origin": "tlc/" + e.get("tier", "")}
    if cfg["kind"] == "fair":
        sc["style"]["nflow"] = 1 + max([p["f"] for p in puts] + [f for f, _ in cfg["table"]] + cfg["ends"] + [0])
    return sc


def base_cfg(kind, n):
    return {"kind": kind, "nouts": n, "dflt": 0, "table": [], "ends": [], "pdev": [], "conn": [], "boomc": "", "boomi": 0}


def random_scenario(ctx):
    rng = ctx.rng
    kind = rng.choice(["flow", "fib", "fib", "fib", "simple", "fair", "fair", "hub", "hub", "split", "nsplit", "nsplit"])
    puts = []
    if kind in ("flow", "simple"):
        n = rng.randint(0 if kind == "flow" else 1, 6)
        cfg = base_cfg(kind, n)
        if kind == "flow":
            cfg["dflt"] = rng.choice([0, 1])
        for _ in range(rng.randint(2, 10)):
            puts.append({"f": rng.choice([0, 1, n - 1, n, n + 1, rng.randint(0, 9), -1, -n]) if n else rng.randint(-1, 3), "s": 0, "mods": []})
    elif kind in ("fib", "fair"):
        n = rng.randint(0 if kind == "fib" else 1, 6)
        flows = rng.sample(range(0, 14), rng.randint(0, 8))
        cfg = base_cfg(kind, n)
        cfg["dflt"] = rng.choice([0, 1])
        cfg["table"] = sorted([f, rng.randint(1, n + (2 if rng.random() < 0.2 else 0))] for f in flows if n > 0 and rng.random() < 0.7)
        if rng.random() < 0.15:
            cfg["table"] = []
        cfg["ends"] = sorted(f for f in rng.sample(range(0, 14), rng.randint(0, 4)))
        for _ in range(rng.randint(2, 10)):
            pool = [f for f, _ in cfg["table"]] + cfg["ends"] + [rng.randint(0, 15)]
            puts.append({"f": rng.choice(pool), "s": 0, "mods": []})
        if kind == "fib" and rng.random() < 0.2:
            outs = [["o", i] for i in range(1, n + 1)] + ([["d", 0]] if cfg["dflt"] else []) + [["e", f] for f in cfg["ends"]]
            if outs:
                cfg["boomc"], cfg["boomi"] = rng.choice(outs)
    elif kind == "hub":
        n = rng.randint(0, 8)
        cfg = base_cfg(kind, n)
        mode = rng.choice(["none", "all", "mix"])
        cfg["pdev"] = [0 if mode == "none" else 1 if mode == "all" else rng.choice([0, 1]) for _ in range(n)]
        for _ in range(rng.randint(1, 6)):
            puts.append({"f": 0, "s": rng.randint(0, n), "mods": []})
    else:
        n = 2 if kind == "split" else rng.randint(2, 6)
        cfg = base_cfg(kind, n)
        cfg["conn"] = [rng.choice([0, 1, 1, 1]) for _ in range(n)]
        for _ in range(rng.randint(1, 3)):
            mods = []
            seen = set()
            for _ in range(rng.randint(0, 8)):
                oi = rng.randint(1, n)
                k = rng.choice(SCALARS + DICTS + DICTS)
                if (oi, k) in seen:
                    continue
                seen.add((oi, k))
                mods.append({"oi": oi, "k": k, "w": 2 ** oi if k in DICTS else rng.randint(1, 90), "early": rng.choice([0, 1])})
            puts.append({"f": rng.randint(0, 5), "s": 0, "mods": mods})
    sc = {"fam": "routing", "cfg": cfg, "puts": puts, "style": style_for(ctx, cfg), "origin": "random"}
    if kind == "fair":
        sc["style"]["nflow"] = 16
    if kind in ("flow", "fib", "fair", "hub") and rng.random() < 0.5:
        sc["steps"] = with_reconfiguration(ctx, cfg, puts)
        sc["puts"] = []
    return sc


def with_reconfiguration(ctx, cfg, puts):
    """Interleave the puts with configuration changes made through the public API; around each change the flow /
    sender it concerns is exercised (before: so that whatever the element may have remembered is stale afterwards)."""
    rng = ctx.rng
    kind = cfg["kind"]
    n = cfg["nouts"]
    table = {f: p for f, p in cfg["table"]}
    ends = set(cfg["ends"])
    steps = []
    todo = [dict(p, op="put") for p in puts]

    def put(f, s=0):
        steps.append({"op": "put", "f": f, "s": s, "mods": []})

    for _ in range(rng.randint(1, 4)):
        for _ in range(rng.randint(0, 2)):
            if todo:
                steps.append(todo.pop(0))
        if kind == "hub":
            s = rng.randint(0, n)
            if rng.random() < 0.8:
                put(0, s)
            steps.append({"op": "join", "f": 0, "p": rng.choice([0, 1]), "tb": []})
            n += 1
            if rng.random() < 0.9:
                put(0, s)
            if rng.random() < 0.5:
                put(0, n)
            continue
        ops = ["out", "dflt"] if kind == "flow" else ["set", "set", "del", "table", "end", "unend", "dflt"] + (["out", "out"] if kind == "fib" else [])
        op = rng.choice(ops)
        f = rng.randint(0, 15) if rng.random() < 0.5 or not table else rng.choice(sorted(table))
        if kind == "flow":
            f = n if op == "out" else rng.randint(0, n + 1)
        if op == "out":
            cands = [g for g, p in table.items() if p == n + 1]
            if kind == "fib" and cands and rng.random() < 0.8:
                f = rng.choice(cands)
        if op == "del":
            if not table:
                continue
            f = rng.choice(sorted(table))
        if op == "unend":
            if not ends:
                continue
            f = rng.choice(sorted(ends))
        if op == "end" and f in ends:
            continue
        if rng.random() < 0.8:
            put(f)
        if op == "set":
            p = rng.randint(1, n + (1 if kind == "fib" and rng.random() < 0.3 else 0)) if n else 1
            table[f] = p
            steps.append({"op": "set", "f": f, "p": p, "tb": []})
        elif op == "del":
            del table[f]
            steps.append({"op": "del", "f": f, "p": 0, "tb": []})
        elif op == "table":
            table = {g: rng.randint(1, max(1, n)) for g in rng.sample(range(0, 14), rng.randint(0, 5))}
            if rng.random() < 0.7:
                table[f] = rng.randint(1, max(1, n))
            steps.append({"op": "table", "f": 0, "p": 0, "tb": sorted([g, p] for g, p in table.items())})
        elif op == "out":
            n += 1
            steps.append({"op": "out", "f": 0, "p": 0, "tb": []})
        elif op == "end":
            ends.add(f)
            steps.append({"op": "end", "f": f, "p": 0, "tb": []})
        elif op == "unend":
            ends.discard(f)
            steps.append({"op": "unend", "f": f, "p": 0, "tb": []})
        elif op == "dflt":
            steps.append({"op": "dflt", "f": 0, "p": rng.choice([0, 1]), "tb": []})
        if rng.random() < 0.9:
            put(f)
    return steps + todo


def classify_routing(ctx, sc, tr):
    cfg = sc["cfg"]
    kinds = set()
    tab = {f for f, _ in cfg["table"]}
    steps = steps_of(sc)
    if any(st["op"] != "put" for st in steps):
        kinds.add("reconfigured_between_puts")
        seen_before = set()
        changed = False
        for st in steps:
            if st["op"] == "put":
                key = (st["f"], st.get("s", 0))
                if changed and key in seen_before:
                    kinds.add("same_flow_or_sender_before_and_after_a_change")
                seen_before.add(key)
            else:
                changed = True
                kinds.add("reconf_" + st["op"])
        for k in kinds:
            ctx.count(k)
        return
    for p in steps:
        f = p["f"]
        if cfg["kind"] in ("fib", "fair"):
            if f in cfg["ends"] and f in tab:
                kinds.add("end_device_beats_table")
            if not cfg["table"]:
                kinds.add("empty_table")
            if f not in cfg["ends"] and f not in tab:
                kinds.add("unknown_flow_to_default" if cfg["dflt"] else "unknown_flow_no_default")
        if cfg["kind"] in ("flow", "simple") and f == cfg["nouts"]:
            kinds.add("flow_id_equals_number_of_outputs")
        if cfg["kind"] == "hub":
            if p["s"] >= 1:
                kinds.add("hub_sender_excluded")
            if any(cfg["pdev"]):
                kinds.add("hub_port_device")
            if sc["style"].get("hub") == "default":
                kinds.add("hub_default_ports_argument")
        for m in p.get("mods", []):
            kinds.add("header_rewrite_before_return" if m["early"] else "header_rewrite_after_return")
            if m["k"] in DICTS:
                kinds.add("dictionary_header_rewrite")
    if cfg.get("boomc"):
        kinds.add("downstream_device_raises")
    for k in kinds:
        ctx.count(k)


# ----------------------------------------------------------------------------- fat tree
def fattree_cases(ctx):
    rng = ctx.rng
    scs = []
    reps = 2 if ctx.quick else 14
    for k in (2, 4, 6, 8):
        hosts = k ** 3 // 4
        for tcp in (0, 1):
            for _ in range(reps if k < 8 else max(1, reps // 2)):
                nfl = rng.choice([1, 2]) if k == 2 else rng.choice([3, 8, 2 * hosts, 50 if k == 4 else 24])
                scs.append({"fam": "export", "mode": "export", "k": k, "seed": rng.randint(0, 10 ** 6), "nflows": nfl, "tcp": tcp})
    return scs


def judge_fattree(ctx, scs, cases):
    """TLC evaluates the structure predicates and walks the tables; a violated INVARIANT here is a verdict
    about the exported data (the code), so it is reported as a violation, not as a machinery failure."""
    good = []
    for sc, c in zip(scs, cases):
        if "err" in c:
            ctx.violation("fattree_build", sc, None, "FatTree / generate_flows / generate_fib raised " + c["err"])
        else:
            good.append((sc, c))
    if not good:
        return
    data = [c for _, c in good]
    r = tlc.run("FatTreeCheck", "FatTreeCheck.cfg", tlc.SPEC + "/net", files={"fattree.json": data},
                workers=8, timeout=3000, heap="6g")
    ctx.states += r.distinct
    ctx.transitions += r.generated
    walks = sum(len(c["flows"]) * (2 if c["tcp"] else 1) for c in data)
    hops = r.generated - len(data) - walks
    ctx.mc_runs.append({"spec": "FatTreeCheck", "distinct": r.distinct, "generated": r.generated, "depth": r.depth,
                        "wall_s": round(r.wall, 1), "mode": "exhaustive", "complete": not r.timed_out,
                        "cases": len(data), "walks": walks, "hops": max(0, hops)})
    if r.timed_out:
        raise core.Machinery("FatTreeCheck timed out")
    ctx.extra["fattree_cases_judged"] = ctx.extra.get("fattree_cases_judged", 0) + len(data)
    ctx.extra["fattree_walks"] = ctx.extra.get("fattree_walks", 0) + walks
    if r.ok and walks and hops <= 0:
        raise core.Machinery("vacuity: FatTreeCheck walked no hop")
    if r.ok:
        for sc, c in good:
            ctx.count("fat_tree_k%d" % sc["k"])
            if sc["tcp"]:
                ctx.count("fat_tree_reverse_tables")
        return
    # name every failing (case, clause)
    rr = tlc.run("FatTreeCheck", "FatTreeCheck_report.cfg", tlc.SPEC + "/net", files={"fattree.json": data},
                 workers=8, timeout=3000, heap="6g")
    bad = {}
    for t in rr.tuples("BAD"):
        bad.setdefault(t[1], set()).add((t[3], t[2]))
    if not bad:
        bad = {1: {(r.violated or "property", 0)}} if len(good) == 1 else {}
        if not bad:
            raise core.Machinery("FatTreeCheck violated %s but the report run named no case:\n%s" % (r.violated, "\n".join(r.trace[:40])))
    for cid, items in sorted(bad.items()):
        sc, c = good[cid - 1]
        clauses = sorted({a for a, _ in items})
        flows = sorted({b for _, b in items if b})
        ctx.violation("fattree_tables", sc, None,
                      "FatTree(k=%d) seed %d: clause(s) %s fail%s" % (sc["k"], sc["seed"], ", ".join(clauses),
                                                                     (" for flow index %s" % flows[:5]) if flows else ""))


def e2e_scenarios(ctx):
    rng = ctx.rng
    scs = []
    n = 2 if ctx.quick else 12
    for sw in ("simple", "DRR", "WFQ", "SP", "VirtualClock"):
        for tcp in (0, 1):
            for _ in range(n if sw in ("simple", "DRR") else max(1, n // 2)):
                scs.append({"fam": "e2e", "mode": "e2e", "k": 4, "seed": rng.randint(0, 10 ** 6), "nflows": rng.choice([4, 8, 14]),
                            "tcp": tcp, "switch": sw, "ncls": 0, "finish": rng.choice([2, 3]),
                            "rate": rng.choice([80000, 16000]), "buffer": 1000})
    # several flows sharing one class on a link, exactly as tests/apps/fattree.py configures it (WFQ)
    for _ in range(n + 1):
        scs.append({"fam": "e2e", "mode": "e2e", "k": 4, "seed": rng.randint(0, 10 ** 6), "nflows": rng.choice([8, 14, 20]),
                    "tcp": 0, "switch": "WFQ", "ncls": rng.choice([2, 3, 5]), "finish": 3, "rate": 80000, "buffer": 1000})
    if not ctx.quick:
        for k in (2, 6):
            scs.append({"fam": "e2e", "mode": "e2e", "k": k, "seed": rng.randint(0, 10 ** 6), "nflows": 2 if k == 2 else 12,
                        "tcp": 1, "switch": "DRR", "ncls": 0, "finish": 2, "rate": 80000, "buffer": 1000})
    return scs


# ----------------------------------------------------------------------------- main
def report_trace_verdicts(ctx, scs, traces, stuck, kind, classify):
    distinct = set()
    for i, (sc, tr) in enumerate(zip(scs, traces)):
        key = json.dumps(sc, sort_keys=True)
        if key in distinct:
            continue
        distinct.add(key)
        if i in stuck:
            pos = stuck[i]
            ev = tr["ev"]
            at = ev[pos - 1] if pos - 1 < len(ev) else None
            ctx.violation(kind, sc, tr, "trace rejected at event %d: %s" % (pos, json.dumps(at)))
        else:
            classify(ctx, sc, tr)
            if i % 499 == 0:
                ctx.sample({"scenario": sc, "trace_events": tr["ev"][:10]})
    return len(distinct)


def classify_e2e(ctx, sc, tr):
    ctx.count("e2e_" + ("simple" if sc["switch"] == "simple" else "fair"))
    if sc["tcp"]:
        ctx.count("e2e_reverse_class")
    if sc.get("ncls"):
        ctx.count("e2e_flows_sharing_a_class")


def run(ctx, replay=None):
    routing, exports, e2es = [], [], []
    t0 = time.time()
    phases = ctx.extra.setdefault("phase_wall_s", {})

    def lap(name):
        nonlocal t0
        phases[name] = round(time.time() - t0, 1)
        t0 = time.time()
    if replay:
        obj = json.load(open(replay))
        sc = obj["scenario"]
        {"routing": routing, "export": exports, "e2e": e2es}[sc.get("fam", "routing")].append(sc)
    else:
        res = mc_all(ctx)
        lap("model_checking")
        emitted = group_emitted(res)
        ctx.extra["scenarios_emitted_by_tlc"] = len(emitted)
        ctx.extra["puts_emitted_by_tlc"] = sum(len(e["puts"]) for e in emitted)
        quota = {"demux": 1500, "boom": 500, "hub": 100, "hublive": 0, "split": 40, "reconf": 1500, "reconfhub": 300} if ctx.quick else \
                {"demux": 40000, "boom": 8000, "hub": 400, "hublive": 100, "split": 200, "reconf": 40000, "reconfhub": 5000}
        ctx.rng.shuffle(emitted)
        taken = {}
        for e in emitted:
            t = e["tier"]
            if taken.get(t, 0) < quota.get(t, 0):
                taken[t] = taken.get(t, 0) + 1
                if e["cfg"]["kind"] in ("split", "nsplit") and len(e["puts"]) > 60:
                    e = dict(e, puts=ctx.rng.sample(e["puts"], min(len(e["puts"]), 60 if ctx.quick else 400)))
                routing.append(decorate(ctx, e))
                if e["cfg"]["kind"] == "hub":                      # every construction style for hub populations
                    for how in ("default", "list", "add", "mixed"):
                        if how == "default" and any(e["cfg"]["pdev"]):
                            continue
                        sc = decorate(ctx, e)
                        sc["style"]["hub"] = how
                        routing.append(sc)
        routing += [random_scenario(ctx) for _ in range(1500 if ctx.quick else 30000)]
        exports = fattree_cases(ctx)
        e2es = e2e_scenarios(ctx)

    n_distinct = 0
    if routing:
        traces = ctx.drive("routing", routing, procs=8)
        stuck = ctx.validate("RoutingTrace", "RoutingTrace.cfg", "net", traces, shard=400)
        n_distinct += report_trace_verdicts(ctx, routing, traces, stuck, "routing_trace", classify_routing)
        lap("routing_traces")
    if exports:
        cases = ctx.drive("fattree", exports, procs=8)
        judge_fattree(ctx, exports, cases)
        n_distinct += len(exports)
        lap("fattree_tables")
    if e2es:
        traces = ctx.drive("fattree", e2es, procs=8)
        stuck = ctx.validate("FatTreeNetTrace", "FatTreeNetTrace.cfg", "net", traces, shard=40)
        n_distinct += report_trace_verdicts(ctx, e2es, traces, stuck, "fattree_end_to_end", classify_e2e)
        lap("fattree_end_to_end")
    ctx.extra["distinct_scenarios"] = n_distinct
    return ctx.finish(RULE, assumptions=[
        "untimed: only which recording device saw which packet object (and its header fields) is judged, not when",
        "flow ids are non-negative integers; a table entry naming a port that does not exist (yet) is treated as no usable "
        "entry (default output, else nowhere)",
        "configuration changes (table entry set/deleted in place, new table through the fib setter, outs.append, "
        "ends[f] set/deleted, default_out changed, hub.add_endpoint) happen between puts, never during one; every put is "
        "judged against the configuration in force when it is made",
        "a downstream device that raises may abort the put or be ignored by the element; either way the packet must not "
        "be handed to any output the rules do not name",
        "FairPacketSwitch is exercised with DRR, WFQ, SP and VirtualClock servers and one class per flow (shared classes only in the "
        "end-to-end WFQ runs, as tests/apps/fattree.py configures them); scheduling order is C12-C15's business",
        "SimplePacketSwitch routes by the FlowDemux rule (flow f -> port f); in the end-to-end fat tree its ports are "
        "driven by a FIBDemux, since the class has no forwarding table of its own",
        "fat trees are built for k in {2,4,6,8}; end-to-end simulations mostly for k = 4 with ample buffers (no drops)"])


if __name__ == "__main__":
    core.main(run, "C18")
