"""Scenario generation and orchestration shared by the scheduler checks C12-C15."""
import json
from math import gcd
from functools import reduce

KINDS = ["SP", "WFQ", "VC", "DRR", "RR", "WRR"]


def lcm(a, b):
    return a * b // gcd(a, b)


def random_scenario(rng, kind, policy=None, bind="", mapping_p=0.25, mon_p=0.4, maxn=12):
    nf = rng.choice([2, 2, 3, 3, 4])
    manyone = kind in ("SP", "WFQ", "VC", "DRR") and nf >= 3 and rng.random() < mapping_p
    if manyone:
        nc = rng.randint(1, nf - 1)
        f2c = [rng.randint(1, nc) for _ in range(nf)]
        for c in range(1, nc + 1):          # every class used
            if c not in f2c:
                f2c[rng.randrange(nf)] = c
        if sorted(set(f2c)) != list(range(1, nc + 1)):
            nc = nf
            f2c = list(range(1, nf + 1))
    else:
        nc = nf
        f2c = list(range(1, nf + 1))
    K = rng.choice([1, 1, 2])
    unit = 0
    if kind == "SP":
        w = [rng.choice([1, 2, 3, 5]) for _ in range(nf)]          # per-flow priorities (positive)
        order = list(range(1, nf + 1))
        rng.shuffle(order)
        sizes = [1, 2, 3, 4]
        step = 1
    elif kind == "WFQ":
        w = [rng.choice([1, 1, 2, 3]) for _ in range(nc)]
        while sum(w) > 6:
            w[rng.randrange(nc)] = 1
        L = reduce(lcm, range(1, sum(w) + 1), 1)
        sizes = [L, L, 2 * L, 3 * L]
        step = L
        order = list(range(1, nc + 1))
        K = 1
    elif kind == "VC":
        w = [rng.choice([1, 2, 3, 5]) for _ in range(nc)]            # vticks
        order = list(range(1, nc + 1))
        sizes = [1, 2, 3, 4]
        step = 1
    elif kind == "DRR":
        w = [rng.choice([1, 1, 2, 3]) for _ in range(nc)]
        if (1500 * max(w)) % min(w):
            w = [1] * nc
        order = list(range(1, nc + 1))
        rng.shuffle(order)
        sizes = [500, 1000, 1500, 1500, 3000, 4000]
        step = 500
        unit = 1500
        K = 1
    elif kind == "RR":
        w = [1] * nc
        order = list(range(1, nc + 1))
        rng.shuffle(order)
        sizes = [1, 2, 3]
        step = 1
    else:  # WRR
        w = [rng.choice([1, 2, 3]) for _ in range(nc)]
        order = list(range(1, nc + 1))
        rng.shuffle(order)
        sizes = [1, 2, 3]
        step = 1
    n = rng.randint(3, maxn)
    t = 0
    arr = []
    zero = rng.random() < 0.15            # some workloads contain zero-size packets (legal: "all sizes")
    burst = rng.random() < 0.3
    for _ in range(n):
        if not (burst and len(arr) < n - 2):
            t += step * K * rng.choice([0, 0, 0, 1, 1, 2, 3, 4, 9])
        arr.append({"t": t, "f": rng.randint(1, nf), "sz": 0 if (zero and rng.random() < 0.25) else rng.choice(sizes), "src": rng.choice([0, 1, 1, 2])})
    # closed-loop arrivals: handed in a few zero-delay steps after the k-th departure, i.e. inside the instant of a
    # transmission end, between the scheduler's internal steps
    for _ in range(rng.choice([0, 0, 1, 2, 3])):
        arr.append({"t": -1, "after": [rng.randint(1, n), rng.choice([1, 1, 2, 3])], "f": rng.randint(1, nf), "sz": rng.choice(sizes)})
    sc = {"sched": kind, "bind": bind,
          "cfg": {"policy": policy or kind, "K": K, "nf": nf, "nc": nc, "f2c": f2c, "w": w, "order": order, "unit": unit},
          "arr": arr}
    if rng.random() < mon_p:
        sc["mon"] = {"incl": rng.choice([0, 1]), "gaps": [step * K * rng.choice([0, 1, 1, 2, 3]) for _ in range(rng.randint(1, 6))]}
    if rng.random() < 0.2:
        # the same scenario in another time unit: one tick = 2**e seconds, the rate 2**-e times as large (stamps a
        # picosecond apart on a terabit link / virtual times beyond 2**30 on a very slow one): nothing may change
        sc["tscale"] = rng.choice([-40, -40, -33, 20, 30])
    if kind in ("SP", "WFQ", "DRR") and rng.random() < 0.2:
        # the same weights / priorities in another unit (fractional weights summing to less than 1, or huge ones)
        sc["wscale"] = rng.choice([-4, -3, -2, -1, 3, 10])
    if rng.random() < 0.12:
        # the environment's clock does not start at 0 (VirtualClock's formula max(now, auxVC) presupposes auxVC = 0 at
        # the start: no negative origin there)
        sc["t0"] = rng.choice([3, 100] if kind == "VC" else [-50, -7, 3, 100])
    if rng.random() < 0.08:
        sc["noout"] = rng.choice([1, 2])    # the scheduler is the last element: no next hop (out = None / never assigned)
        sc["arr"] = [a for a in sc["arr"] if "after" not in a]
        sc.setdefault("mon", {"incl": rng.choice([0, 1]), "gaps": [step * K * rng.choice([1, 2, 3, 5]) for _ in range(rng.randint(3, 8))]})
    if rng.random() < 0.3:
        # a twin scheduler (same kind, same tables) with its own traffic in the same environment
        tw, t2 = [], 0
        for _ in range(rng.randint(2, maxn)):
            t2 += step * K * rng.choice([0, 0, 1, 1, 2, 3])
            tw.append({"t": t2, "f": rng.randint(1, nf), "sz": rng.choice(sizes), "src": rng.choice([0, 1, 2])})
        sc["twin"] = tw
    return sc


def from_emitted(rng, w, kind, policy=None, bind="", scale=1, mon_p=0.3):
    """Workload emitted by SchedMC ([cfg, arr]) -> scenario for the real scheduler `kind`."""
    cfg = dict(w["cfg"])
    cfg["policy"] = policy or cfg["policy"]
    arr = [{"t": a["t"] * scale, "f": a["f"], "sz": a["sz"] * scale, "src": rng.choice([0, 1, 1, 2])} for a in w["arr"]]
    sc = {"sched": kind, "bind": bind, "cfg": cfg, "arr": arr}
    if rng.random() < mon_p:
        sc["mon"] = {"incl": rng.choice([0, 1]), "gaps": [scale * cfg["K"] * rng.choice([0, 1, 1, 2, 3]) for _ in range(rng.randint(1, 5))]}
    return sc


def classify(ctx, sc, tr):
    ev = tr["ev"]
    kinds = set()
    for i, e in enumerate(ev):
        if e["e"] == "A":
            if i and ev[i - 1]["e"] == "A" and ev[i - 1]["t"] == e["t"]:
                kinds.add("burst")
            if any(o["e"] == "D" and o["t"] == e["t"] for o in ev[max(0, i - 3):i + 4]):
                kinds.add("arrival_at_transmission_end")
            if e["tot"] >= 3:
                kinds.add("backlog>=3")
        if e["e"] == "S" and e["pis"]:
            kinds.add("sample_in_service")
    if sc["cfg"]["f2c"] != list(range(1, sc["cfg"]["nf"] + 1)):
        kinds.add("flows_share_class")
    ds = [e for e in ev if e["e"] == "D"]
    if any(ds[i]["t"] + sc["cfg"]["K"] * ds[i + 1]["sz"] < ds[i + 1]["t"] for i in range(len(ds) - 1)):
        kinds.add("idle_gap")
    for k in kinds:
        ctx.count(k)
    if kinds:
        ctx.count_case()
    return kinds


def validate_and_report(ctx, scs, traces, kind_label, sample_every=499):
    stuck = ctx.validate("SchedTrace", "SchedTrace.cfg", "net", traces, shard=400)
    distinct = set()
    for i, (sc, tr) in enumerate(zip(scs, traces)):
        key = json.dumps(sc, sort_keys=True)
        if key in distinct:
            continue
        distinct.add(key)
        if i in stuck:
            pos = stuck[i]
            ev = tr["ev"]
            at = ev[pos - 1] if pos - 1 < len(ev) else None
            ctx.violation(kind_label, sc, tr, "%s trace (policy %s) rejected at event %d: %s" % (
                sc["sched"], sc["cfg"]["policy"], pos, json.dumps(at)),
                sig="%s %s %s%s" % (sc["sched"], at["e"] if at else "end", at.get("type", "") if at else "",
                                    " shared-class" if sc["cfg"]["f2c"] != list(range(1, sc["cfg"]["nf"] + 1)) else ""))
        else:
            classify(ctx, sc, tr)
            if i % sample_every == 0:
                ctx.sample({"scenario": sc, "trace_events": tr["ev"][:10]})
    ctx.extra["distinct_scenarios"] = ctx.extra.get("distinct_scenarios", 0) + len(distinct)
    return stuck


ACTS = ("EnvArrive", "EnvTick", "DoSelect", "DoBegin", "DoDepart")


def mc(ctx, tier, thorough_over=None, quick_over=None, cfgname=None, required=ACTS):
    """Exhaustive SchedMC run for one policy tier; returns the de-duplicated emitted workloads."""
    from ..vlib import tlc
    cfg = open(tlc.SPEC + "/net/" + (cfgname or "SchedMC_%s.cfg" % tier)).read()
    over = quick_over if ctx.quick else thorough_over
    for a, b in (over or {}).items():
        assert a in cfg, a
        cfg = cfg.replace(a, b)
    r = ctx.mc("SchedMC", cfg, "net", required_actions=required, label="SchedMC/%s" % (cfgname or tier), timeout=3000)
    seen = {}
    for w in r.emitted():
        seen.setdefault(json.dumps(w, sort_keys=True), w)
    ctx.extra["workloads_emitted_by_tlc"] = ctx.extra.get("workloads_emitted_by_tlc", 0) + len(seen)
    return [seen[k] for k in sorted(seen)]


def emitted_scenarios(ctx, emitted, kind, policy, bind, limit):
    ctx.rng.shuffle(emitted)
    out = []
    for w in emitted[:limit]:
        if kind == "DRR":
            w = {"cfg": dict(w["cfg"], unit=1500), "arr": w["arr"]}
            out.append(from_emitted(ctx.rng, w, kind, policy, bind, scale=500))
        else:
            out.append(from_emitted(ctx.rng, w, kind, policy, bind))
    return out
