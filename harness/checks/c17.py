"""C17 -- TCPPacketGenerator's window law (TCPReno / TCPCubic) against spec/tcp/TcpSender.tla."""
import json
import re
from ..vlib import core

RULE = ("ACK histories emitted by the exhaustive TLC runs of TcpSenderMC (every history of new ACKs, duplicate ACKs and "
        "timer expiries within the bounds, exact rationals) plus seeded random longer histories, each replayed open-loop "
        "on the real TCPPacketGenerator (scripted put(ack) calls, retransmission timers fired by letting time pass) and "
        "validated step by step from the logged pre-state; a scenario is non-trivial when it contains a third duplicate "
        "ACK, further duplicates, a new ACK that ends fast recovery, a new ACK after one or two duplicates, a Reno "
        "congestion-avoidance ACK, a multi-segment ACK, a retransmission timeout (also inside fast recovery), a send "
        "limited by the flow's buffered data, or a CUBIC congestion-avoidance ACK (counted / growing); distinct = "
        "distinct scenarios")

MSS = 512
DEN = 8


def from_history(ctx, h):
    """A TLC-emitted history (MSS = M bytes, RTT samples as rationals of a second) as a driver scenario."""
    rng = ctx.rng
    cfg = h["cfg"]
    ev = []
    for e in h["hist"]:
        if e["op"] == "A":
            ev.append({"op": "A", "dt": rng.choice([0, 1, 1, 2]), "k": e["k"], "rtt": e["rn"] * DEN // e["rd"],
                       "late": rng.choice([0, 0, 1])})
        elif e["op"] == "D":
            ev.append({"op": "D", "dt": rng.choice([0, 0, 1]), "late": rng.choice([0, 0, 1])})
        else:
            ev.append({"op": "W", "dt": rng.choice([2, 3, 5]) * DEN})
    return {"cc": cfg["cc"], "cwnd": cfg["cw0"] * MSS, "ssthresh": min(cfg["ss0"] * MSS, 65535), "rtt0": DEN, "den": DEN,
            "size": 0, "ev": ev, "src": "tlc"}


def random_history(ctx):
    rng = ctx.rng
    cubic = rng.random() < 0.3
    den = rng.choice([8, 8, 64])
    n = rng.randint(3, 12 if ctx.quick else 40)
    if cubic:
        cwnd, ssth = 512, 65535
    else:
        cwnd = rng.choice([512, 512, 1024, 1536, 2048, 4096, 700, 5000, 8192])
        ssth = rng.choice([0, 512, 1024, 1024, 2048, 3000, 4096, 8192, 20000, 65535])
    style = rng.choice(["mixed", "mixed", "acks", "loss", "slow"])
    ev = []
    if cubic:
        # TCPCubic starts in slow start below 65535: get it into congestion avoidance through a loss first
        ev += [{"op": "A", "dt": 1, "k": 1, "rtt": den // 2, "late": 0} for _ in range(rng.randint(0, 4))]
        ev += [{"op": "D", "dt": 0, "late": 0} for _ in range(rng.randint(3, 5))]
    while len(ev) < n:
        r = rng.random()
        small = rng.choice([0, 0, 1, 1, 2, den // 4, den // 2])
        if style == "slow":
            small = rng.choice([den, 2 * den, 3 * den, 5 * den])
        if r < (0.75 if style == "acks" else 0.45):
            ev.append({"op": "A", "dt": small, "k": rng.choice([1, 1, 1, 2, 3, 8]),
                       "rtt": rng.choice([-1, -1, 1, 2, den // 8, den // 2, den, den + 3, 3 * den]),
                       "late": rng.choice([0, 0, 1])})
        elif r < (0.8 if style == "acks" else 0.85 if style == "loss" else 0.75):
            for _ in range(rng.choice([1, 1, 2, 2, 3, 3, 4, 5, 7])):
                ev.append({"op": "D", "dt": rng.choice([0, 0, 0, 1]), "late": rng.choice([0, 0, 1])})
        else:
            ev.append({"op": "W", "dt": rng.choice([den, 2 * den, 3 * den, 5 * den, 9 * den, 20 * den])})
    size = rng.choice([0, 0, 0, 3, 5, 8, 20]) * MSS
    if size and rng.random() < 0.3:
        size += rng.choice([1, 100, 511])
    return {"cc": "cubic" if cubic else "reno", "cwnd": cwnd, "ssthresh": ssth,
            "rtt0": rng.choice([den, den, den // 2, 2 * den, den // 8]), "den": den, "size": size, "ev": ev[:n + 6],
            "src": "random"}


def classify(ctx, sc, tr):
    kinds = set()
    pre = tr["cfg"]
    cubic = sc["cc"] == "cubic"
    for e in tr["ev"]:
        if e["e"] == "A":
            if e["ackno"] > pre["la"]:
                ca = pre["cwnd"] > pre["ssth"] and pre["dup"] < 3
                if pre["dup"] >= 3:
                    kinds.add("new_ack_ends_fast_recovery")
                elif pre["dup"] > 0:
                    kinds.add("new_ack_after_one_or_two_duplicates")
                if ca:
                    kinds.add("cubic_ca_ack" if cubic else "reno_ca_ack")
                    if cubic and e["cwnd"] > pre["cwnd"]:
                        kinds.add("cubic_ca_growth")
                else:
                    kinds.add("slow_start_ack")
                if e["ackno"] - pre["la"] > MSS:
                    kinds.add("multi_segment_ack")
                if not e["tx"]:
                    kinds.add("estimator_beyond_exact_fixed_point")
            elif e["dup"] == 3:
                kinds.add("third_duplicate")
            elif e["dup"] > 3:
                kinds.add("further_duplicate")
        elif e["e"] == "T":
            kinds.add("timeout")
            if pre["dup"] >= 3:
                kinds.add("timeout_in_fast_recovery")
            if e["seq"] < pre["la"]:
                kinds.add("timeout_of_acknowledged_segment")
        elif e["e"] == "S":
            if e["ns"] + MSS - e["la"] == e["cwnd"] // 1024 and e["cx"]:
                kinds.add("send_fills_window_exactly")
        elif e["e"] == "Q":
            if sc["size"] and e["ns"] + MSS > sc["size"] and (e["ns"] + MSS - e["la"]) * 1024 <= e["cwnd"]:
                kinds.add("send_limited_by_buffered_data")
        pre = e
    for k in kinds:
        ctx.count(k)
    return kinds


def signature(tr, pos):
    ev = tr["ev"]
    at = ev[pos - 1] if pos - 1 < len(ev) else None
    if at is None:
        return "end", None
    pre = ev[pos - 2] if pos >= 2 else tr["cfg"]
    if at["e"] == "A":
        if at["ackno"] > pre["la"]:
            what = "new ACK (dupack was %s, %s)" % ("0" if pre["dup"] == 0 else "1-2" if pre["dup"] < 3 else ">=3",
                                                    "slow start" if pre["cwnd"] <= pre["ssth"] else "congestion avoidance")
        else:
            what = "duplicate ACK no. %s" % (at["dup"] if at["dup"] <= 3 else ">3")
    elif at["e"] == "X":
        what = "exception " + at["type"]
    else:
        what = {"S": "send", "T": "timeout", "Q": "end of script"}.get(at["e"], at["e"])
    return what, at
