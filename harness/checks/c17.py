"""C17 -- TCPPacketGenerator's window law (TCPReno / TCPCubic) against spec/tcp/TcpSender.tla."""
import json
import re
from ..vlib import core

RULE = ("ACK histories emitted by the exhaustive TLC runs of TcpSenderMC (every history of new ACKs, duplicate ACKs and "
        "timer expiries within the bounds, exact rationals) plus seeded random longer histories, each replayed open-loop "
        "on the real TCPPacketGenerator (scripted put(ack) calls, retransmission timers fired by letting time pass) and "
        "validated step by step from the logged pre-state; a scenario is non-trivial when it contains a third duplicate "
        "ACK, further duplicates, a new ACK that ends fast recovery, a new ACK after one or two duplicates, a Reno "
        "congestion-avoidance ACK, a multi-segment ACK, a retransmission timeout (also inside fast recovery, also backing off beyond "
        "60 s), repeats of the latest ACK while nothing is outstanding, a send "
        "limited by the flow's buffered data, an application-limited flow (data handed over chunk by chunk while the sender "
        "sleeps: a timeout / third duplicate while it waits, a send right after data arrived, data meeting a closed window), "
        "or a CUBIC congestion-avoidance ACK (counted / growing); distinct = "
        "distinct scenarios")

MSS = 512
DEN = 8


def from_history(ctx, h):
    """A TLC-emitted history (MSS = M bytes, RTT samples as rationals of a second) as a driver scenario."""
    rng = ctx.rng
    cfg = h["cfg"]
    ev = []
    chunks = [e["k"] * MSS for e in h["hist"] if e["op"] == "P"]
    for e in h["hist"]:
        if e["op"] == "P":
            continue
        if e["op"] == "A":
            ev.append({"op": "A", "dt": rng.choice([0, 1, 1, 2]), "k": e["k"], "rtt": e["rn"] * DEN // e["rd"],
                       "late": rng.choice([0, 0, 1])})
        elif e["op"] == "D":
            ev.append({"op": "D", "dt": rng.choice([0, 0, 1]), "late": rng.choice([0, 0, 1]), "idle": 1})
        else:
            ev.append({"op": "W", "dt": rng.choice([2, 3, 5]) * DEN})
    sc = {"cc": cfg["cc"], "cwnd": cfg["cw0"] * MSS, "ssthresh": min(cfg["ss0"] * MSS, 65535), "rtt0": DEN, "den": DEN,
          "size": 0, "ev": ev, "src": "tlc"}
    if chunks:
        # the application hands over these chunks; how far apart is the application's business
        sc["chunks"] = chunks + [MSS]
        sc["gaps"] = [rng.choice([1, 2, DEN // 2, DEN, 2 * DEN]) for _ in chunks] + [DEN]
        sc["rtt0"] = rng.choice([DEN, DEN // 2, 3 * DEN // 4])
    return sc


def random_app_limited(ctx):
    """An application-limited flow (Flow.arrival_dist / size_dist): the sender sleeps in its refill loop while ACKs,
    duplicate ACKs and retransmission timeouts change the window."""
    rng = ctx.rng
    den = rng.choice([8, 8, 64])
    cubic = rng.random() < 0.15
    n = rng.randint(3, 10 if ctx.quick else 30)
    gap = rng.choice([den // 2, den, den, 2 * den, 3 * den])
    gaps = [rng.choice([gap, gap, gap // 2 or 1, 2 * gap]) for _ in range(rng.randint(1, 6))]
    chunks = [rng.choice([MSS, MSS, MSS, 2 * MSS, 3 * MSS, 700, 300]) for _ in range(rng.randint(1, 6))]
    ev = []
    while len(ev) < n:
        r = rng.random()
        if r < 0.4:
            ev.append({"op": "W", "dt": rng.choice([gap // 2 or 1, gap, gap + 1, 2 * gap, 3 * gap, 5 * gap])})
        elif r < 0.75:
            ev.append({"op": "A", "dt": rng.choice([0, 1, gap // 2, gap, gap + 1]), "k": rng.choice([1, 1, 2, 3]),
                       "rtt": rng.choice([-1, 1, den // 2, den]), "late": rng.choice([0, 0, 1])})
        else:
            idle = rng.choice([0, 1, 1])
            for _ in range(rng.choice([1, 2, 3, 3, 4, 5])):
                ev.append({"op": "D", "dt": rng.choice([0, 0, 1, gap // 2]), "late": rng.choice([0, 0, 1]), "idle": idle})
    return {"cc": "cubic" if cubic else "reno", "cwnd": rng.choice([1024, 1536, 2048, 2048, 4096, 8192]),
            "ssthresh": rng.choice([0, 1024, 2048, 4096, 65535]), "rtt0": rng.choice([den // 2, 3 * den // 4, den, den // 4]),
            "den": den, "size": 0, "gaps": gaps, "chunks": chunks, "ev": ev, "src": "random-app"}


def long_ca(ctx):
    """Hundreds of ACKs in Reno congestion avoidance with an unbounded source: cwnd creeps through every residue modulo
    MSS (a guard that is off by a fraction of a byte shows only at particular window values)."""
    rng = ctx.rng
    n = rng.choice([700, 900]) if ctx.quick else rng.choice([900, 1300])
    ev = [{"op": "A", "dt": 1, "k": 1, "rtt": -1, "late": 0} for _ in range(n)]
    return {"cc": "reno", "cwnd": rng.randint(1100, 4000), "ssthresh": 1024, "rtt0": 8, "den": 8, "size": 0,
            "ev": ev, "cap": 3 * n + 50, "src": "long-ca"}


def random_history(ctx):
    rng = ctx.rng
    cubic = rng.random() < 0.3
    den = rng.choice([8, 8, 64])
    n = rng.randint(3, 12 if ctx.quick else 40)
    if cubic:
        cwnd, ssth = 512, 65535
    else:
        cwnd = rng.choice([512, 512, 1024, 1536, 2048, 4096, 700, 5000, 8192])
        ssth = rng.choice([0, 512, 1024, 1024, 2048, 3000, 4096, 8192, 20000, 65535])
    style = rng.choice(["mixed", "mixed", "acks", "loss", "slow", "blackout"])
    ev = []
    if cubic:
        # TCPCubic starts in slow start below 65535: get it into congestion avoidance through a loss first
        ev += [{"op": "A", "dt": 1, "k": 1, "rtt": den // 2, "late": 0} for _ in range(rng.randint(0, 4))]
        ev += [{"op": "D", "dt": 0, "late": 0} for _ in range(rng.randint(3, 5))]
    if cubic and rng.random() < 0.6:
        # a long epoch: large RTT samples first (so that the timers are long), a loss, then ACKs seconds apart
        ev = [{"op": "A", "dt": 1, "k": 1, "rtt": rng.choice([10, 20, 30]) * den, "late": 0} for _ in range(rng.randint(1, 3))]
        ev += [{"op": "D", "dt": 0, "late": 0} for _ in range(rng.randint(3, 4))]
        while len(ev) < n + 4:
            ev.append({"op": "A", "dt": rng.choice([0, 1, den // 2, den, 2 * den, 3 * den, 5 * den]), "k": rng.choice([1, 1, 2]),
                       "rtt": rng.choice([-1, den // 2, den, 10 * den, 20 * den]), "late": rng.choice([0, 0, 1])})
    while len(ev) < n:
        r = rng.random()
        small = rng.choice([0, 0, 1, 1, 2, den // 4, den // 2])
        if style == "slow":
            small = rng.choice([den, 2 * den, 3 * den, 5 * den])
        if r < (0.75 if style == "acks" else 0.45):
            ev.append({"op": "A", "dt": small, "k": rng.choice([1, 1, 1, 2, 3, 8]),
                       "rtt": rng.choice([-1, -1, 1, 2, den // 8, den // 2, den, den + 3, 3 * den]),
                       "late": rng.choice([0, 0, 1])})
        elif r < (0.8 if style == "acks" else 0.85 if style == "loss" else 0.75):
            idle = rng.choice([0, 1])
            for _ in range(rng.choice([1, 1, 2, 2, 3, 3, 4, 5, 7])):
                ev.append({"op": "D", "dt": rng.choice([0, 0, 0, 1]), "late": rng.choice([0, 0, 1]), "idle": idle})
        else:
            ev.append({"op": "W", "dt": rng.choice([den, 2 * den, 3 * den, 5 * den, 9 * den, 20 * den])})
    if style == "blackout" and not cubic:
        # nothing comes back for a long time: the timer backs off again and again (2, 4, 8, 16, 32, 64 s ...)
        k = rng.randint(0, len(ev))
        ev[k:k] = [{"op": "W", "dt": rng.choice([10, 20, 20, 40]) * den} for _ in range(rng.randint(3, 7))]
    size = rng.choice([0, 0, 0, 3, 5, 8, 20]) * MSS
    if size and rng.random() < 0.3:
        size += rng.choice([1, 100, 511])
    sc = {"cc": "cubic" if cubic else "reno", "cwnd": cwnd, "ssthresh": ssth,
          "rtt0": rng.choice([den, den, den // 2, 2 * den, den // 8]), "den": den, "size": size, "ev": ev[:n + 6],
          "src": "random"}
    if not cubic and rng.random() < 0.2:
        # timer retransmissions are acknowledged inside out.put(); a bounded flow, so that the chain of expiring timers,
        # echoed ACKs and newly opened windows ends
        sc["echo"] = 1
        sc["size"] = rng.choice([3, 5, 8, 12]) * MSS
        sc["ev"] = sc["ev"][:16]
    return sc


def classify(ctx, sc, tr):
    kinds = set()
    pre = tr["cfg"]
    cubic = sc["cc"] == "cubic"
    for e in tr["ev"]:
        if e["e"] == "A":
            if e["ackno"] > pre["la"]:
                ca = pre["cwnd"] > pre["ssth"] and pre["dup"] < 3
                if pre["dup"] >= 3:
                    kinds.add("new_ack_ends_fast_recovery")
                elif pre["dup"] > 0:
                    kinds.add("new_ack_after_one_or_two_duplicates")
                if ca:
                    kinds.add("cubic_ca_ack" if cubic else "reno_ca_ack")
                    if cubic and e["cwnd"] > pre["cwnd"]:
                        kinds.add("cubic_ca_growth")
                else:
                    kinds.add("slow_start_ack")
                if e["ackno"] - pre["la"] > MSS:
                    kinds.add("multi_segment_ack")
                if not e["tx"]:
                    kinds.add("estimator_beyond_exact_fixed_point")
            elif e["dup"] == 3:
                kinds.add("third_duplicate")
                if pre["la"] >= pre["ns"]:
                    kinds.add("third_duplicate_with_nothing_outstanding")
                if sc.get("gaps") and pre["ns"] >= pre["buf"]:
                    kinds.add("third_duplicate_while_waiting_for_application_data")
            elif e["dup"] > 3:
                kinds.add("further_duplicate")
        elif e["e"] == "T":
            kinds.add("timeout")
            if pre["rto"] > 30 * (1 << 20):
                kinds.add("timeout_backing_off_beyond_60s")
            if sc.get("gaps") and pre["ns"] >= pre["buf"]:
                kinds.add("timeout_while_waiting_for_application_data")
            if pre["dup"] >= 3:
                kinds.add("timeout_in_fast_recovery")
            if e["seq"] < pre["la"]:
                kinds.add("timeout_of_acknowledged_segment")
        elif e["e"] == "S":
            if sc.get("gaps") and e["buf"] > pre["buf"]:
                kinds.add("send_right_after_application_data")
            if e["ns"] + MSS - e["la"] == e["cwnd"] // 1024 and e["cx"]:
                kinds.add("send_fills_window_exactly")
        if e["e"] == "A" and e["ackno"] == pre["la"] and pre["la"] >= pre["ns"]:
            kinds.add("duplicate_with_nothing_outstanding")
        if sc.get("gaps") and e["buf"] > pre["buf"] and e["e"] != "S":
            kinds.add("application_data_meets_closed_window")
        if e["e"] == "Q":
            if sc["size"] and e["ns"] + MSS > sc["size"] and (e["ns"] + MSS - e["la"]) * 1024 <= e["cwnd"]:
                kinds.add("send_limited_by_buffered_data")
        pre = e
    for k in kinds:
        ctx.count(k)
    return kinds


def signature(tr, pos):
    ev = tr["ev"]
    at = ev[pos - 1] if pos - 1 < len(ev) else None
    if at is None:
        return "end", None
    pre = ev[pos - 2] if pos >= 2 else tr["cfg"]
    if at["e"] == "A":
        if at["ackno"] > pre["la"]:
            what = "new ACK (dupack was %s, %s)" % ("0" if pre["dup"] == 0 else "1-2" if pre["dup"] < 3 else ">=3",
                                                    "slow start" if pre["cwnd"] <= pre["ssth"] else "congestion avoidance")
        else:
            what = "duplicate ACK no. %s" % (at["dup"] if at["dup"] <= 3 else ">3")
    elif at["e"] == "X":
        what = "exception " + at["type"]
    else:
        what = {"S": "send", "T": "timeout", "Q": "end of script"}.get(at["e"], at["e"])
    return what, at


ACTS = ("DoSend", "EnvNewAck", "EnvDupAck", "EnvTimeout")


def mc_jobs(ctx):
    def cfg(name):
        return open(core.tlc.SPEC + "/tcp/TcpSenderMC_%s.cfg" % name).read()

    def sub(text, **kv):
        for k, v in kv.items():
            text, n = re.subn(r"\b%s = \S+" % k, "%s = %s" % (k, v), text)
            if n != 1:
                raise core.Machinery("constant %s not found in a TcpSenderMC configuration" % k)
        return text

    if ctx.quick:
        return [("reno", cfg("reno"), ACTS, 6), ("lazy", cfg("lazy"), ACTS, 2), ("cubic", cfg("cubic"), ACTS + ("EnvTick",), 2),
                ("app", cfg("app"), ACTS + ("EnvAppData",), 6)]
    noemit = cfg("reno").replace("CONSTRAINT Emit\n", "VIEW NoHist\n")
    return [("reno", cfg("reno"), ACTS, 4),
            ("reno 8 events", sub(noemit, MaxEv=8, MaxSeg=6), ACTS, 6),
            ("reno 3 samples", sub(noemit, MaxEv=6, Tier='"renoT"'), ACTS, 4),
            ("lazy 5 events", sub(cfg("lazy"), MaxEv=5), ACTS, 4),
            ("cubic 6 events", sub(cfg("cubic"), MaxEv=6), ACTS + ("EnvTick",), 4),
            ("app 4 events", sub(cfg("app"), MaxEv=4), ACTS + ("EnvAppData",), 6)]


def mc_all(ctx):
    """The exhaustive runs are independent: side by side, each accounted in a private context (as in c11)."""
    from concurrent.futures import ThreadPoolExecutor
    jobs = mc_jobs(ctx)

    def one(job):
        label, cfg, acts, workers = job
        s = core.Ctx(ctx.pid, ctx.tier, ctx.seed)
        r = s.mc("TcpSenderMC", cfg, "tcp", required_actions=acts, label="TcpSenderMC/" + label, timeout=3000, workers=workers)
        em = r.emitted()
        r.out = ""
        r.prints = []
        return s, em

    with ThreadPoolExecutor(max_workers=len(jobs)) as ex:
        done = list(ex.map(one, jobs))
    emitted = []
    for s, em in done:
        ctx.states += s.states
        ctx.transitions += s.transitions
        ctx.exhaustive = ctx.exhaustive and s.exhaustive
        ctx.notes += s.notes
        ctx.mc_runs += s.mc_runs
        for a, (d, t) in s.actions.items():
            od, ot = ctx.actions.get(a, (0, 0))
            ctx.actions[a] = (od + d, ot + t)
        emitted += em
    return emitted


def run(ctx, replay=None):
    if replay:
        obj = json.load(open(replay))
        scs = [obj["scenario"]]
    else:
        seen = {}
        for h in mc_all(ctx):
            seen.setdefault(json.dumps(h, sort_keys=True), h)
        emitted = [seen[k] for k in sorted(seen)]
        if not emitted:
            raise core.Machinery("TcpSenderMC emitted no history")
        ctx.extra["histories_emitted_by_tlc"] = len(emitted)
        ctx.rng.shuffle(emitted)
        n_emit = 900 if ctx.quick else 20000
        n_rand = 1000 if ctx.quick else 60000
        scs = [from_history(ctx, h) for h in emitted[:n_emit]]
        scs += [random_history(ctx) for _ in range(n_rand)]
        scs += [random_app_limited(ctx) for _ in range(n_rand // 2)]
        scs += [long_ca(ctx) for _ in range(30 if ctx.quick else 120)]
    traces = ctx.drive("tcpsender", scs, procs=12)
    stuck = ctx.validate("TcpSenderTrace", "TcpSenderTrace.cfg", "tcp", traces, shard=max(60, len(traces) // 16 + 1))
    distinct = set()
    for i, (sc, tr) in enumerate(zip(scs, traces)):
        key = json.dumps(sc, sort_keys=True)
        if key in distinct:
            continue
        distinct.add(key)
        if i in stuck:
            what, at = signature(tr, stuck[i])
            ctx.violation("tcpsender_trace", sc, tr, "trace rejected at event %d (%s): %s" % (stuck[i], what, json.dumps(at)),
                          sig="%s: no spec step matches %s" % (sc["cc"], what))
        else:
            classify(ctx, sc, tr)
            if i % 499 == 0:
                ctx.sample({"scenario": sc, "trace_events": tr["ev"][:10]})
    ctx.extra["distinct_scenarios"] = len(distinct)
    if not replay and not ctx.violations:
        for k in ("third_duplicate", "further_duplicate", "new_ack_ends_fast_recovery", "new_ack_after_one_or_two_duplicates",
                  "reno_ca_ack", "slow_start_ack", "multi_segment_ack", "timeout", "timeout_in_fast_recovery",
                  "send_limited_by_buffered_data", "cubic_ca_ack", "timeout_while_waiting_for_application_data",
                  "send_right_after_application_data", "application_data_meets_closed_window"):
            if not ctx.nontrivial.get(k):
                raise core.Machinery("vacuity: no replayed scenario of kind %s" % k)
    return ctx.finish(RULE, assumptions=[
        "MSS = 512 (fixed in TCPPacketGenerator); instants, delays and RTT samples on a 1/8 or 1/64 s lattice; initial cwnd >= MSS",
        "numbers are logged as fixed point (2^-10 byte, 2^-20 s) with an exactness flag and every step is validated from the "
        "logged pre-state: equal where the arithmetic is exact, otherwise within the enclosure computed by interval arithmetic "
        "(at most 5 units = 0.005 byte for a Reno congestion-avoidance step); a comparison the rounding leaves undecided admits "
        "both branches; float rounding in the last bit is not decided",
        "WHEN a retransmission timer fires, and for which sent segment, is not part of C17 (C16 / C19): a timeout is accepted "
        "for any segment sent so far and only its effect (cwnd = MSS, that segment retransmitted, RTO doubled) is checked",
        "left open because the property is silent: whether a timeout also lowers ssthresh / clears the duplicate count, whether "
        "the 4th, 5th, ... duplicate retransmits the missing segment again, how soon an open window is used (safety only)",
        "duplicate ACKs are delivered only while data is outstanding; no ACK below last_ack or above next_seq is delivered",
        "CUBIC: the epoch state (W_last_max, epoch_start, origin_point, d_min, W_tcp, K, ack_cnt, cwnd_cnt, cnt) is public and "
        "bound to the published algorithm (C = 0.4, beta = 0.2) as the class applies it to cwnd in bytes; the cube is enclosed "
        "from 2^-12 s (above 8 s: 2^-8 s) roundings of the elapsed time, cnt is compared in 1/16 capped at 2^20; the branch that needs a cube root (cwnd < W_last_max) "
        "is unreachable from the defaults because no rule of the property sets W_last_max"])


if __name__ == "__main__":
    core.main(run, "C17")
