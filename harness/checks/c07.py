"""C07 -- Container / Store / PriorityStore / FilterStore: SimKernel.tla (resource section) vs onl.sim.resources."""
from ..vlib import core
from . import kernlib, reslib

RULE = ("every history TLC enumerates within the bounds (processes x ops over put / get / cancel / sleep / yield on a container (capacity 3, "
        "level 2, amounts 1-2) and on stores of capacity 1-2 with unique items and filters) is executed on the real classes, driven step "
        "by step, and the log (items and grant instants received, level/items/queue lengths after every kernel step) compared with the "
        "specification's; plus generated longer histories validated by TLC. non-trivial as in C06")


def run(ctx, replay=None):
    if replay:
        return kernlib.replay(ctx, replay)
    q = ctx.quick
    runs = []
    for name in ("cont", "store1", "pstore2", "fstore2"):
        over = ({"MaxEv = 11": "MaxEv = 9"} if name in ("cont", "fstore2") else {"MaxEv = 11": "MaxEv = 10"}) if q else {}
        if name != "cont":
            over['ResName = "cont"'] = 'ResName = "%s"' % name
        if q and name in ("store1", "fstore2"):
            over["ItemPrios = {0, 1}"] = "ItemPrios = {0}"
        runs.append({"cfgname": "ResMC_c07.cfg", "over": over, "label": "ResMC/" + name + (" quick" if q else " ev11")})
    if not q:
        runs.append({"cfgname": "ResMC_c07.cfg", "over": {'ResName = "cont"': 'ResName = "contbig"', "Amounts = {1, 2}": "Amounts = {1, 3}"},
                     "label": "ResMC/contbig"})
        runs.append({"cfgname": "ResMC_c07.cfg", "label": "ResMC/store2 3x2",
                     "over": {'ResName = "cont"': 'ResName = "store2"', "NProc = 2": "NProc = 3", "MaxOps = 3": "MaxOps = 2", "MaxEv = 11": "MaxEv = 13"}})
    kernlib.mc_replay_many(ctx, runs, parallel=4, module="ResMC", limit=12000 if q else 150000)
    reslib.gen_histories(ctx, 1200 if q else 20000, "store", "generated-containers-stores")
    return ctx.finish(RULE)


if __name__ == "__main__":
    core.main(run, "C07")
