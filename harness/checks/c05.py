"""C05 -- condition events: SimKernel.tla vs the real kernel."""
from ..vlib import core
from . import kernlib

RULE = ("every program TLC enumerates within the bounds (all_of/any_of over timeouts, shared events, processes and other conditions, "
        "empty operand lists, operands already processed, operand failures) replayed on the real kernel, logs compared (resume instants, "
        "ConditionValue keys in order, exceptions); plus generated programs with condition trees up to depth 3, with and without probes, "
        "validated by TLC. non-trivial as in C01 plus programs delivering a condition value")
KINDS = {"timeout": 4, "sleep": 2, "event": 3, "succeed": 3, "fail": 1.5, "cond": 5, "yield": 5, "spawn": 1.5, "condforeign": 0.2,
         "interrupt": 0.8}


def O(k, a=0, b=0, c=0, s=()):
    return {"k": k, "a": a, "b": b, "c": c, "s": list(s)}


# F19b regression history (late waiter on an anonymous nested condition), always executed
LATE_WAITER = {"scripts": [[O("spawn"), O("run")],
                           [O("timeout", 1), O("timeout", 2), O("timeout", 3), O("cond", 1, 0, 0, [4, 5]), O("cond", 0, 1, 0, [3, 6]),
                            O("yield", 7, 0, 1), O("sleep", 5, 0, 1), O("yield", 6, 0, 1), O("return")]]}


def run(ctx, replay=None):
    if replay:
        return kernlib.replay(ctx, replay)
    kernlib.fixed_programs(ctx, [LATE_WAITER], orphan_finding="F19b", label="late-waiter")
    if ctx.quick:
        kernlib.mc_replay(ctx, "KernelMC_c05.cfg", {"MaxOps = 3": "MaxOps = 4", "MaxEv = 7": "MaxEv = 8"}, label="KernelMC/c05 2x4")
        # the same event listed twice among the operands (ev & ev, overlapping lists)
        kernlib.mc_replay(ctx, "KernelMC_c05.cfg", {'"cond", "yield"': '"conddup", "yield"'}, label="KernelMC/c05 2x3 duplicate operands")
        kernlib.gen_validate(ctx, 1500, KINDS)
        kernlib.gen_validate(ctx, 800, dict(KINDS, condnoprobe=4), plan_kinds={"run": 1, "step": 3}, max_plan=6,
                             orphan_finding="F19b", label="generated-unprobed-conditions")
    else:
        kernlib.mc_replay(ctx, "KernelMC_c05.cfg", {"MaxOps = 3": "MaxOps = 4", "MaxEv = 7": "MaxEv = 7", "MaxKids = 2": "MaxKids = 3"},
                          label="KernelMC/c05 2x4 kids3")
        kernlib.mc_replay(ctx, "KernelMC_c05.cfg", {'"cond", "yield"': '"cond", "conddup", "yield"', "MaxOps = 3": "MaxOps = 4"},
                          label="KernelMC/c05 2x4 duplicate operands", limit=300000)
        # beyond the exhaustive bound: random deep behaviours of the same specification (TLC -simulate), replayed likewise
        kernlib.mc_replay(ctx, "KernelMC_c05.cfg", {"MaxProc = 2": "MaxProc = 3", "MaxOps = 3": "MaxOps = 5", "MaxEv = 7": "MaxEv = 16", "MaxKids = 2": "MaxKids = 3"},
                          label="KernelMC/c05 simulate 4 procs x 4-5 ops", simulate=4000, depth=400)
        kernlib.gen_validate(ctx, 20000, KINDS)
        kernlib.gen_validate(ctx, 10000, dict(KINDS, condnoprobe=4), plan_kinds={"run": 1, "step": 3}, max_plan=6,
                             orphan_finding="F19b", label="generated-unprobed-conditions")
    return ctx.finish(RULE)


if __name__ == "__main__":
    core.main(run, "C05")
