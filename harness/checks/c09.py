"""C09 -- Port / REDPort / PortMonitor against spec/net/Port.tla."""
import json
from ..vlib import core

RULE = ("workloads emitted by the exhaustive TLC run of PortMC (every arrival pattern within the bounds) plus "
        "seeded random lattice workloads, each replayed on the real Port/REDPort; a scenario is non-trivial when "
        "it contains a drop, a same-instant burst, an arrival at a departure instant, a RED draw or a monitor sample "
        "taken while a packet is in service; distinct = distinct (cfg, workload, monitor) triples")


def decorate(ctx, w, mon_p=0.5):
    rng = ctx.rng
    arr = []
    for a in w["arr"]:
        arr.append({"t": a["t"], "sz": a["sz"], "src": rng.choice([0, 1, 1, 2]), "un": a.get("un", -1), "ud": a.get("ud", 1)})
    # closed-loop arrivals: handed in a few zero-delay steps after the k-th departure (inside the instant of a departure)
    for _ in range(rng.choice([0, 0, 0, 1, 2])):
        arr.append({"t": -1, "after": [rng.randint(1, max(1, len(arr))), rng.choice([0, 0, 1, 1, 2, 3])], "sz": rng.choice([1, 2, 3]),
                    "un": rng.choice([0, 1, 3]), "ud": 4})
    sc = {"cfg": w["cfg"], "arr": arr, "elid": rng.choice(["p1", "east-3"])}
    if rng.random() < mon_p:
        sc["mon"] = {"incl": rng.choice([0, 1]), "gaps": [rng.choice([0, 1, 1, 2, 3]) for _ in range(rng.randint(1, 6))]}
    if rng.random() < 0.12:
        sc["t0"] = rng.choice([-50, -7, 3, 100])        # the environment's clock does not start at 0
    if rng.random() < 0.15:
        sc["tscale"] = rng.choice([-40, -33, 20, 30])   # the same scenario in another time unit (tick = 2**e s)
    if rng.random() < 0.08:
        # the port is the last element of the path (out = None / never assigned): only counters and samples are seen
        sc["noout"] = rng.choice([1, 2])
        sc["arr"] = [a for a in sc["arr"] if "after" not in a]
        sc["mon"] = {"incl": rng.choice([0, 1]), "gaps": [rng.choice([0, 1, 1, 2, 3]) for _ in range(rng.randint(3, 8))]}
    return sc


def random_workload(ctx, red):
    rng = ctx.rng
    if red:
        mode = rng.choice([1, 2])
        w = rng.choice([1, 2, 1, 2, 0])          # gain 2^-w; w = 0: the average IS the current queue length
        if mode == 2:
            lo = rng.choice([0, 1, 2]); hi = lo + rng.choice([1, 2, 4, 0]); ql = hi + rng.choice([0, 1, 2])   # (equal thresholds: no ramp)
            if rng.random() < 0.2:
                ql = max(1, rng.choice([lo, lo + 1, hi - 1]))        # hard limit below the maximum threshold
        else:
            lo = rng.choice([1, 2, 4]); hi = lo + rng.choice([2, 4, 8, 0]); ql = hi + rng.choice([0, 2, 4])
            if rng.random() < 0.2:
                ql = max(1, rng.choice([lo, lo + 1, hi - 1]))
        pn, pd = rng.choice([(1, 2), (1, 4), (1, 1), (3, 4)])
        cfg = {"mode": mode, "qlimit": ql, "K": rng.choice([0, 1, 2, 4]), "red": 1, "minth": lo, "maxth": hi,
               "pn": pn, "pd": pd, "w": w}
        n = rng.randint(2, 12 // max(w, 1))
    else:
        mode = rng.choice([0, 1, 1, 2, 2])
        ql = 0 if mode == 0 else (rng.choice([1, 2, 3, 5, 8, 12]) if mode == 1 else rng.choice([1, 2, 3, 4]))
        cfg = {"mode": mode, "qlimit": ql, "K": rng.choice([0, 1, 1, 2, 4]), "red": 0, "minth": 0, "maxth": 0,
               "pn": 0, "pd": 1, "w": 0}
        n = rng.randint(2, 14)
    t = 0
    arr = []
    zero = rng.random() < 0.2             # some workloads contain zero-size packets (legal: they take a place, no bytes, no time)
    for _ in range(n):
        t += rng.choice([0, 0, 0, 1, 1, 2, 3, 5, 8])
        d = rng.choice([(0, 1), (1, 8), (1, 4), (3, 8), (1, 2), (5, 8), (3, 4), (1, 1)])
        arr.append({"t": t, "sz": 0 if (zero and rng.random() < 0.3) else rng.choice([1, 1, 2, 3, 4, 6]), "un": d[0], "ud": d[1]})
    return {"cfg": cfg, "arr": arr}


def classify(ctx, sc, tr):
    ev = tr["ev"]
    kinds = set()
    last = None
    for i, e in enumerate(ev):
        if e["e"] == "A":
            if i and ev[i - 1]["e"] == "A" and ev[i - 1]["t"] == e["t"]:
                kinds.add("burst")
            if any(o["e"] == "D" and o["t"] == e["t"] for o in ev[max(0, i - 3):i + 4]):
                kinds.add("arrival_at_departure_instant")
            if last is not None and e["drops"] > last:
                kinds.add("drop")
            last = e["drops"]
            if e["un"] >= 0:
                kinds.add("red_draw")
        if e["e"] == "S" and e["busy"]:
            kinds.add("sample_in_service")
    for k in kinds:
        ctx.count(k)
    if kinds:
        ctx.count_case()
    return kinds


def run(ctx, replay=None):
    if replay:
        obj = json.load(open(replay))
        scs = [obj["scenario"]]
    else:
        big = not ctx.quick
        cfg_tail = open(core.tlc.SPEC + "/net/PortMC_tail.cfg").read()
        cfg_red = open(core.tlc.SPEC + "/net/PortMC_red.cfg").read()
        if big:
            cfg_tail = cfg_tail.replace("MaxPk = 4", "MaxPk = 5")
            cfg_red = cfg_red.replace("MaxPk = 4", "MaxPk = 5").replace("MaxT = 3", "MaxT = 4")
        acts = ("EnvArrive", "EnvTick", "DoFetch", "DoBegin", "DoDepart")
        r1 = ctx.mc("PortMC", cfg_tail, "net", required_actions=acts, label="PortMC/tail", timeout=3000)
        r2 = ctx.mc("PortMC", cfg_red, "net", required_actions=acts, label="PortMC/red", timeout=3000)
        seen = set()
        emitted = []
        for r in (r1, r2):
            for w in r.emitted():
                k = json.dumps(w, sort_keys=True)
                if k not in seen:
                    seen.add(k)
                    emitted.append(w)
        ctx.extra["workloads_emitted_by_tlc"] = len(emitted)
        n_emit = 3000 if ctx.quick else 60000
        n_rand = 2000 if ctx.quick else 40000
        emitted.sort(key=lambda w: json.dumps(w, sort_keys=True))
        ctx.rng.shuffle(emitted)
        scs = [decorate(ctx, w) for w in emitted[:n_emit]]
        scs += [decorate(ctx, random_workload(ctx, red=(i % 3 == 0))) for i in range(n_rand)]
    traces = ctx.drive("port", scs, procs=12)
    stuck = ctx.validate("PortTrace", "PortTrace.cfg", "net", traces, shard=500)
    distinct = set()
    for i, (sc, tr) in enumerate(zip(scs, traces)):
        key = json.dumps(sc, sort_keys=True)
        if key in distinct:
            continue
        distinct.add(key)
        if i in stuck:
            pos = stuck[i]
            ev = tr["ev"]
            at = ev[pos - 1] if pos - 1 < len(ev) else None
            ctx.violation("port_trace", sc, tr, "trace rejected at event %d: %s" % (pos, json.dumps(at)))
        else:
            classify(ctx, sc, tr)
            if i % 997 == 0:
                ctx.sample({"scenario": sc, "trace_events": tr["ev"][:12]})
    ctx.extra["distinct_scenarios"] = len(distinct)
    return ctx.finish(RULE, assumptions=[
        "instants, sizes and rates on an integer lattice (rate = 8/K bit/s, K ticks per byte); float rounding off the lattice is not decided",
        "RED decisions are checked as the threshold function of one scripted uniform draw; frequencies are not examined",
        "state between Fetch and Begin (packet taken from the store, transmission not yet begun) may be reported either way by a monitor sample"])


if __name__ == "__main__":
    core.main(run, "C09")
