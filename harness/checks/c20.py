"""C20 -- RealtimeEnvironment: pacing never runs ahead of the wall clock and alters no result.

Part 1 (alters no result): kernel programs (generated on the fly, as in C01-C05) are executed on Environment and on
RealtimeEnvironment under a scripted virtual wall clock; the two logs must be equal, and the RealtimeEnvironment log is
validated by TLC against SimKernel (KernelTrace) for initial_time 0.
Part 2 (pacing): spec/misc/Realtime.tla; RealtimeMC checks the clauses exhaustively and emits wall-clock schedules;
every monotonic()/sleep() call, body run, sync() and step() outcome of the real code is validated by RealtimeTrace.
"""
import json
import os
import re
from ..vlib import core, tlc
from . import kernlib

RULE = ("wall-clock schedules emitted by the exhaustive TLC runs of RealtimeMC (sleeps returning early / exactly / late / late by "
        "exactly and by more than factor, bodies and gaps consuming 0, 1/4, k*factor, k*factor + 1/4, sync() between steps and "
        "from bodies, repeated step() after a raise; factor 1/2, 1, 2; strict and non-strict; initial_time 0 and 5) plus seeded "
        "random longer schedules over top-level timeouts and over generated kernel programs (processes, shared events, "
        "interrupts, conditions, run / run(until) / step plans), each replayed on the real RealtimeEnvironment under a virtual "
        "monotonic()/sleep() pair; the wall-clock trace is validated by TLC against Realtime.tla, the kernel log is compared "
        "with the log of a plain Environment and validated by TLC against SimKernel.  non-trivial = scenario in which a strict "
        "raise occurs, the lag on turning equals factor exactly, a sleep returns early or late (also by more than factor), a "
        "sync() re-bases a drifted origin (from the top level or from a body), a raise is followed by a successful step, or "
        "the run is late in non-strict mode; counted per scenario and kind")

WORKERS = 8
JVMS = 10       # concurrent trace-validation JVMs (other checks share the machine)
Z = {"a": 0, "b": 0, "c": 0, "s": []}
KINDS = {"sleep": 5, "timeout": 1, "event": 2, "succeed": 2, "fail": 0.5, "spawn": 2, "yield": 4, "interrupt": 1, "cond": 1}
PLAN = {"run": 2, "step": 3, "rununtil": 3, "runev": 1}
MC_ACTIONS = ["MTurnOk", "MTurnRaise", "MRaised", "MSleep", "MBegin", "MWork", "MSyncBody", "MEnd", "MGap", "MSyncTop"]
REQUIRED = ["strict_raise", "lag_equals_factor_not_raised", "sleep_returns_early", "sleep_returns_late",
            "sleep_late_by_more_than_factor", "sync_rebases_drifted_origin", "sync_from_body", "raise_then_step_succeeds",
            "late_in_nonstrict_mode", "initial_time_nonzero", "tlc_schedule_reproduced_exactly"]


def op(k, a=0):
    return dict(Z, k=k, a=a)


# ------------------------------------------------------------------------------------------------ scenarios
def from_history(h):
    """A schedule emitted by RealtimeMC -> driver scenario: one top-level timeout per agenda instant (exactly one kernel
    step and one probe-callback run each), one step() per turn, the wall-clock schedule aligned with them."""
    cfg, agenda, hist = h["cfg"], h["agenda"], h["hist"]
    plan = [op("timeout", t - cfg["t0"]) for t in agenda]
    gaps = [[0, 0] for _ in plan]
    sleeps, work = [], []
    pre = [0, 0]                 # gap before the coming turn
    cur = None                   # work entry of the step in progress
    for e in hist:
        k = e["k"]
        if k == "G":
            pre[0] = e["c"]
        elif k == "SY" and e["t"] == 0:
            pre[1] = 2 if pre[0] else 1
        elif k in ("T", "TR"):
            plan.append(op("step"))
            gaps.append(pre)
            pre = [0, 0]
            cur = [0, 0, False]
        elif k == "SL":
            sleeps.append(e["a"] - e["d"])
        elif k == "SY":
            cur[1] = 2 if cur[2] else 1
        elif k == "W":
            cur[0] = e["c"]
            cur[2] = True
        elif k == "E":
            work.append(cur[:2])
    sc = {"prog": {"scripts": [plan]},
          "rt": dict(cfg, sleep=sleeps or [0], work=work or [[0, 0]], gaps=gaps),
          "expect": [[e["k"], e["t"], e["d"], e["a"], e["c"]] for e in hist], "origin": "tlc"}
    return sc


def observed(tr):
    """The recorded trace in the vocabulary of RealtimeMC's history."""
    out = []
    ev = tr["ev"]
    for i, e in enumerate(ev):
        k = e["e"]
        if k == "ST" and e["t"] != -1:
            nxt = next((x for x in ev[i + 1:] if x["e"] not in ("M",)), None)
            out.append(["TR" if nxt and nxt["e"] == "X" and nxt["slow"] == 1 else "T", e["t"], 0, 0, 0])
        elif k == "SL":
            out.append(["SL", cur_t(ev, i), e["d"], e["a"], 0])
        elif k == "B":
            out.append(["W", e["t"], 0, 0, e["c"]])
        elif k == "G":
            out.append(["G", 0, 0, 0, e["c"]])
        elif k == "SY":
            out.append(["SY", 1 if in_step(ev, i) else 0, 0, 0, 0])
        elif k == "K":
            out.append(["E", e["t"], 0, 0, 0])
    return out


def cur_t(ev, i):
    for x in reversed(ev[:i]):
        if x["e"] == "ST":
            return x["t"]
    return -1


def in_step(ev, i):
    for x in reversed(ev[:i]):
        if x["e"] == "ST":
            return True
        if x["e"] in ("K", "X"):
            return False
    return False


def pick_factor(rng):
    return rng.choice([2, 2, 4, 4, 8, 8, 1, 3, 6, 16])


def amount(rng, F, zero=6):
    return rng.choice([0] * zero + [1, 1, 2, F - 1, F, F, F + 1, F + 1, 2 * F, 2 * F + 1, 3 * F, rng.randint(1, 4 * F)])


def random_rt(ctx, nplan, calm=False):
    rng = ctx.rng
    F = pick_factor(rng)
    strict = rng.choice([0, 1])
    zero = 14 if (calm or (strict and rng.random() < 0.6)) else 4
    sl = [rng.choice([0, 0, 0, 0, 0, -1, -2, -F, -1000, 1, 1, F, F + 1, 2 * F + 3]) for _ in range(rng.choice([1, 7, 16]))]
    work = [[amount(rng, F, zero), rng.choice([0] * 12 + [1, 2])] for _ in range(rng.choice([1, 5, 11, 24]))]
    gaps = [[amount(rng, F, zero), rng.choice([0] * 6 + [1, 2])] for _ in range(nplan)]
    rt = {"F": F, "strict": strict, "t0": rng.choice([0, 0, 0, 5, 3]), "w0": rng.randint(0, 400),
          "sleep": sl, "work": work, "gaps": gaps}
    if rng.random() < 0.12:
        # factors of a millisecond and less (on the 15-microsecond grain): lags of a few factors are a few milliseconds
        Fs = rng.choice([16, 64, 64, 256])
        z = 14 if (calm or (strict and rng.random() < 0.6)) else 4
        return {"den": 65536, "minadv": 1, "F": Fs, "strict": strict, "t0": rng.choice([0, 0, 5]), "w0": rng.randint(0, 400000),
                "sleep": [rng.choice([0, 0, 0, -1, 1, Fs, Fs + 1, 2 * Fs + 3]) for _ in range(rng.choice([1, 7]))],
                "work": [[amount(rng, Fs, z), rng.choice([0] * 12 + [1, 2])] for _ in range(rng.choice([1, 5, 11]))],
                "gaps": [[amount(rng, Fs, z), rng.choice([0] * 6 + [1, 2])] for _ in range(nplan)]}
    if rng.random() < 0.35:
        # the same schedule on a 15-microsecond grain: sleeps return, and bodies end, a few units (tens of microseconds)
        # off the due instant -- an occurrence is not to be processed even one unit early
        k = 65536 // 4
        fine = [0, 0, -1, -2, -5, -6, -7, -30, 1, 3]

        def j(x, lo=None):
            y = x * k + rng.choice(fine)
            return y if lo is None else max(lo, y)
        rt.update(den=65536, minadv=1024, F=F * k, w0=j(rt["w0"], 0), sleep=[j(x) if x >= 0 else rng.choice([-1, -2, -5, -6, -7, -30, -k]) for x in sl],
                  work=[[j(c, 0), sy] for c, sy in work], gaps=[[j(c, 0), sy] for c, sy in gaps])
    return rt


def random_pacing(ctx):
    """Longer agendas of top-level timeouts stepped one by one (the shape of the TLC-emitted scenarios, beyond their bounds)."""
    rng = ctx.rng
    n = rng.randint(2, 8 if ctx.quick else 14)
    t = 0
    plan = []
    for _ in range(n):
        t += rng.choice([0, 0, 1, 1, 2, 3])
        plan.append(op("timeout", t))
    tail = []
    for _ in range(n + rng.choice([0, 1, 2, 3])):
        tail.append(op("step"))
    if rng.random() < 0.4:
        cut = rng.randint(0, len(tail))
        tail = tail[:cut] + [op("run")]
    plan += tail
    rt = random_rt(ctx, len(plan))
    for i in range(n):
        rt["gaps"][i] = [0, 0]
    return {"prog": {"scripts": [plan]}, "rt": rt, "origin": "random-agenda"}


def random_program(ctx, seed):
    g = {"max_procs": 4, "max_ops": 6, "max_events": 24, "max_plan": 5, "delays": [0, 0, 1, 1, 2, 3], "catch": [0, 1, 1],
         "kinds": dict(kernlib.BASE, **KINDS), "plan_kinds": PLAN, "seed": seed}
    return {"prog": {"gen": g}, "rt": random_rt(ctx, 5, calm=ctx.rng.random() < 0.5), "origin": "random-program"}


# ------------------------------------------------------------------------------------------------ verdicts
def slow_raised(tr):
    return any(e["e"] == "X" and e["slow"] == 1 for e in tr["ev"])


def compare_logs(tr):
    """None when the RealtimeEnvironment log is the Environment log; otherwise (position, text).  A strict-mode
    'too slow' RuntimeError is the one permitted difference: everything before it must be identical."""
    a, b = tr["log"], tr["ref_log"]
    if a == b:
        if tr["final"] != tr["ref_final"]:
            return len(a), "the end: same log, but the final states of the events differ: RealtimeEnvironment %s / Environment %s" % (
                json.dumps(tr["final"]), json.dumps(tr["ref_final"]))
        return None
    pos = next((i for i, (x, y) in enumerate(zip(a, b)) if x != y), min(len(a), len(b)))
    if slow_raised(tr) and tr["cfg"]["strict"] == 1 and pos < len(a) and a[pos]["k"] == "X" and a[pos]["v"]["k"] == "RuntimeError":
        return None
    return pos, "entry %d: RealtimeEnvironment %s / Environment %s" % (
        pos + 1, json.dumps(a[pos]) if pos < len(a) else "<end>", json.dumps(b[pos]) if pos < len(b) else "<end>")


def classify(ctx, sc, tr):
    cfg, ev = tr["cfg"], tr["ev"]
    F, t0 = cfg["F"], cfg["t0"]
    kinds = set()
    rs = cfg["w0"]
    raised = False
    for i, e in enumerate(ev):
        k = e["e"]
        if k == "SY":
            if e["w"] != rs:
                kinds.add("sync_rebases_drifted_origin")
            if in_step(ev, i):
                kinds.add("sync_from_body")
            rs = e["w"]
        elif k == "ST" and e["t"] != -1:
            lag = e["w"] - (rs + (e["t"] - t0) * F)
            if sc.get("rt", {}).get("den", 4) > 4 and -7 <= lag < 0:
                kinds.add("turns_to_occurrence_under_100_microseconds_before_due")
            if cfg["strict"] and lag == F:
                kinds.add("lag_equals_factor_not_raised")
            if not cfg["strict"] and lag > F:
                kinds.add("late_in_nonstrict_mode")
        elif k == "X" and e["slow"] == 1:
            kinds.add("strict_raise")
            raised = True
        elif k == "K" and raised:
            kinds.add("raise_then_step_succeeds")
        elif k == "SL":
            if e["a"] < e["d"]:
                kinds.add("sleep_returns_early")
                if sc.get("rt", {}).get("den", 4) > 4 and e["d"] - e["a"] <= 7:
                    kinds.add("sleep_returns_under_100_microseconds_early")
            if e["a"] > e["d"]:
                kinds.add("sleep_returns_late")
            if e["a"] - e["d"] > F:
                kinds.add("sleep_late_by_more_than_factor")
        elif k == "B" and e["c"] > 0:
            kinds.add("body_consumes_wall_time")
    if t0 != 0:
        kinds.add("initial_time_nonzero")
    if sc.get("expect") is not None and observed(tr) == sc["expect"]:
        kinds.add("tlc_schedule_reproduced_exactly")
    for k in kinds:
        ctx.count(k)
    return kinds


def mc_cfgs(ctx):
    def text(name, **kv):
        s = open(os.path.join(tlc.SPEC, "misc", name)).read()
        for k, v in kv.items():
            s, n = re.subn(r"(?m)^  %s = .*$" % k, "  %s = %s" % (k, v), s)
            if n != 1:
                raise core.Machinery("constant %s not found in %s" % (k, name))
        return s
    runs = [("RealtimeMC/strict", text("RealtimeMC_strict.cfg"), True),
            ("RealtimeMC/sleep", text("RealtimeMC_sleep.cfg"), "nonstrict"),      # Stricts = {0}: nothing raises there
            ("RealtimeMC/req", text("RealtimeMC_req.cfg"), True)]
    if not ctx.quick:
        # larger bounds, clauses only (no emission: the scenario volume comes from the runs above and the random tiers)
        noemit = lambda s: s.replace("CONSTRAINT Emit\n", "")
        runs += [("RealtimeMC/strict-wide", noemit(text("RealtimeMC_strict.cfg", T0s="{0, 5}", GapAmts='{"1", "F1"}',
                                                         WorkAmts='{"0", "1", "F", "F1", "2F", "2F1"}')), False),
                 ("RealtimeMC/sleep-wide", noemit(text("RealtimeMC_sleep.cfg", Fs="{2, 4, 8}", Stricts="{0, 1}", T0s="{0, 5}", Deltas="{0, 1, 2}",
                                                        SleepModes='{"one", "short", "exact", "late1", "lateF", "lateF1"}')), False),
                 ("RealtimeMC/three-steps", noemit(text("RealtimeMC_strict.cfg", MaxSteps="3", MaxTurns="4",
                                                         WorkAmts='{"0", "F", "F1", "2F1"}', SleepModes='{"exact", "lateF1"}')), False)]
    return runs


def evaluate(ctx, scs, traces, kernel_limit=None, jvms=None):
    for sc, tr in zip(scs, traces):
        if tr.get("driver_error"):
            raise core.Machinery("realtime driver failed on %s: %s" % (json.dumps(sc.get("rt", sc))[:600], tr["driver_error"]))
    # (1) alters no result: Environment log == RealtimeEnvironment log
    bad = set()
    for i, (sc, tr) in enumerate(zip(scs, traces)):
        d = compare_logs(tr)
        ctx.events += len(tr["log"])
        if d is not None:
            bad.add(i)
            ctx.violation("alters_result", sc, {"cfg": tr["cfg"], "rt_log": tr["log"], "env_log": tr["ref_log"], "ev": tr["ev"]},
                          "RealtimeEnvironment log differs from the Environment log of the same program at " + d[1],
                          sig="log differs from Environment")
        else:
            ctx.count("log_equal_to_plain_environment")
    # (2) pacing: wall-clock trace against Realtime.tla
    stuck = ctx.validate("RealtimeTrace", "RealtimeTrace.cfg", "misc", [{"cfg": t["cfg"], "ev": t["ev"]} for t in traces], shard=500,
                         workers=jvms)
    for i in sorted(stuck):
        pos = stuck[i]
        ev = traces[i]["ev"]
        at = ev[pos - 1] if pos - 1 < len(ev) else None
        ctx.violation("pacing_trace", scs[i], {"cfg": traces[i]["cfg"], "ev": ev},
                      "wall-clock trace is not a behaviour of Realtime.tla from event %d: %s (preceded by %s)" % (
                          pos, json.dumps(at), json.dumps(ev[max(0, pos - 4):pos - 1])),
                      sig="no spec step matches %s%s" % (at["e"], (" slow=%d" % at["slow"]) if at["e"] == "X" else "") if at else "end")
    # (3) the RealtimeEnvironment log is a behaviour of SimKernel (time origin 0; runs without a strict raise)
    idx = [i for i, t in enumerate(traces) if t["cfg"]["t0"] == 0 and not slow_raised(t) and i not in bad]
    if kernel_limit is not None and len(idx) > kernel_limit:
        idx = sorted(ctx.rng.sample(idx, kernel_limit))
    ktr = [{"scripts": traces[i]["scripts"], "log": traces[i]["log"], "final": traces[i]["final"]} for i in idx]
    kst = ctx.validate("KernelTrace", "KernelTrace.cfg", "kernel", ktr, shard=150, workers=jvms) if ktr else {}
    ctx.extra["rt_logs_validated_against_SimKernel"] = ctx.extra.get("rt_logs_validated_against_SimKernel", 0) + len(ktr)
    for j in sorted(kst):
        i = idx[j]
        pos = kst[j]
        log = traces[i]["log"]
        ctx.violation("kernel_trace", scs[i], {"cfg": traces[i]["cfg"], "rt_log": log},
                      "RealtimeEnvironment log is not a behaviour of SimKernel from entry %d: %s" % (
                          pos, json.dumps(log[pos - 1]) if pos - 1 < len(log) else "<end of log>"), sig="SimKernel rejects the log")
    rejected = bad | set(stuck) | {idx[j] for j in kst}
    for i, (sc, tr) in enumerate(zip(scs, traces)):
        if i not in rejected:
            classify(ctx, sc, tr)
    ctx.traces -= len(ktr)        # the same run, validated against a second specification: not another trace
    return rejected


def run(ctx, replay=None):
    if replay:
        obj = json.load(open(replay))
        scs = [obj["scenario"]]
        traces = ctx.drive("realtime", scs, procs=1)
        evaluate(ctx, scs, traces)
        ctx.sample({"scenario": scs[0], "wall_clock_trace": traces[0]["ev"][:30]})
        return ctx.finish("replay of one stored scenario")
    n_emit = 1200 if ctx.quick else 40000        # per emitting configuration
    n_agenda = 1500 if ctx.quick else 40000
    n_prog = 1200 if ctx.quick else 30000
    scs = []
    # unbounded parameters: the origin is never ahead of the clock, and the 'too slow' error is raised only in strict mode
    # with a lag beyond the factor -- an inductive invariant of Realtime.tla (Apalache)
    ctx.inductive("RealtimeApa", "misc")
    for label, cfg, emits in mc_cfgs(ctx):
        req = [a for a in MC_ACTIONS if not (emits == "nonstrict" and a in ("MTurnRaise", "MRaised"))]
        r = ctx.mc("RealtimeMC", cfg, "misc", required_actions=req, label=label, timeout=3000,
                   workers=WORKERS if ctx.quick else 16)
        if not emits:
            continue
        # sample without decoding every line
        lines = [ln for ln in r.prints if ln.startswith('<<"EMIT", ')]
        r.out = ""
        r.prints = []
        if not lines:
            raise core.Machinery("%s emitted no schedule" % label)
        ctx.extra["schedules_emitted_by_tlc"] = ctx.extra.get("schedules_emitted_by_tlc", 0) + len(lines)
        lines.sort()
        if len(lines) > n_emit:
            lines = ctx.rng.sample(lines, n_emit)
            ctx.notes.append("%s: %d of the emitted schedules replayed" % (label, n_emit))
        for ln in lines:
            scs.append(from_history(json.loads(json.loads(ln[len('<<"EMIT", '):-2]))))
    scs += [random_pacing(ctx) for _ in range(n_agenda)]
    base = ctx.rng.randrange(1 << 30)
    scs += [random_program(ctx, base + i) for i in range(n_prog)]
    # batches keep the recorded traces of the thorough tier out of memory (about 40 events per scenario)
    ctx.rng.shuffle(scs)
    BATCH = 16000
    klimit = 900 if ctx.quick else 20000
    shown = set()
    for b in range(0, len(scs), BATCH):
        part = scs[b:b + BATCH]
        traces = ctx.drive("realtime", part, procs=12)
        evaluate(ctx, part, traces, kernel_limit=max(1, klimit * len(part) // len(scs)), jvms=JVMS)
        for sc, tr in zip(part, traces):
            if sc["origin"] not in shown:
                shown.add(sc["origin"])
                ctx.sample({"origin": sc["origin"], "cfg": tr["cfg"], "program": tr["scripts"], "schedule": sc["rt"],
                            "wall_clock_trace": tr["ev"][:24], "kernel_log": tr["log"][:8]})
        del traces
    if not ctx.violations:
        for k in REQUIRED:
            if not ctx.nontrivial.get(k):
                raise core.Machinery("vacuity: no replayed scenario of kind %s" % k)
    return ctx.finish(RULE, assumptions=[
        "decided on a virtual wall clock only (patched onl.sim.rt.monotonic / sleep); reading the clock takes no time; "
        "tests/test_rt.py keeps covering the real clock",
        "wall-clock values on a 1/4-tick lattice, factor in {1/4, 1/2, 3/4, 1, 3/2, 2, 4} (TLC: 1/2, 1, 2), simulated instants "
        "integral: every product is exact in binary floating point; off-lattice rounding is not decided",
        "a sleep request may be any positive amount that does not reach beyond the due instant (the code asks for exactly the "
        "remaining time); how often the clock is read is not constrained",
        "SimKernel starts at time 0: RealtimeEnvironment logs are validated by TLC (KernelTrace) for initial_time 0 only; for "
        "initial_time 3 and 5 the log is compared entry by entry with the log of Environment(initial_time) on the same program",
        "after a strict-mode 'too slow' RuntimeError the logs are compared up to that error (the error itself is the one "
        "permitted difference); RuntimeError is recognised as the pacing error by the documented message prefix",
        "the refinement Realtime => Kernel of DESIGN 6/C20 is established by execution (same programs on both environments) "
        "rather than by a TLC refinement check: the pacing actions do not touch kernel variables"])


if __name__ == "__main__":
    core.main(run, "C20")
