"""C02 -- exactly-once delivery of outcomes, failures never lost: SimKernel.tla vs the real kernel."""
from ..vlib import core
from . import kernlib

RULE = ("every program TLC enumerates within the bounds (value-carrying timeouts, shared events succeeded/failed by other processes, "
        "joins on children that return or raise, several waiters, catching and non-catching yields, double triggers (succeed / fail / Event.trigger), failures whose constructor "
        "does not take its own args, yields of processed "
        "events, failures of operands of any_of/all_of conditions before and after the condition is decided) replayed on the real kernel, logs compared; plus generated larger programs validated by TLC. non-trivial as in C01")
KINDS = {"sleep": 4, "timeout": 1, "event": 3, "succeed": 3, "fail": 3, "spawn": 2, "yield": 5, "raise": 1, "return": 0.5,
         "trigger": 1.5, "baddelay": 0.3}
CKINDS = dict(KINDS, cond=4, timeout=3, fail=4)


def run(ctx, replay=None):
    if replay:
        return kernlib.replay(ctx, replay)
    if ctx.quick:
        kernlib.mc_replay(ctx, "KernelMC_c02.cfg", {"Delays = {0, 1}": "Delays = {1}"}, label="KernelMC/c02 2x3 delay 1")
        kernlib.mc_replay(ctx, "KernelMC_c02.cfg", {'"sleep", "event", "succeed", "fail", "spawn", "yield", "raise"': '"sleep", "event", "succeed", "fail", "trigger", "yield"',
                                                   "MaxOps = 3": "MaxOps = 3", "Catches = {0, 1}": "Catches = {1}"},
                          label="KernelMC/c02 2x3 Event.trigger")
        kernlib.gen_validate(ctx, 1500, KINDS)
        # waiters of an event that is also the target of run(until=event): registered before and after run() was called
        kernlib.gen_validate(ctx, 1000, KINDS, plan_kinds={"run": 1, "runev": 3}, max_plan=4, label="generated-run-until-event")
        # failures that reach a waiter through a condition -- or reach nobody because the condition is already decided
        kernlib.gen_validate(ctx, 800, CKINDS, label="generated-conditions", orphan_finding="F19b")
    else:
        kernlib.mc_replay(ctx, "KernelMC_c02.cfg", {'"spawn", "yield"': '"spawn", "spawnnp", "yield"'}, label="KernelMC/c02 2x3 +unprobed spawns")
        kernlib.mc_replay(ctx, "KernelMC_c02.cfg", {"MaxProc = 2": "MaxProc = 3", "MaxOps = 3": "MaxOps = 2", "MaxEv = 8": "MaxEv = 9"},
                          label="KernelMC/c02 3x2")
        # beyond the exhaustive bound: random deep behaviours of the same specification (TLC -simulate), replayed likewise
        kernlib.mc_replay(ctx, "KernelMC_c02.cfg", {"MaxProc = 2": "MaxProc = 4", "MaxOps = 3": "MaxOps = 4", "MaxEv = 8": "MaxEv = 22"},
                          label="KernelMC/c02 simulate 4 procs x 4-5 ops", simulate=4000, depth=400)
        kernlib.mc_replay(ctx, "KernelMC_c02.cfg", {'"sleep", "event", "succeed", "fail", "spawn", "yield", "raise"': '"sleep", "event", "succeed", "fail", "trigger", "yield"'},
                          label="KernelMC/c02 2x3 Event.trigger", limit=300000)
        kernlib.gen_validate(ctx, 20000, KINDS)
        kernlib.gen_validate(ctx, 5000, KINDS, max_procs=6, max_ops=8, max_events=40, label="generated-large")
        kernlib.gen_validate(ctx, 15000, KINDS, plan_kinds={"run": 1, "runev": 3}, max_plan=4, label="generated-run-until-event")
        kernlib.gen_validate(ctx, 10000, CKINDS, label="generated-conditions", orphan_finding="F19b")
    return ctx.finish(RULE)


if __name__ == "__main__":
    core.main(run, "C02")
