"""C03 -- reproducibility and stop/resume transparency: SimKernel.tla (top-level plans) vs the real kernel."""
import json
from ..vlib import core
from . import kernlib

RULE = ("every program-with-plan TLC enumerates within the bounds (plans of run / run(until=number) / run(until=event) / step, stop points "
        "coinciding with due events, until <= now, runs ended by an escaping failure or an until-event nobody triggers and resumed "
        "afterwards; TLC checks RunReturnsAtItsStop on all of them) replayed on the real kernel, logs compared; generated larger programs with plans "
        "validated by TLC; every generated program is additionally executed (a) under PYTHONHASHSEED 0, 1 and 4242 in separate "
        "interpreters (logs must be identical) and (b) with the plan replaced by uninterrupted run() calls: the process-visible log of "
        "the split run must be a prefix of (normally equal to) that of the uninterrupted run. non-trivial = split_run programs etc.")
KINDS = {"sleep": 5, "timeout": 1, "event": 2, "succeed": 2, "fail": 0.5, "spawn": 2, "yield": 4, "interrupt": 1, "cond": 1}
PLAN = {"run": 1, "step": 3, "rununtil": 3, "runev": 2}
# runs that end by an exception (a failure nobody handles, an until-event nobody triggers) and are followed by more runs
AKINDS = {"sleep": 5, "timeout": 1, "event": 2, "succeed": 1, "fail": 2, "spawn": 2, "yield": 4, "raise": 1.5}
APLAN = {"run": 1, "step": 1, "rununtil": 4, "runev": 3, "event": 0.5, "succeed": 1.5, "fail": 0.5}


def visible(log, names):
    """Process-visible entries with event ids replaced by (creator, op index): run(until=number) allocates an
    internal event per call, which shifts the numeric ids between a split and an uninterrupted run."""
    def nm(u):
        return names[u] if 0 <= u < len(names) and names[u] else u
    out = []
    for e in log:
        if not (e["k"] in ("R", "P") or (e["k"] == "E" and e["p"] != 0)):
            continue
        v = dict(e["v"])
        if v["k"] in ("v", "x"):
            v["a"] = nm(v["a"])
        if v["k"] == "cv":
            v["s"] = [nm(x) for x in v["s"]]
        out.append([e["k"], nm(e["p"]) if e["k"] == "P" else e["p"], e["t"], e["ok"], v])
    return out


NAMES = ["alpha", "bravo", "charlie", "delta", "echo", "foxtrot", "golf"]


def free_scenario(ctx):
    """Off the exact lattice: string class ids, decimal weights / sizes / instants (floating-point sums whose rounding
    depends on the order of summation), stamps that tie up to rounding."""
    rng = ctx.rng
    nc = rng.randint(3, 6)
    nf = rng.randint(nc, nc + 2)
    dec = [0.1, 0.2, 0.3, 0.5, 0.7, 1.1, 0.6, 0.4, 1.0]
    names = rng.sample(NAMES, nc)
    order = list(range(nc))
    rng.shuffle(order)
    arr = sorted((rng.choice([0, 0, 0, 0.1, 0.3, 0.6, 1.1, 1.2, 1.5, 2.0, 0.7]), rng.randrange(nf),
                  rng.choice([0.1, 0.2, 0.5, 0.7, 1.0, 0.3, 0.6, 0.9])) for _ in range(rng.randint(6, 16)))
    return {"sched": rng.choice(["WFQ", "WFQ", "WFQ", "VC", "DRR", "SP", "WRR"]), "names": names, "order": order,
            "w": [rng.choice(dec) for _ in range(nc)], "f2c": [i if i < nc else rng.randrange(nc) for i in range(nf)],
            "rate": 8.0, "arr": [list(a) for a in arr]}


def network_scenarios(ctx):
    """Network scenarios (string element ids, hubs, switches, schedulers, ports) executed twice in one interpreter process and
    again in separate processes under other string-hash seeds: the recorded traces must be identical.  The "schedfree"
    batch leaves the exact lattice (string class ids, decimal weights): there the repetition is the whole check."""
    from . import c18, schedlib, c09
    n = 250 if ctx.quick else 3000
    batches = {
        "routing": [c18.random_scenario(ctx) for _ in range(2 * n)],
        "sched": [schedlib.random_scenario(ctx.rng, k, policy="ANY") for k in schedlib.KINDS for _ in range(n // 6 + 1)],
        "port": [c09.decorate(ctx, c09.random_workload(ctx, red=(i % 3 == 0))) for i in range(n)],
        "schedfree": [free_scenario(ctx) for _ in range(40 * n)],
    }
    for i, sc in enumerate(batches["port"]):
        if sc["cfg"]["red"] and i % 2 == 0:
            sc["rawrandom"] = 1000 + i          # unscripted randomness: the program seeds the generator itself
    for driver, scs in batches.items():
        ref = ctx.drive(driver, scs + scs, procs=8, hashseed="0")
        for i, sc in enumerate(scs):
            if ref[i] != ref[len(scs) + i]:
                ctx.violation("rerun", {"driver": driver, "scenario": sc}, {"first": ref[i], "second": ref[len(scs) + i]},
                              "two executions of one %s scenario in the same interpreter process differ" % driver, sig="rerun " + driver)
        for hs in ("1", "4242") + (("4", "5", "77") if driver == "schedfree" else ()):
            out = ctx.drive(driver, scs, procs=8, hashseed=hs)
            for i, sc in enumerate(scs):
                if out[i] != ref[i]:
                    ctx.violation("hashseed", {"driver": driver, "scenario": sc, "hashseed": hs}, {"seed0": ref[i], "other": out[i]},
                                  "%s trace under PYTHONHASHSEED=%s differs from the trace under 0" % (driver, hs), sig="hashseed " + driver)
            ctx.count("network_hashseed_repetition", len(scs))
        ctx.traces += 2 * len(scs)


def replay_network(ctx, obj):
    sc = obj["scenario"]
    seeds = ["0", str(sc.get("hashseed", "1")), "4", "5"]
    outs = [ctx.drive(sc["driver"], [sc["scenario"], sc["scenario"]], procs=1, hashseed=h) for h in seeds]
    if outs[0][0] != outs[0][1]:
        ctx.violation("rerun", sc, {"first": outs[0][0], "second": outs[0][1]}, "two executions in one interpreter process differ")
    for h, o in zip(seeds[1:], outs[1:]):
        if o[0] != outs[0][0]:
            ctx.violation("hashseed", sc, {"seed0": outs[0][0], "other": o[0]},
                          "%s trace under PYTHONHASHSEED=%s differs from the trace under 0" % (sc["driver"], h))
    ctx.traces += 2 * len(seeds)
    return ctx.finish("replay of one stored network scenario under hash seeds " + ", ".join(seeds))


def run(ctx, replay=None):
    if replay:
        obj = json.load(open(replay))
        if isinstance(obj.get("scenario"), dict) and "driver" in obj["scenario"]:
            return replay_network(ctx, obj)
        return kernlib.replay(ctx, replay)
    if ctx.quick:
        kernlib.mc_replay(ctx, "KernelMC_c03.cfg")
        kernlib.mc_replay(ctx, "KernelMC_c03abort.cfg", label="KernelMC/c03 aborted runs 1x2 plan4")
        kernlib.gen_validate(ctx, 1000, AKINDS, plan_kinds=APLAN, max_plan=7, label="generated-plans-aborted-runs")
        tr, _ = kernlib.gen_validate(ctx, 1500, KINDS, plan_kinds=PLAN, max_plan=6, label="generated-plans")
        kernlib.gen_validate(ctx, 1200, KINDS, plan_kinds=dict(PLAN, rununtil=6), max_plan=6, label="generated-plans-float-instants",
                             **{"float": kernlib.FLOAT})
    else:
        kernlib.mc_replay(ctx, "KernelMC_c03.cfg", label="KernelMC/c03 2x2 plan4")
        kernlib.mc_replay(ctx, "KernelMC_c03abort.cfg", {"MaxPlan = 4": "MaxPlan = 5"}, label="KernelMC/c03 aborted runs 1x2 plan5", limit=300000)
        kernlib.mc_replay(ctx, "KernelMC_c03abort.cfg", {"MaxProc = 1": "MaxProc = 2", '"yield", "raise"': '"yield", "raise", "spawn"'},
                          label="KernelMC/c03 aborted runs 2x2 plan4", limit=300000)
        kernlib.gen_validate(ctx, 15000, AKINDS, plan_kinds=APLAN, max_plan=8, label="generated-plans-aborted-runs")
        kernlib.mc_replay(ctx, "KernelMC_c03.cfg", {"MaxPlan = 4": "MaxPlan = 5"}, label="KernelMC/c03 plan5", limit=300000)
        # liveness under weak fairness: every run()/step() call returns or raises, every plan completes
        ctx.mc("KernelMC", kernlib.cfg_text("KernelMC_c03live.cfg"), "kernel", label="KernelMC/c03 liveness (Returns, PlanCompletes)",
               timeout=3000, coverage=False)
        kernlib.mc_replay(ctx, "KernelMC_c03.cfg", {"MaxOps = 2": "MaxOps = 3", "MaxPlan = 4": "MaxPlan = 3"}, label="KernelMC/c03 2x3 plan3",
                          limit=300000)
        kernlib.mc_replay(ctx, "KernelMC_c03.cfg", {"MaxProc = 2": "MaxProc = 3", "MaxOps = 2": "MaxOps = 3", "MaxPlan = 4": "MaxPlan = 7",
                                                   "MaxEv = 8": "MaxEv = 20", "UntilTimes = {1, 2}": "UntilTimes = {1, 2, 3}"},
                          label="KernelMC/c03 simulate 3x3 plan7", simulate=4000, depth=500)
        tr, _ = kernlib.gen_validate(ctx, 15000, KINDS, plan_kinds=PLAN, max_plan=7, label="generated-plans")
        kernlib.gen_validate(ctx, 15000, KINDS, plan_kinds=dict(PLAN, rununtil=6), max_plan=7, label="generated-plans-float-instants",
                             **{"float": kernlib.FLOAT})
    # (a) hash seeds, separate interpreter processes
    progs = [{"scripts": t["scripts"]} for t in tr]
    for hs in ("1", "4242"):
        out = ctx.drive("kernel", progs, procs=12, hashseed=hs)
        for t, o in zip(tr, out):
            if o["log"] != t["log"]:
                ctx.violation("hashseed", {"scripts": t["scripts"], "hashseed": hs}, {"seed0": t["log"], "other": o["log"]},
                              "log under PYTHONHASHSEED=%s differs from the log under 0" % hs, sig="hashseed")
        ctx.count("hashseed_repetition", len(out))
    # (b) the same processes without stops
    ref = [{"scripts": [[{"k": "spawn", "a": 0, "b": 0, "c": 0, "s": []}] + [{"k": "run", "a": 0, "b": 0, "c": 0, "s": []}] * len(t["scripts"][0])]
            + t["scripts"][1:]} for t in tr]
    plain = [i for i, t in enumerate(tr) if all(o["k"] in ("spawn", "run", "step", "rununtil", "runev") for o in t["scripts"][0])]
    mine = ctx.drive("kernel", [progs[i] for i in plain], procs=12)

    def named(o, names):
        def nm(u):
            return names[u] if 0 <= u < len(names) else None
        o = dict(o)
        if o["k"] in ("yield", "succeed", "fail", "runev"):
            o["an"] = nm(o["a"])
        if o["k"] == "cond":
            o["sn"] = [nm(x) for x in o["s"]]
        return o
    refs = []
    for i, m in zip(plain, mine):
        refs.append({"scripts": [ref[i]["scripts"][0]] + [[named(o, m["names"]) for o in sc] for sc in tr[i]["scripts"][1:]]})
    out = ctx.drive("kernel", refs, procs=12)
    eq = 0
    for i, o, m in zip(plain, out, mine):
        a, b = visible(m["log"], m["names"]), visible(o["log"], o["names"])
        # internal ids allocated by run(until=number) shift later uids: compare after renumbering is not needed for
        # R/P entries of user events created by processes only when no sentinel was created before them; keep programs
        # whose split log names the same ids
        if a == b[:len(a)]:
            eq += 1 if len(a) == len(b) else 0
            ctx.count("split_vs_uninterrupted")
        else:
            pos = next((j for j, (x, y) in enumerate(zip(a, b)) if x != y), min(len(a), len(b)))
            ctx.violation("split_run", {"scripts": tr[i]["scripts"]}, {"split": a, "uninterrupted": b},
                          "process-visible log of the split run is not a prefix of the uninterrupted run's (entry %d)" % (pos + 1),
                          sig="split-vs-uninterrupted")
    ctx.extra["split_runs_equal_to_uninterrupted"] = eq
    network_scenarios(ctx)
    return ctx.finish(RULE, assumptions=["hash seeds are sampled (0, 1, 4242), not quantified over"])


if __name__ == "__main__":
    core.main(run, "C03")
