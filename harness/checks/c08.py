"""C08 -- packet conservation through every element class and through pipelines (spec/net/Conserve.tla), and the
book-keeping of DistPacketGenerator / PacketSink (spec/net/GenSink.tla)."""
import json
from concurrent.futures import ThreadPoolExecutor
from ..vlib import core
from ..vlib import tlc

RULE = ("pipelines of the real element classes (Port, REDPort, Wire, TokenBucket, TwoRateTokenBucket, SP, WFQ, VC, DRR, "
        "RR, WRR, FlowDemux, FIBDemux, SimplePacketSwitch, FairPacketSwitch, Splitter, NSplitter) between real "
        "DistPacketGenerators / harness injectors and real PacketSinks with a recording tap on every edge: the packet "
        "sequences emitted by the exhaustive TLC runs of ConserveMC (chain, fan-in, fan-out, split) and GenSinkMC, each "
        "instantiated with seeded random element classes, parameters and instants, plus seeded random larger pipelines. "
        "A scenario is non-trivial when it contains a clause antecedent: a counted drop, a wire loss, a packet without "
        "route, a burst at one instant, fan-in, fan-out, a splitter copy, flows sharing a scheduler class, a generator "
        "finish time, a per-source sink, inter-arrival recording; distinct = distinct scenario objects")

SCHEDS = ["SP", "WFQ", "VC", "DRR", "RR", "WRR"]
SMALL = [0, 1, 1, 1, 2, 2, 3, 4, 6]
BIG = [500, 1000, 1500, 1500, 3000, 4000]
EIGHTHS = [(0, 1), (1, 8), (1, 4), (3, 8), (1, 2), (5, 8), (3, 4), (7, 8), (1, 1)]
KIND = {"Gen": "src", "Inj": "src", "Port": "port", "REDPort": "red", "Wire": "wire", "TokenBucket": "tb",
        "TwoRateTokenBucket": "trtb", "Sched": "sched", "FlowDemux": "demux", "FIBDemux": "demux",
        "SimplePacketSwitch": "switch", "FairPacketSwitch": "switch", "Splitter": "split", "NSplitter": "split",
        "PacketSink": "sink"}


# ----------------------------------------------------------------------------- pipeline construction
class Net:
    def __init__(self, rng, nf, big):
        self.rng = rng
        self.nf = nf
        self.big = big
        self.nodes = []

    def add(self, cls, par=None):
        self.nodes.append({"cls": cls, "par": par or {}, "outs": []})
        return len(self.nodes)

    def link(self, a, b):
        self.nodes[a - 1]["outs"].append(b)

    def sizes(self):
        return BIG if self.big else SMALL

    # ---- element makers: each returns a node number with exactly one (still unconnected) output
    def port(self):
        rng = self.rng
        mode = rng.choice([0, 1, 1, 2, 2])
        if mode == 1:
            ql = rng.choice([1500, 3000, 4500, 6000, 9000]) if self.big else rng.choice([1, 2, 3, 5, 8, 12])
        else:
            ql = rng.choice([1, 2, 3, 4])
        return self.add("Port", {"K": rng.choice([0, 1, 1, 2]), "mode": mode, "qlimit": ql if mode else 0})

    def red(self):
        rng = self.rng
        mode = 2 if self.big else rng.choice([1, 2])
        if mode == 2:
            lo = rng.choice([0, 1, 2]); hi = lo + rng.choice([1, 2, 4]); ql = hi + rng.choice([0, 1, 2])
        else:
            lo = rng.choice([1, 2, 4]); hi = lo + rng.choice([2, 4, 8]); ql = hi + rng.choice([0, 2, 4])
        pn, pd = rng.choice([(1, 2), (1, 4), (1, 1), (3, 4)])
        us = [list(rng.choice(EIGHTHS)) for _ in range(rng.randint(1, 5))]
        return self.add("REDPort", {"K": rng.choice([0, 1, 2]), "mode": mode, "qlimit": ql, "minth": lo, "maxth": hi,
                                    "pn": pn, "pd": pd, "w": rng.choice([1, 2]), "us": us})

    def wire(self):
        rng = self.rng
        loss = rng.choice([None, None, [0, 1], [1, 4], [1, 2], [3, 4], [1, 1]])
        return self.add("Wire", {"dl": [rng.choice([0, 0, 1, 2, 3, 5]) for _ in range(rng.randint(1, 4))], "loss": loss,
                                 "us": [list(rng.choice(EIGHTHS)) for _ in range(rng.randint(1, 5))]})

    def tb(self):
        rng = self.rng
        b = rng.choice([500, 1500, 3000, 6000]) if self.big else rng.choice([1, 2, 3, 5, 8])
        return self.add("TokenBucket", {"R": rng.choice([1, 2, 4]), "B": b, "P": rng.choice([0, 0, 1, 2, 4])})

    def trtb(self):
        rng = self.rng
        cbs = rng.choice([500, 1500, 3000]) if self.big else rng.choice([1, 2, 4, 6])
        pir = rng.choice([0, 2, 4])
        return self.add("TwoRateTokenBucket", {"CIR": rng.choice([1, 2]), "CBS": cbs, "PIR": pir,
                                               "PBS": (cbs + (rng.choice([0, 500, 1500]) if self.big else rng.choice([0, 1, 3]))) if pir else 0})

    def sched(self, kind=None):
        rng = self.rng
        nf = self.nf
        kind = kind or rng.choice(SCHEDS)
        manyone = kind in ("SP", "WFQ", "VC", "DRR") and nf >= 3 and rng.random() < 0.3
        nc, f2c = nf, list(range(1, nf + 1))
        if manyone:
            nc = rng.randint(1, nf - 1)
            f2c = [rng.randint(1, nc) for _ in range(nf)]
            for c in range(1, nc + 1):
                if c not in f2c:
                    f2c[rng.randrange(nf)] = c
            if sorted(set(f2c)) != list(range(1, nc + 1)):
                nc, f2c = nf, list(range(1, nf + 1))
        order = list(range(1, nc + 1))
        if kind in ("SP", "DRR", "RR", "WRR"):
            rng.shuffle(order)
        if kind == "SP":
            w = [rng.choice([1, 2, 3, 5]) for _ in range(nf)]
            order = list(range(1, nf + 1))
            rng.shuffle(order)
        elif kind == "RR":
            w = [1] * nc
        else:
            w = [rng.choice([1, 1, 2, 3]) for _ in range(nc)]
        return self.add("Sched", {"sched": kind, "cfg": {"policy": kind, "K": rng.choice([1, 1, 2]), "nf": nf, "nc": nc,
                                                         "f2c": f2c, "w": w, "order": order, "unit": 0}})

    def queue(self):
        r = self.rng.random()
        if r < 0.18:
            return self.port()
        if r < 0.28:
            return self.red()
        if r < 0.42:
            return self.wire()
        if r < 0.52:
            return self.tb()
        if r < 0.62:
            return self.trtb()
        return self.sched()

    def chain(self, length):
        """-> (first node, last node) of a chain of `length` single-output elements"""
        first = last = None
        for _ in range(length):
            k = self.queue()
            if first is None:
                first = k
            else:
                self.link(last, k)
            last = k
        return first, last

    def sink(self):
        rng = self.rng
        mode = rng.choice(["plain", "plain", "inter", "bysrc", "bysrc_inter", "norec"])
        par = {"recarr": 1, "abs": 1, "recwait": 1, "byflow": 1}
        if "inter" in mode:
            par["abs"] = 0
        if "bysrc" in mode:
            par["byflow"] = 0
        if mode == "norec":
            par["recarr"] = rng.choice([0, 1])
            par["recwait"] = 1 - par["recarr"] if rng.random() < 0.5 else 0
        if rng.random() < 0.25:
            par["tcp"] = 1          # a TCPSink measures like the PacketSink it is (its ACKs go to a device that ignores them)
        return self.add("PacketSink", par)

    def tail(self, frm, maxlen):
        """frm -> chain of 0..maxlen elements -> sink"""
        n = self.rng.randint(0, maxlen)
        if n:
            a, b = self.chain(n)
            self.link(frm, a)
            frm = b
        self.link(frm, self.sink())

    def fanout(self):
        """-> node number of a demultiplexer / switch / splitter whose outputs are all connected to tails"""
        rng = self.rng
        nf = self.nf
        c = rng.choice(["FlowDemux", "FIBDemux", "FIBDemux", "SimplePacketSwitch", "FairPacketSwitch", "Splitter",
                        "NSplitter"])
        if c == "FlowDemux":
            nouts = rng.randint(1, nf)
            dflt = rng.choice([0, 1])
            k = self.add(c, {"nouts": nouts, "dflt": dflt})
            nb = nouts + dflt
        elif c == "FIBDemux":
            nouts = rng.randint(1, 3)
            flows = list(range(nf))
            rng.shuffle(flows)
            ends = flows[:rng.choice([0, 0, 1])]
            rest = flows[len(ends):]
            table = sorted([f, rng.randint(1, nouts)] for f in rest if rng.random() < 0.75)
            dflt = rng.choice([0, 1])
            k = self.add(c, {"nouts": nouts, "table": table, "dflt": dflt, "ends": ends})
            nb = nouts + dflt + len(ends)
        elif c == "SimplePacketSwitch":
            nports = rng.randint(1, nf)
            k = self.add(c, {"nports": nports, "K": rng.choice([1, 2]), "buffer": rng.choice([1, 2, 3, 50])})
            nb = nports
        elif c == "FairPacketSwitch":
            nports = rng.randint(1, 3)
            table = sorted([f, rng.randint(1, nports)] for f in range(nf) if rng.random() < 0.8)
            k = self.add(c, {"nports": nports, "K": rng.choice([1, 2]), "buffer": rng.choice([1, 2, 3, 50]),
                             "server": rng.choice(["SP", "VirtualClock", "WFQ", "DRR"]),
                             "w": [rng.choice([1, 2, 3]) for _ in range(nf)], "table": table})
            nb = nports
        elif c == "Splitter":
            k = self.add(c)
            nb = 2
        else:
            nb = rng.randint(2, 4)
            k = self.add(c, {"n": nb})
        return k, nb

    # ---- sources
    def instants(self, n):
        rng = self.rng
        t = rng.choice([0, 0, 1, 3])
        burst = rng.random() < 0.3
        out = []
        step = 500 if self.big else 1
        for i in range(n):
            if i and not (burst and i < n - 1):
                t += step * rng.choice([0, 0, 0, 1, 1, 2, 3, 5, 8])
            out.append(t)
        return out

    def gen(self, flow, n):
        rng = self.rng
        ts = self.instants(n + 1)
        d0 = ts[0]
        gaps = [ts[i + 1] - ts[i] for i in range(n)]
        par = {"d0": d0, "gaps": gaps, "sizes": [rng.choice(self.sizes()) for _ in range(n + 1)], "flow": flow, "fin": -1,
               "floats": rng.choice([0, 1])}
        if rng.random() < 0.25:
            par["fin"] = rng.choice([d0, d0 + 1, ts[-1], ts[-1] + 1, ts[n // 2], ts[n // 2] + 1, 0])
        return self.add("Gen", par)

    def inj(self, n, flows):
        rng = self.rng
        arr = [{"t": t, "sz": rng.choice(self.sizes()), "f": rng.choice(flows), "src": rng.choice([0, 1, 1, 2]),
                "pl": rng.choice([0, 0, 7, 11])} for t in self.instants(n)]
        return self.add("Inj", {"arr": arr})

    def source(self, n, flows):
        if self.rng.random() < 0.5:
            return self.gen(self.rng.choice(flows), n)
        return self.inj(n, flows)

    def finish(self, origin):
        rng = self.rng
        nodes = self.nodes
        if rng.random() < 0.35:             # the elements' debug flag (they only print more) is a parameter too
            for nd in nodes:
                if nd["cls"] != "Inj" and rng.random() < 0.5:
                    nd["par"]["debug"] = 1
        order = list(range(1, len(nodes) + 1))
        if rng.random() < 0.6:
            rng.shuffle(order)
        sc = {"nodes": nodes, "order": order, "origin": origin, "nf": self.nf}
        sc["spec"] = spec_of(sc)
        return sc


def spec_of(sc):
    """the topology as Conserve.tla sees it"""
    nodes = sc["nodes"]
    nf = sc["nf"]
    kind, succ, nor, loss = [], [], [], []
    for nd in nodes:
        c, p = nd["cls"], nd["par"]
        kind.append(KIND[c])
        succ.append(list(nd["outs"]))
        loss.append(list(p["loss"]) if c == "Wire" and p.get("loss") else [0, 1])
        if c == "FlowDemux":
            nor.append([] if p["dflt"] else [f for f in range(nf) if f >= p["nouts"]])
        elif c == "FIBDemux":
            known = {f for f, _ in p["table"]} | set(p["ends"])
            nor.append([] if p["dflt"] else [f for f in range(nf) if f not in known])
        elif c == "SimplePacketSwitch":
            nor.append([f for f in range(nf) if f >= p["nports"]])
        elif c == "FairPacketSwitch":
            known = {f for f, _ in p["table"]}
            nor.append([f for f in range(nf) if f not in known])
        else:
            nor.append([])
    return {"kind": kind, "succ": succ, "nor": nor, "loss": loss}


def random_pipeline(rng, shape=None, npk=None):
    nf = rng.choice([2, 2, 3, 3, 4])
    big = rng.random() < 0.3
    net = Net(rng, nf, big)
    shape = shape or rng.choice(["chain", "chain", "chain", "fanin", "fanin", "fanout", "fanout", "split_join", "burst"])
    npk = npk or rng.randint(3, 12)
    flows = list(range(nf))
    if shape == "chain":
        a, b = net.chain(rng.randint(1, 4))
        nsrc = rng.choice([1, 1, 2])
        for i in range(nsrc):
            net.link(net.source(max(1, npk // nsrc), flows), a)
        net.link(b, net.sink())
    elif shape == "fanin":
        nsrc = rng.randint(2, 3)
        merge = net.sched() if rng.random() < 0.75 else net.queue()
        for i in range(nsrc):
            s = net.source(max(1, npk // nsrc), [i % nf] if rng.random() < 0.6 else flows)
            if rng.random() < 0.4:
                a, b = net.chain(rng.randint(1, 2))
                net.link(s, a)
                net.link(b, merge)
            else:
                net.link(s, merge)
        net.tail(merge, 2)
    elif shape == "fanout":
        nsrc = rng.choice([1, 1, 2])
        k, nb = net.fanout()
        if rng.random() < 0.4:
            a, b = net.chain(rng.randint(1, 2))
            net.link(b, k)
            entry = a
        else:
            entry = k
        for i in range(nsrc):
            net.link(net.source(max(1, npk // nsrc), flows), entry)
        for _ in range(nb):
            net.tail(k, 2)
    elif shape == "burst":
        # many packets of one flow at one instant through elements that take no time, straight into the sink
        n = rng.randint(8, 14)
        t0 = rng.choice([0, 0, 2, 7])
        f = rng.choice(flows)
        if rng.random() < 0.5:
            src = net.add("Gen", {"d0": t0, "gaps": [0] * n, "sizes": [rng.choice(net.sizes()) for _ in range(n + 1)],
                                  "flow": f, "fin": -1, "floats": rng.choice([0, 1])})
        else:
            src = net.add("Inj", {"arr": [{"t": t0, "sz": rng.choice(net.sizes()), "f": f, "src": rng.choice([0, 1]), "pl": 0}
                                          for _ in range(n)]})
        last = src
        for _ in range(rng.randint(0, 2)):
            r = rng.random()
            if r < 0.4:
                k = net.add("Port", {"K": 0, "mode": 0, "qlimit": 0})
            elif r < 0.8:
                k = net.add("Wire", {"dl": [0], "loss": None, "us": [[1, 2]]})
            else:
                k = net.add("FlowDemux", {"nouts": 0, "dflt": 1})
            net.link(last, k)
            last = k
        net.link(last, net.sink())
    else:   # a splitter whose branches meet again in one scheduler / port
        k = net.add("Splitter") if rng.random() < 0.6 else net.add("NSplitter", {"n": rng.randint(2, 3)})
        nb = 2 if net.nodes[k - 1]["cls"] == "Splitter" else net.nodes[k - 1]["par"]["n"]
        net.link(net.source(npk, flows), k)
        merge = net.sched() if rng.random() < 0.7 else net.queue()
        for _ in range(nb):
            if rng.random() < 0.6:
                a, b = net.chain(rng.randint(1, 2))
                net.link(k, a)
                net.link(b, merge)
            else:
                net.link(k, merge)
        net.tail(merge, 1)
    return net.finish("random/" + shape)


# ----------------------------------------------------------------------------- scenarios from TLC-emitted inputs
def one_of_kind(net, kind):
    rng = net.rng
    if kind == "port":
        return net.port()
    if kind == "red":
        return net.red()
    if kind == "wire":
        return net.wire()
    if kind == "tb":
        return net.tb()
    if kind == "trtb":
        return net.trtb()
    if kind == "sched":
        return net.sched()
    raise ValueError(kind)


def from_conserve(rng, w):
    """{topo, pk: [{s, f}]} emitted by ConserveMC -> the same topology built from real classes; the packets are handed in
    in the emitted order (flow f of the model = flow id f - 1) at seeded random non-decreasing instants."""
    topo = w["topo"]
    nf = 3 if topo == "fanout" else 2
    big = rng.random() < 0.25
    net = Net(rng, nf, big)
    srcs = {}
    if topo == "chain":
        srcs[1] = net.add("Inj", {"arr": []})
        chain = [one_of_kind(net, k) for k in ("port", "wire", "sched")]
        p = net.nodes[chain[1] - 1]["par"]
        p["loss"] = [1, 2]
        net.link(srcs[1], chain[0]); net.link(chain[0], chain[1]); net.link(chain[1], chain[2])
        net.link(chain[2], net.sink())
    elif topo == "fanin":
        srcs[1] = net.add("Inj", {"arr": []})
        srcs[2] = net.add("Inj", {"arr": []})
        tb, sch, red = net.tb(), net.sched(), net.red()
        net.link(srcs[1], tb); net.link(srcs[2], sch); net.link(tb, sch); net.link(sch, red)
        net.link(red, net.sink())
    elif topo == "fanout":
        srcs[1] = net.add("Inj", {"arr": []})
        if rng.random() < 0.5:
            sw = net.add("SimplePacketSwitch", {"nports": 2, "K": rng.choice([1, 2]), "buffer": rng.choice([1, 2, 3, 50])})
            to_demux = [0]
        else:
            table = [[0, rng.choice([1, 2])], [1, rng.choice([1, 2])]]
            sw = net.add("FairPacketSwitch", {"nports": 2, "K": rng.choice([1, 2]), "buffer": rng.choice([1, 2, 3, 50]),
                                              "server": rng.choice(["SP", "VirtualClock", "WFQ", "DRR"]),
                                              "w": [rng.choice([1, 2, 3]) for _ in range(nf)], "table": table})
            to_demux = [f for f, p in table if p == 1]
        net.link(srcs[1], sw)
        if rng.random() < 0.5:
            dm = net.add("FlowDemux", {"nouts": 1, "dflt": 0})       # flow 0 -> output 1, nothing else has a route
            net.link(sw, dm)
            wire = net.wire()
            net.nodes[wire - 1]["par"]["loss"] = None
            net.link(sw, wire)
            t = net.trtb()
            net.link(dm, t); net.link(t, net.sink())
            # the model's demux has two outputs; a FlowDemux with one output and no default reaches only the first
        else:
            dm = net.add("FIBDemux", {"nouts": 2, "table": [[0, rng.choice([1, 2])]], "dflt": 0, "ends": []})
            net.link(sw, dm)
            wire = net.wire()
            net.nodes[wire - 1]["par"]["loss"] = None
            net.link(sw, wire)
            t = net.trtb()
            net.link(dm, t); net.link(t, net.sink())
            net.link(dm, net.sink())
        net.link(wire, net.sink())
    else:   # split
        srcs[1] = net.add("Inj", {"arr": []})
        sp = net.add("Splitter") if rng.random() < 0.5 else net.add("NSplitter", {"n": 2})
        tb, sch = net.tb(), net.sched()
        net.link(srcs[1], sp); net.link(sp, tb); net.link(sp, sch); net.link(tb, sch)
        net.link(sch, net.sink())
    ts = net.instants(len(w["pk"]))
    style = {s: rng.choice([0, 1, 1, 2]) for s in srcs}
    for t, pk in zip(ts, w["pk"]):
        node = srcs[pk["s"]] if pk["s"] in srcs else srcs[1]
        # one chained process per source keeps the emitted order inside a source
        net.nodes[node - 1]["par"]["arr"].append({"t": t, "sz": rng.choice(net.sizes()), "f": pk["f"] - 1,
                                                  "src": max(1, style[pk["s"] if pk["s"] in srcs else 1]),
                                                  "pl": rng.choice([0, 0, 5])})
    for s, node in list(srcs.items()):
        if not net.nodes[node - 1]["par"]["arr"]:
            net.nodes[node - 1]["par"]["arr"] = []
    return net.finish("tlc/" + topo)


def from_gensink(rng, w):
    """{cfg, dl} emitted by GenSinkMC -> real DistPacketGenerator -> Wire with the emitted delays -> real PacketSink"""
    c = w["cfg"]
    k = rng.choice([1, 1, 2, 5])
    net = Net(rng, 2, False)
    n = len(c["gaps"])
    g = net.add("Gen", {"d0": c["d0"] * k, "gaps": [x * k for x in c["gaps"]], "sizes": list(c["sizes"])[:n] + [1] * 2,
                        "flow": c["flow"], "fin": c["fin"] * k if c["fin"] >= 0 else -1, "floats": rng.choice([0, 1])})
    wire = net.add("Wire", {"dl": [d * k for d in w["dl"]] or [0], "loss": None, "us": [[1, 2]]})
    s = net.add("PacketSink", {"recarr": c["recarr"], "abs": c["abs"], "recwait": c["recwait"], "byflow": c["byflow"],
                               "tcp": rng.choice([0, 0, 1])})
    net.link(g, wire); net.link(wire, s)
    sc = net.finish("tlc/gensink")
    sc["order"] = rng.choice([[1, 2, 3], [3, 2, 1], [2, 1, 3]])
    return sc


# ----------------------------------------------------------------------------- model checking
def mc_all(ctx):
    big = not ctx.quick
    acts = ("EnvEmit", "StepForward", "DoQuiesce")
    need = {"chain": acts + ("StepArrivalDrop", "StepLossDrop"), "fanin": acts + ("StepArrivalDrop",),
            "fanout": acts + ("StepArrivalDrop", "StepRouteDrop"), "split": acts + ("StepSplit",),
            "gensink": ("DoEmit", "DoDeliver", "DoTick")}
    cfgs, module = {}, {}
    for name in ("chain", "fanin", "fanout", "split"):
        text = open(tlc.SPEC + "/net/ConserveMC_%s.cfg" % name).read()
        if big:
            text = text.replace("MaxPk = 3", "MaxPk = 4").replace("MaxPk = 2", "MaxPk = 3")
        cfgs[name] = text
        module[name] = "ConserveMC"
    text = open(tlc.SPEC + "/net/GenSinkMC.cfg").read()
    if big:
        text = text.replace("FinSet = {2}", "FinSet = {0, 2, 3}").replace("MaxDelay = 2", "MaxDelay = 3")
    cfgs["gensink"] = text
    module["gensink"] = "GenSinkMC"
    workers = 3 if ctx.quick else 4
    with ThreadPoolExecutor(max_workers=len(cfgs)) as ex:
        futs = {n: ex.submit(tlc.run, module[n], c, tlc.SPEC + "/net", workers=workers, timeout=3000, heap=("3g" if ctx.quick else "5g"))
                for n, c in cfgs.items()}
        raw = {n: f.result() for n, f in futs.items()}
    out = {}
    real_run = tlc.run
    try:
        for n in cfgs:
            tlc.run = lambda *a, _r=raw[n], **k: _r          # bookkeeping + vacuity rules of ctx.mc on the finished run
            out[n] = ctx.mc(module[n], cfgs[n], "net", required_actions=need[n], label=module[n] + "/" + n)
    finally:
        tlc.run = real_run
    return out


def dedup(items):
    seen = {}
    for w in items:
        seen.setdefault(json.dumps(w, sort_keys=True), w)
    return [seen[k] for k in sorted(seen)]


# ----------------------------------------------------------------------------- classification
def classify(ctx, sc, tr):
    spec = sc["spec"]
    kinds = set()
    ev = tr["net"]["ev"]
    nodes = sc["nodes"]
    lastsrc = None
    for e in ev:
        if e["e"] == "B" and spec["kind"][e["fr"] - 1] == "src":
            if lastsrc == e["t"]:
                kinds.add("burst_at_one_instant")
            lastsrc = e["t"]
        if e["e"] == "R" and e["fl"][1] in spec["nor"][e["to"] - 1]:
            kinds.add("no_route")
        if e["e"] == "U":
            pn, pd = spec["loss"][e["to"] - 1]
            if e["un"] * pd < pn * e["ud"]:
                kinds.add("wire_loss")
        if e["e"] == "Q" and e["drp"] > 0:
            kinds.add("counted_drop")
    indeg = {}
    for nd in nodes:
        for j in nd["outs"]:
            indeg[j] = indeg.get(j, 0) + 1
    if any(v > 1 for v in indeg.values()):
        kinds.add("fan_in")
    for nd in nodes:
        c = nd["cls"]
        if KIND[c] in ("demux", "switch") and len(nd["outs"]) > 1:
            kinds.add("fan_out")
        if KIND[c] == "split":
            kinds.add("splitter_copy")
        if c == "Sched" and nd["par"]["cfg"]["nc"] < nd["par"]["cfg"]["nf"]:
            kinds.add("flows_share_class")
        if c == "Gen" and nd["par"].get("fin", -1) >= 0:
            kinds.add("generator_finish_time")
        if c == "PacketSink":
            if not nd["par"]["byflow"]:
                kinds.add("sink_per_source")
            if not nd["par"]["abs"]:
                kinds.add("sink_inter_arrival")
            if not nd["par"]["recarr"] or not nd["par"]["recwait"]:
                kinds.add("sink_recording_off")
    for k in kinds:
        ctx.count(k)
    for nd in nodes:
        c = nd["cls"] + ("/" + nd["par"]["sched"] if nd["cls"] == "Sched" else "")
        ctx.extra["element_instances"][c] = ctx.extra["element_instances"].get(c, 0) + 1
    return kinds


def describe(sc, ev, pos):
    at = ev[pos - 1] if 0 < pos <= len(ev) else None
    if at is None:
        return "trace rejected at its end", "end"
    who = ""
    if at.get("to"):
        nd = sc["nodes"][at["to"] - 1]
        who = nd["cls"] + ("/" + nd["par"]["sched"] if nd["cls"] == "Sched" else "")
    frm = ""
    if at.get("fr"):
        nd = sc["nodes"][at["fr"] - 1]
        frm = nd["cls"] + ("/" + nd["par"]["sched"] if nd["cls"] == "Sched" else "")
    return ("event %d %s (from %s to %s): %s" % (pos, at["e"], frm or "-", who or "-", json.dumps(at)),
            "%s %s>%s %s" % (at["e"], frm, who, at.get("type", "")))


# ----------------------------------------------------------------------------- the check
def run(ctx, replay=None):
    ctx.extra["element_instances"] = {}
    if replay:
        obj = json.load(open(replay))
        scs = [obj["scenario"]]
    else:
        res = mc_all(ctx)
        em_c = []
        for n in ("chain", "fanin", "fanout", "split"):
            em_c += dedup(res[n].emitted())
        em_g = dedup(res["gensink"].emitted())
        ctx.extra["workloads_emitted_by_tlc"] = len(em_c) + len(em_g)
        n_c = 500 if ctx.quick else 8000
        n_g = 500 if ctx.quick else 8000
        n_r = 700 if ctx.quick else 12000
        ctx.rng.shuffle(em_c)
        ctx.rng.shuffle(em_g)
        # every emitted packet sequence may be instantiated several times with different classes and instants
        scs = [from_conserve(ctx.rng, em_c[i % len(em_c)]) for i in range(n_c)]
        scs += [from_gensink(ctx.rng, w) for w in em_g[:n_g]]
        scs += [random_pipeline(ctx.rng) for _ in range(n_r)]
    trs = ctx.drive("conserve", scs, procs=12)
    for t in trs:
        if t.get("machinery"):
            raise core.Machinery("driver could not read a public attribute: %s" % t["machinery"])
    nets = [t["net"] for t in trs]
    gs, owner = [], []
    for i, t in enumerate(trs):
        for g in t["gens"] + t["sinks"]:
            gs.append({"cfg": g["cfg"], "ev": g["ev"]})
            owner.append((i, g["node"], g["cfg"]["role"]))
    stuck = ctx.validate("ConserveTrace", "ConserveTrace.cfg", "net", nets, shard=150)
    stuck_g = ctx.validate("GenSinkTrace", "GenSinkTrace.cfg", "net", gs, shard=400)
    bad_g = {}
    for j, pos in stuck_g.items():
        bad_g.setdefault(owner[j][0], []).append((j, pos))
    distinct = set()
    for i, (sc, tr) in enumerate(zip(scs, trs)):
        key = json.dumps(sc, sort_keys=True)
        if key in distinct:
            continue
        distinct.add(key)
        ok = True
        if i in stuck:
            ok = False
            detail, sig = describe(sc, tr["net"]["ev"], stuck[i])
            if tr["net"].get("error"):
                detail += "  raised " + tr["net"]["error"]
            ctx.violation("conserve_trace", sc, tr["net"], "pipeline trace rejected at " + detail, sig="net " + sig)
        for j, pos in bad_g.get(i, []):
            ev = gs[j]["ev"]
            at = ev[pos - 1] if pos - 1 < len(ev) else None
            role = owner[j][2]
            if at is not None and at["e"] == "X" and i in stuck:
                continue                      # the run raised: reported once, with the pipeline trace
            ok = False
            ctx.violation("%s_trace" % role, sc, gs[j], "%s trace of node %d rejected at event %d: %s" % (
                role, owner[j][1], pos, json.dumps(at)), sig="%s %s" % (role, at["e"] if at else "end"))
        if ok:
            classify(ctx, sc, tr)
            if i % 397 == 0:
                ctx.sample({"scenario": {"nodes": sc["nodes"], "origin": sc["origin"]}, "trace_events": tr["net"]["ev"][:8]})
    ctx.extra["distinct_scenarios"] = len(distinct)
    return ctx.finish(RULE, assumptions=[
        "packets handed to a scheduler belong to flows the scheduler is configured for, SP priorities are positive (the "
        "domain of C12/C13); forwarding tables name existing outputs",
        "every output of a splitter is connected; pipelines are acyclic (a packet object enters an element at most once)",
        "identity of a packet = identity of the Python object; the identifying fields compared are packet_id, flow_id, src, "
        "size, time and payload",
        "the model is untimed: when a packet leaves is decided by C09-C15, here only that it leaves, once, in flow order, "
        "unchanged, or is discarded by a documented rule (the number of wire losses is decided by the scripted draws against "
        "the loss rate, either outcome at equality; which packets were lost is inferred from overtaking inside the wire or "
        "from what is left at the end)",
        "generator / sink instants lie on a quarter-tick lattice; what `finish` means for a packet whose predecessor was "
        "emitted before and which is itself due at or after the finish time is left open (either), as is the first "
        "inter-arrival entry of a key (gap from time 0, or 0)"])


if __name__ == "__main__":
    core.main(run, "C08")
