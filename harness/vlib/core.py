"""Shared plumbing of the per-property checks: context, drivers, evidence, findings, replay."""
import hashlib
import json
import os
import random
import subprocess
import sys
import tempfile
import time
import shutil
from concurrent.futures import ThreadPoolExecutor

from . import tlc

VERIF = tlc.VERIF
PY = "/venv/bin/python"
GUARD = "ONL_EDU_VERIF"


class Machinery(Exception):
    """Something in the verification machinery failed; reported with exit 2, never as a VIOLATION."""


def repo_path():
    return os.path.abspath(os.environ.get("VERIF_REPO", "/repo"))


def load_findings():
    p = os.path.join(VERIF, "known_findings.json")
    if not os.path.exists(p):
        return []
    with open(p) as f:
        return json.load(f).get("findings", [])


class Ctx:
    def __init__(self, pid, tier, seed):
        self.pid = pid
        self.tier = tier
        self.seed = seed
        self.rng = random.Random(seed * 1000003 + int(pid[1:]))
        self.t0 = time.time()
        self.states = 0
        self.transitions = 0
        self.traces = 0
        self.events = 0
        self.actions = {}
        self.samples = []
        self.mc_runs = []
        self.nontrivial = {}
        self.violations = []
        self.known_hits = {}
        self.exhaustive = True
        self.notes = []
        self.extra = {}
        self.findings = [f for f in load_findings() if f.get("property") == pid or pid in f.get("also", [])]
        self.quick = tier == "quick"

    # ------------------------------------------------------------------ model checking
    def mc_many(self, jobs, parallel=4):
        """Several exhaustive runs concurrently.  jobs: list of dicts with the arguments of mc(); returns results in order."""
        def one(j):
            kw = {k: v for k, v in j.items() if k not in ("module", "cfg", "spec_dir", "required_actions", "label")}
            kw.setdefault("workers", max(2, 16 // max(1, min(parallel, len(jobs)))))
            return tlc.run(j["module"], j["cfg"], os.path.join(tlc.SPEC, j["spec_dir"]), **kw)
        with ThreadPoolExecutor(max_workers=parallel) as ex:
            results = list(ex.map(one, jobs))
        out = []
        for j, r in zip(jobs, results):
            out.append(self.mc(j["module"], j["cfg"], j["spec_dir"], j.get("required_actions", ()), j.get("label"),
                               _result=r, **{k: v for k, v in j.items() if k in ("simulate",)}))
        return out

    def mc(self, module, cfg, spec_dir, required_actions=(), label=None, _result=None, **kw):
        """Exhaustive (or simulation) run of a base spec.  An invariant violation here means the
        *specification* does not satisfy the formula -- a machinery error, not a code verdict."""
        r = _result if _result is not None else tlc.run(module, cfg, os.path.join(tlc.SPEC, spec_dir), **kw)
        label = label or "%s/%s" % (module, cfg if "\n" not in cfg else "inline")
        if r.timed_out:
            self.exhaustive = False
            self.notes.append("%s: stopped by the time cap after %d states" % (label, r.distinct))
        elif r.violated:
            raise Machinery("specification %s violates %s:\n%s" % (label, r.violated, "\n".join(r.trace[:120])))
        self.states += r.distinct
        self.transitions += r.generated
        for a, (d, t) in r.actions.items():
            od, ot = self.actions.get(a, (0, 0))
            self.actions[a] = (od + d, ot + t)
        if kw.get("simulate"):
            self.exhaustive = self.exhaustive and False
        for a in required_actions:
            if r.actions.get(a, (0, 0))[1] == 0 and not r.timed_out and not kw.get("simulate"):
                raise Machinery("vacuity: action %s of %s never taken" % (a, label))
        self.mc_runs.append({"spec": label, "distinct": r.distinct, "generated": r.generated,
                             "depth": r.depth, "wall_s": round(r.wall, 1),
                             "mode": "simulate" if kw.get("simulate") else "exhaustive",
                             "complete": not r.timed_out})
        return r

    def inductive(self, module, spec_dir, timeout=600):
        """Unbounded safety of a specification by an inductive invariant (Apalache).  A failed obligation means the
        *specification* (or the invariant) is wrong -- a machinery error, not a code verdict."""
        from . import apalache
        try:
            r = apalache.inductive(module, spec_dir, timeout)
        except apalache.ApalacheError as e:
            raise Machinery(str(e))
        if not (r["base_ok"] and r["step_ok"]):
            raise Machinery("invariant IndInv of %s is not inductive: %s" % (module, r["detail"]))
        self.mc_runs.append({"spec": module + " (Apalache, unbounded: Init => IndInv, IndInv /\\ Next => IndInv')", "distinct": 0,
                             "generated": 0, "depth": 1, "wall_s": r["wall_s"], "mode": "inductive", "complete": True})
        return r

    # ------------------------------------------------------------------ real code
    def drive(self, driver, scenarios, procs=8, hashseed="0", timeout=1800, extra_env=None, chunk=None):
        """Execute scenarios on the real code (fresh interpreter per chunk, PYTHONPATH=<repo>)."""
        if not scenarios:
            return []
        chunk = chunk or max(1, (len(scenarios) + procs - 1) // procs)
        parts = [scenarios[i:i + chunk] for i in range(0, len(scenarios), chunk)]
        drv = os.path.join(VERIF, "harness", "drivers", driver + ".py")
        repo = repo_path()

        def one(part):
            tmp = tempfile.mkdtemp(prefix="vdrv.")
            try:
                inp = os.path.join(tmp, "in.json")
                outp = os.path.join(tmp, "out.json")
                with open(inp, "w") as f:
                    json.dump(part, f)
                env = dict(os.environ)
                env["PYTHONPATH"] = repo + ":" + os.path.join(VERIF, "harness", "drivers")
                env["PYTHONHASHSEED"] = str(hashseed)
                env[GUARD] = "1"
                env["VERIF_REPO"] = repo
                env["PYTHONDONTWRITEBYTECODE"] = "1"
                if extra_env:
                    env.update(extra_env)
                p = subprocess.run([PY, "-B", drv, inp, outp], cwd=tmp, env=env, stdout=subprocess.PIPE,
                                   stderr=subprocess.PIPE, timeout=timeout, text=True, errors="replace")
                if p.returncode != 0 or not os.path.exists(outp):
                    raise Machinery("driver %s failed (exit %s):\n%s" % (driver, p.returncode, p.stderr[-3000:]))
                with open(outp) as f:
                    return json.load(f)
            finally:
                shutil.rmtree(tmp, ignore_errors=True)

        out = []
        with ThreadPoolExecutor(max_workers=procs) as ex:
            for res in ex.map(one, parts):
                out.extend(res)
        if len(out) != len(scenarios):
            raise Machinery("driver %s returned %d traces for %d scenarios" % (driver, len(out), len(scenarios)))
        return out

    def validate(self, module, cfg, spec_dir, traces, shard=400, **kw):
        stuck, st = tlc.validate_batches(module, cfg, os.path.join(tlc.SPEC, spec_dir), traces, shard=shard, **kw)
        self.states += st["distinct"]
        self.transitions += st["generated"]
        self.traces += len(traces)
        self.events += sum(len(t.get("ev", [])) for t in traces)
        return stuck

    # ------------------------------------------------------------------ verdicts
    def count(self, key, n=1):
        self.nontrivial[key] = self.nontrivial.get(key, 0) + n

    def count_case(self, n=1):
        """One more distinct scenario that is non-trivial by the check's rule (whatever number of kinds it shows)."""
        self.cases = getattr(self, "cases", 0) + n

    def sample(self, obj, limit=4):
        if len(self.samples) < limit:
            self.samples.append(obj)

    def replay_path(self, obj):
        d = hashlib.sha1(json.dumps(obj, sort_keys=True, default=str).encode()).hexdigest()[:12]
        return os.path.join(os.environ.get("VERIF_REPLAY_DIR") or os.path.join(VERIF, "replay"), "%s-%s.json" % (self.pid, d))

    def violation(self, kind, scenario, trace=None, detail="", sig=None):
        """Record a violation unless an open known finding matches (matcher = finding['match'])."""
        obj = {"property": self.pid, "check": kind, "scenario": scenario, "trace": trace, "detail": detail}
        for f in self.findings:
            if f.get("status") != "open":
                continue
            if match_finding(f, kind, scenario, trace, detail):
                self.known_hits.setdefault(f["id"], [f, 0])[1] += 1
                return False
        path = self.replay_path(obj)
        self.sigs = getattr(self, "sigs", {})
        self.sigs[sig or kind] = self.sigs.get(sig or kind, 0) + 1
        if len(self.violations) < 25 or self.sigs[sig or kind] <= 3:
            os.makedirs(os.path.dirname(path), exist_ok=True)
            with open(path, "w") as fh:
                json.dump(obj, fh, indent=1, default=str)
        self.violations.append((path, kind, detail))
        return True

    def known(self, fid, scenario=None):
        """An instance of a listed open finding (recognised through its deviation, DESIGN 4.6)."""
        for f in self.findings:
            if f["id"] == fid and f.get("status") == "open":
                self.known_hits.setdefault(fid, [f, 0])[1] += 1
                return True
        self.violation("unlisted_finding", scenario, None, "behaviour explained only by deviation %s, which is not an open finding" % fid)
        return False

    def finish(self, rule, assumptions=()):
        wall = time.time() - self.t0
        # distinct non-trivial scenarios: counted per scenario where the check does so, otherwise (conservatively) the
        # largest single kind -- never the sum over kinds, which would count one scenario several times
        nontriv = getattr(self, "cases", 0) or (max(self.nontrivial.values()) if self.nontrivial else 0)
        cov = {
            "states": max(1, self.states), "transitions": max(1, self.transitions),
            "traces_validated_against_impl": self.traces,
            "trace_events_validated": self.events,
            "samples": self.samples or ["(no sample recorded)"],
            "exhaustive": bool(self.exhaustive),
            "exhaustive_scope": "the TLC state space of every listed model-checking run marked complete; the traces replayed on / recorded from the implementation are a (seeded) sample unless a note says all emitted cases were replayed",
            "evaluations": max(1, self.traces), "distinct_nontrivial": nontriv, "rule": rule,
            "nontrivial_by_kind": self.nontrivial,
            "model_checking_runs": self.mc_runs,
            "action_coverage": {a: {"distinct": d, "taken": t} for a, (d, t) in sorted(self.actions.items())},
            "notes": self.notes, "repo": repo_path(),
        }
        cov.update(self.extra)
        ev = {"property_id": self.pid, "tier": self.tier, "seed": self.seed, "level": "model_checking",
              "coverage": cov, "assumptions": list(assumptions), "wall_s": round(wall, 2),
              "violations": len(self.violations),
              "known_findings_hit": {k: v[1] for k, v in self.known_hits.items()}}
        evdir = os.environ.get("VERIF_EVIDENCE_DIR") or os.path.join(VERIF, "evidence")
        os.makedirs(evdir, exist_ok=True)
        with open(os.path.join(evdir, self.pid + ".json"), "w") as f:
            json.dump(ev, f, indent=1, default=str)
        for fid, (f, n) in sorted(self.known_hits.items()):
            print("KNOWN-FINDING: property=%s %s: %s (%d scenario(s) this run)" % (self.pid, fid, f.get("what", ""), n))
        seen = set()
        for path, kind, detail in self.violations:
            if path in seen:
                continue
            seen.add(path)
            if len(seen) <= 10:
                print("VIOLATION property=%s replay=%s" % (self.pid, path))
                print("  [%s] %s" % (kind, str(detail)[:300]))
        if self.violations:
            for k, n in sorted(getattr(self, "sigs", {}).items(), key=lambda kv: -kv[1]):
                print("  %5d x %s" % (n, k))
            print("%s: %d violating scenario(s)" % (self.pid, len(self.violations)))
            return 1
        print("%s %s: ok  states=%d traces=%d events=%d nontrivial=%d wall=%.1fs" % (
            self.pid, self.tier, self.states, self.traces, self.events, nontriv, wall))
        return 0


def match_finding(f, kind, scenario, trace, detail):
    """A finding lists `check` (kind) and a `signature`: a dict of scenario/trace keys that must be equal
    (dotted paths) and/or `detail_contains`.  Never added to at run time."""
    m = f.get("match", {})
    if m.get("check") and m["check"] != kind:
        return False
    if m.get("detail_contains") and m["detail_contains"] not in str(detail):
        return False
    for path, want in m.get("scenario", {}).items():
        cur = scenario
        try:
            for k in path.split("."):
                cur = cur[int(k)] if isinstance(cur, list) else cur[k]
        except Exception:
            return False
        if cur != want:
            return False
    pred = m.get("predicate")
    if pred:
        from . import predicates
        fn = getattr(predicates, pred, None)
        if fn is None or not fn(scenario, trace, detail):
            return False
    return bool(m)


def main(run_fn, pid):
    import argparse
    ap = argparse.ArgumentParser()
    ap.add_argument("--tier", default=os.environ.get("VERIF_TIER", "quick"))
    ap.add_argument("--replay")
    a = ap.parse_args(sys.argv[2:] if len(sys.argv) > 1 and sys.argv[1] == pid else None)
    tier = a.tier if a.tier in ("quick", "thorough") else "quick"
    seed = int(os.environ.get("VERIF_SEED", "0") or 0)
    ctx = Ctx(pid, tier, seed)
    if not a.replay:
        # replay files of earlier runs of this property are stale by definition
        import glob
        rdir = os.environ.get("VERIF_REPLAY_DIR") or os.path.join(VERIF, "replay")
        for old in glob.glob(os.path.join(rdir, "%s-*.json" % pid)):
            try:
                os.remove(old)
            except OSError:
                pass
    try:
        rc = run_fn(ctx, a.replay)
    except (Machinery, tlc.TLCError) as e:
        print("MACHINERY-FAILURE property=%s: %s" % (pid, e), file=sys.stderr)
        sys.exit(2)
    sys.exit(rc)
