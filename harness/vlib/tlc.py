"""Run TLC and parse what it prints.  Standard library only.

Every run happens in a private scratch directory (spec files are copied there, the metadir lives
there) which is removed afterwards; nothing is written next to the specs.
"""
import json
import os
import re
import shutil
import subprocess
import tempfile
import time
from concurrent.futures import ThreadPoolExecutor

JAR = "/opt/veriftools/tla/tla2tools.jar"
DEPS = "/opt/veriftools/tla/CommunityModules-deps.jar"
VERIF = os.path.dirname(os.path.dirname(os.path.dirname(os.path.abspath(__file__))))
SPEC = os.path.join(VERIF, "spec")


class TLCError(Exception):
    """Machinery failure (parse error, TLC crash, timeout) -- never a property verdict."""


class Result:
    def __init__(self):
        self.out = ""
        self.generated = 0
        self.distinct = 0
        self.depth = 0
        self.ok = False            # "No error has been found"
        self.violated = None       # name of a violated invariant / property
        self.error = None          # other TLC error text
        self.prints = []           # lines printed by PrintT (raw text)
        self.actions = {}          # action name -> (distinct, total) from -coverage
        self.wall = 0.0
        self.timed_out = False
        self.trace = []            # counterexample text lines

    def emitted(self, tag="EMIT"):
        """JSON payloads of PrintT(<<tag, ToJson(x)>>) lines, decoded."""
        res = []
        pre = '<<"%s", ' % tag
        for ln in self.prints:
            if ln.startswith(pre) and ln.endswith(">>"):
                body = ln[len(pre):-2]
                try:
                    res.append(json.loads(json.loads(body)))
                except Exception:
                    pass
        return res

    def tuples(self, tag):
        """PrintT(<<tag, i, j, ...>>) with integer/string fields -> list of lists."""
        res = []
        pre = '<<"%s"' % tag
        for ln in self.prints:
            if ln.startswith(pre) and ln.endswith(">>"):
                body = "[" + ln[2:-2] + "]"
                try:
                    res.append(json.loads(body))
                except Exception:
                    res.append([tag, ln])
        return res


_re_states = re.compile(r"^(\d+) states generated, (\d+) distinct states found")
_re_depth = re.compile(r"^The depth of the complete state graph search is (\d+)")
_re_inv = re.compile(r"^Error: Invariant (\S+) is violated")
_re_prop = re.compile(r"^Error: (?:Action|Temporal) propert(?:y|ies) (\S+)? ?(?:is|were) violated")
_re_cov = re.compile(r"^<(\w+) line \d+, col \d+ to line \d+, col \d+ of module (\w+)>: (\d+):(\d+)")
_re_sim = re.compile(r"The number of states generated: (\d+)")


def parse(out, res):
    in_trace = False
    for ln in out.splitlines():
        m = _re_states.match(ln)
        if m:
            res.generated = int(m.group(1))
            res.distinct = int(m.group(2))
            continue
        m = _re_sim.search(ln)
        if m:
            res.generated = max(res.generated, int(m.group(1)))
            res.distinct = max(res.distinct, int(m.group(1)))
            continue
        m = _re_depth.match(ln)
        if m:
            res.depth = int(m.group(1))
            continue
        if ln.startswith("Model checking completed. No error has been found."):
            res.ok = True
            continue
        m = _re_inv.match(ln)
        if m:
            res.violated = m.group(1)
            in_trace = True
            continue
        m = _re_prop.match(ln)
        if m:
            res.violated = m.group(1) or "property"
            in_trace = True
            continue
        if ln.startswith("Error:") and res.error is None and res.violated is None:
            res.error = ln
            in_trace = True
            continue
        m = _re_cov.match(ln)
        if m:
            name = m.group(1)
            d, t = int(m.group(3)), int(m.group(4))
            od, ot = res.actions.get(name, (0, 0))
            res.actions[name] = (od + d, ot + t)
            continue
        if ln.startswith("<<") or ln.startswith('"') or ln.startswith("["):
            if not in_trace:
                res.prints.append(ln)
                continue
        if in_trace and len(res.trace) < 400:
            res.trace.append(ln)
    return res


def run(module, cfg, spec_dir, files=None, workers=16, timeout=3600, simulate=None, depth=None,
        seed=None, coverage=True, env=None, heap="8g", dfs=False, extra_args=(), keep=None):
    """Run TLC on spec_dir/module.tla with spec_dir/cfg (or cfg text when it contains a newline).

    files: {name: text-or-python-object} written into the scratch dir (objects as JSON).
    Returns Result; raises TLCError for machinery failures.
    """
    tmp = tempfile.mkdtemp(prefix="vtlc.")
    res = Result()
    try:
        for fn in os.listdir(spec_dir):
            if fn.endswith(".tla") or fn.endswith(".cfg"):
                shutil.copy(os.path.join(spec_dir, fn), tmp)
        common = os.path.join(SPEC, "common")
        if os.path.isdir(common):
            for fn in os.listdir(common):
                if fn.endswith(".tla") and not os.path.exists(os.path.join(tmp, fn)):
                    shutil.copy(os.path.join(common, fn), tmp)
        if "\n" in cfg:
            with open(os.path.join(tmp, "_inline.cfg"), "w") as f:
                f.write(cfg)
            cfg = "_inline.cfg"
        for name, content in (files or {}).items():
            with open(os.path.join(tmp, name), "w") as f:
                if isinstance(content, str):
                    f.write(content)
                else:
                    json.dump(content, f, separators=(",", ":"))
        # TLC creates a directory under java.io.tmpdir on every start: keep it inside the private scratch directory
        cmd = ["java", "-XX:+UseParallelGC", "-XX:ParallelGCThreads=4", "-Xmx" + heap, "-Djava.io.tmpdir=" + tmp]
        if workers == 1:
            cmd += ["-XX:ParallelGCThreads=2", "-XX:CICompilerCount=2", "-XX:TieredStopAtLevel=1"]
        if dfs:
            cmd.append("-Dtlc2.tool.queue.IStateQueue=StateDeque")
        cmd += ["-cp", JAR + ":" + DEPS, "tlc2.TLC", "-workers", str(workers),
                "-metadir", os.path.join(tmp, "meta"), "-noGenerateSpecTE"]
        if coverage and not simulate:
            cmd += ["-coverage", "1"]
        if simulate:
            cmd += ["-simulate", "num=%d" % simulate]
            if depth:
                cmd += ["-depth", str(depth)]
        if seed is not None:
            cmd += ["-seed", str(seed)]
        cmd += list(extra_args)
        cmd += ["-config", cfg, module + ".tla"]
        e = dict(os.environ)
        e.pop("JAVA_TOOL_OPTIONS", None)
        if env:
            e.update(env)
        t0 = time.time()
        outfile = os.path.join(tmp, "_tlc.out")
        with open(outfile, "w") as fo:
            try:
                p = subprocess.run(cmd, cwd=tmp, stdout=fo, stderr=subprocess.STDOUT, timeout=timeout, env=e)
            except subprocess.TimeoutExpired:
                res.timed_out = True
        # PrintT lines are printed once per generated state: de-duplicate while reading so that runs emitting
        # millions of lines do not have to be held in memory
        seen = set()
        kept = []
        with open(outfile, errors="replace") as fi:
            for ln in fi:
                if ln.startswith('<<"'):
                    if ln in seen:
                        continue
                    seen.add(ln)
                kept.append(ln)
        out = "".join(kept)
        del seen, kept
        res.wall = time.time() - t0
        res.out = out
        parse(out, res)
        if keep:
            with open(keep, "w") as f:
                f.write(out)
        if res.timed_out:
            return res
        if simulate and not res.ok and res.violated is None and res.error is None and "Error:" not in out:
            res.ok = True          # a simulation run that ends without an error prints no "No error has been found"
        if not res.ok and res.violated is None:
            tail = "\n".join([l for l in out.splitlines() if not l.startswith('<<"')][-40:])
            raise TLCError("TLC failed on %s/%s:\n%s" % (module, cfg, tail))
        return res
    finally:
        shutil.rmtree(tmp, ignore_errors=True)


def validate_batches(module, cfg, spec_dir, traces, shard=400, workers=None, timeout=1800,
                     trace_file="traces.json", files=None, dfs=False):
    """Batch trace validation (DESIGN 4.2).

    traces: list of JSON-able trace objects.  The trace module prints <<"STUCK", tid, l>> for
    every trace whose longest matched prefix is shorter than the trace and <<"DONE", n>> at the end.
    Returns (stuck: {global index -> position}, stats dict).
    """
    shards = [(i, traces[i:i + shard]) for i in range(0, len(traces), shard)]
    nproc = workers or min(10, max(1, len(shards)))
    stuck = {}
    stats = {"generated": 0, "distinct": 0, "tlc_runs": 0, "wall": 0.0}

    def one(arg):
        base, chunk = arg
        fs = dict(files or {})
        fs[trace_file] = chunk
        r = run(module, cfg, spec_dir, files=fs, workers=1, timeout=timeout, coverage=False, dfs=dfs,
                heap="2g")
        if r.timed_out:
            raise TLCError("trace validation timed out (%s)" % module)
        done = r.tuples("DONE")
        if not done or done[0][1] != len(chunk):
            raise TLCError("trace validation of %s did not finish:\n%s" % (module, r.out[-3000:]))
        loc = {}
        for t in r.tuples("STUCK"):
            loc[base + t[1] - 1] = t[2]
        return loc, r

    t0 = time.time()
    with ThreadPoolExecutor(max_workers=nproc) as ex:
        for loc, r in ex.map(one, shards):
            stuck.update(loc)
            stats["generated"] += r.generated
            stats["distinct"] += r.distinct
            stats["tlc_runs"] += 1
    stats["wall"] = time.time() - t0
    return stuck, stats
