"""Run Apalache (symbolic model checker) on an inductive-invariant wrapper module.  Standard library only.

inductive(module, spec_dir) discharges the two obligations of an inductive invariant
    Init => IndInv                      (--init=Init    --inv=IndInv --length=0)
    IndInv /\\ Next => IndInv'          (--init=IndInit --inv=IndInv --length=1)
in a private scratch directory.  The result is a verdict about the SPECIFICATION for unbounded parameters; it says
nothing about the implementation (that is what the conformance runs are for)."""
import os
import re
import shutil
import subprocess
import tempfile
import time

from . import tlc


class ApalacheError(Exception):
    """Machinery failure -- never a property verdict."""


def _run(tmp, module, init, inv, length, timeout):
    t0 = time.time()
    cmd = ["apalache-mc", "check", "--init=" + init, "--inv=" + inv, "--length=%d" % length,
           "--out-dir=" + os.path.join(tmp, "out"), "--run-dir=" + os.path.join(tmp, "run"), module + ".tla"]
    env = dict(os.environ, JVM_ARGS="-Xmx2g")
    try:
        p = subprocess.run(cmd, cwd=tmp, env=env, stdout=subprocess.PIPE, stderr=subprocess.STDOUT, text=True, timeout=timeout)
    except subprocess.TimeoutExpired:
        raise ApalacheError("apalache-mc timed out after %ss on %s (%s)" % (timeout, module, init))
    out = p.stdout
    if "EXITCODE: OK" in out and "The outcome is: NoError" in out:
        return True, time.time() - t0, ""
    m = re.search(r"State \d+: (.*violated.*)", out)
    if "The outcome is: Error" in out and m:
        return False, time.time() - t0, m.group(1).strip()
    raise ApalacheError("apalache-mc failed on %s (%s):\n%s" % (module, init, out[-1500:]))


def inductive(module, spec_dir, timeout=600):
    """-> dict(spec, base_ok, step_ok, detail, wall_s).  Both obligations must hold for the invariant to be inductive."""
    src = os.path.join(tlc.SPEC, spec_dir)
    tmp = tempfile.mkdtemp(prefix="vapa.")
    try:
        for f in os.listdir(src):
            if f.endswith(".tla"):
                shutil.copy(os.path.join(src, f), tmp)
        base, w1, d1 = _run(tmp, module, "Init", "IndInv", 0, timeout)
        step, w2, d2 = _run(tmp, module, "IndInit", "IndInv", 1, timeout)
        return {"spec": module, "method": "apalache inductive invariant (Init => IndInv; IndInv /\\ Next => IndInv')",
                "base_ok": base, "step_ok": step, "detail": (d1 + " " + d2).strip(), "wall_s": round(w1 + w2, 1)}
    finally:
        shutil.rmtree(tmp, ignore_errors=True)
