"""pytest plug-in (loaded with -p agenda_recorder): records what every Environment of the repository's own tests and
demo programs does with its agenda -- schedule(event, priority, delay) calls and the events step() pops -- without touching
/repo (Environment.schedule/step are wrapped from outside, at import time of this plug-in).  One trace per Environment,
written as JSON to $AGENDA_TRACE_OUT at the end of the session; validated by spec/kernel/AgendaTrace.tla."""
import atexit
import json
import os

TRACES = []          # one dict per Environment
_BY_ENV = {}


def _trace(env):
    t = _BY_ENV.get(id(env))
    if t is None or t["env"] is not env:
        t = {"env": env, "ev": [], "ids": {}, "keep": []}
        _BY_ENV[id(env)] = t
        TRACES.append(t)
    return t


def _eid(t, event):
    k = id(event)
    if k not in t["ids"]:
        t["ids"][k] = len(t["ids"]) + 1
        t["keep"].append(event)          # keep the object alive so that id() is not reused
    return t["ids"][k]


def install():
    import onl.sim.core as core
    if getattr(core.Environment, "_agenda_recorder", False):
        return
    orig_schedule = core.Environment.schedule
    orig_step = core.Environment.step

    def schedule(self, event, priority=core.NORMAL, delay=0):
        t = _trace(self)
        t["ev"].append(["S", _eid(t, event), int(priority), self.now, self.now + delay])
        t.setdefault("out", []).append((event, int(priority), self.now + delay))
        return orig_schedule(self, event, priority, delay)

    def step(self):
        # Which occurrence a step processed is read off the public API only: it is the scheduled event whose
        # `processed` flag has turned true (the recorder never looks into the environment's private queue).
        t = _trace(self)
        at = len(t["ev"])
        err = ""
        try:
            r = orig_step(self)
        except BaseException as e:  # noqa
            err = type(e).__name__
            raise
        finally:
            out = t.setdefault("out", [])
            done = [x for x in out if getattr(x[0], "callbacks", 0) is None]
            if done:
                ev, prio, due = done[0]
                out.remove(done[0])
                rec = ["P", _eid(t, ev), prio, due, due]
            elif err == "EmptySchedule":
                rec = ["P", 0, 0, self.now, self.now]
            else:
                # an occurrence the kernel put on the agenda itself (the stop event of run(until=number))
                rec = ["U", 0, 0, self.now, self.now]
            t["ev"].insert(at, rec)
            t["ev"].append(["E", 0, 0, self.now, self.now, err or ""])
        return r

    core.Environment.schedule = schedule
    core.Environment.step = step
    core.Environment._agenda_recorder = True


def dump():
    out = os.environ.get("AGENDA_TRACE_OUT")
    if not out:
        return
    res = []
    for t in TRACES:
        evs = t["ev"]
        if not evs:
            continue
        # rank abstraction of instants (ints and floats alike)
        vals = sorted({float(x) for e in evs for x in (e[3], e[4])})
        rank = {v: i for i, v in enumerate(vals)}
        res.append({"ev": [{"e": e[0], "id": e[1], "prio": e[2], "now": rank[float(e[3])], "due": rank[float(e[4])],
                            "x": e[5] if len(e) > 5 else ""} for e in evs]})
    with open(out, "w") as f:
        json.dump(res, f)


install()
atexit.register(dump)
