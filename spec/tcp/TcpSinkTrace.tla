---------------------------- MODULE TcpSinkTrace ----------------------------
(* Batch validation of traces recorded from the real TCPSink against TcpSink.tla.                           *)
(* Events (uniform records): "A" a segment (seq, sz) is about to be handed to put(); "K" an acknowledgement  *)
(* with number ack appeared on the sink's output; "R" put() returned; "Q" end of the scenario with           *)
(* pre = contiguous prefix of the public recv_buffer; "X" an exception escaped (no action matches it).        *)
EXTENDS TcpSink, Json
VARIABLES tid, l
Traces == JsonDeserialize("traces.json")
vars == <<svars, tid, l>>
Tr == Traces[tid].ev
Ev == Tr[l]

Init == /\ tid \in 1..Len(Traces) /\ l = 1 /\ TLCSet(tid, 1)
        /\ SinkInit
More == l <= Len(Tr)
Consume == l' = l + 1 /\ UNCHANGED tid

ArriveEv == More /\ Ev.e = "A" /\ Arrive(Ev.seq, Ev.sz) /\ Consume
AckEv ==    More /\ Ev.e = "K" /\ Ack(Ev.ack) /\ Consume
\* put() returned: the acknowledgement must have been emitted inside the call
ReturnEv == More /\ Ev.e = "R" /\ owed = 0 /\ UNCHANGED svars /\ Consume
QuietEv ==  More /\ Ev.e = "Q" /\ owed = 0 /\ Ev.pre = Prefix(got) /\ UNCHANGED svars /\ Consume
Next == ArriveEv \/ AckEv \/ ReturnEv \/ QuietEv
Spec == Init /\ [][Next]_vars

Mark == TLCSet(tid, IF l > TLCGet(tid) THEN l ELSE TLCGet(tid))
Post == /\ \A i \in 1..Len(Traces) :
             TLCGet(i) = Len(Traces[i].ev) + 1 \/ PrintT(<<"STUCK", i, TLCGet(i)>>)
        /\ PrintT(<<"DONE", Len(Traces)>>)
=============================================================================
