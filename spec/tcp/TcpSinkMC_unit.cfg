SPECIFICATION Spec
CONSTANTS
  MaxArr = 5
  Seqs = {0, 1, 2, 3, 4}
  Sizes = {1}
CONSTRAINT Emit
INVARIANT AckIsPrefix
INVARIANT AckMonotone
INVARIANT AckWithinData
INVARIANT AckAlwaysPossible
INVARIANT OnePerArrival
PROPERTY NeverDecreases
CHECK_DEADLOCK FALSE
