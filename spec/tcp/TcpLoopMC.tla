----------------------------- MODULE TcpLoopMC -----------------------------
(* Closed system for TcpLoop: every flow length in NSegs, every scripted drop pattern with at most MaxDD data    *)
(* and MaxAD ACK drops among the first transmissions DropIdx, timers firing at any point.  To keep the state     *)
(* space finite the environment is bounded (never the sender or the sink): at most Win segments outstanding,     *)
(* at most QMax acknowledgements in flight, and a segment is retransmitted only when no copy of it is on the     *)
(* data path.  Every drop pattern is emitted as a scenario for the real loop.                                    *)
EXTENDS TcpLoop, Json
CONSTANTS NSegs, DropIdx, MaxDD, MaxAD, QMax, Win,
          Fifos,       \* {1}: FIFO paths; {0}: paths that may reorder; {0, 1}: both
          Timelies     \* {0}: timers fire whenever pending; {1}: RTT < RTO (a timer expires only when the copy it
                       \* was started for, or the answer to it, was lost); {0, 1}: both
vars == lvars

Init == \E n \in NSegs, dd \in SUBSET DropIdx, ad \in SUBSET DropIdx, tm \in Timelies, ff \in Fifos :
          /\ Cardinality(dd) <= MaxDD /\ Cardinality(ad) <= MaxAD
          /\ InitWith([n |-> n, dd |-> dd, ad |-> ad, timely |-> tm, fifo |-> ff])

MaxSeg == MaxOf(NSegs) - 1
EnvSend == nxt - una < Win /\ SendNew
EnvTimer(s) == ~InDq(s) /\ TimerFire(s)
EnvRecv == Len(aq) < QMax /\ SinkRecv
EnvAck == aq # <<>> /\ AckArrive(FALSE)
EnvAckFrx == ~InDq(una) /\ AckArrive(TRUE)
AnyTimer == \E s \in 0..MaxSeg : EnvTimer(s)
AnyAck == EnvAck \/ EnvAckFrx
Next == EnvSend \/ AnyTimer \/ EnvRecv \/ EnvAck \/ EnvAckFrx
Spec == Init /\ [][Next]_vars
\* weak fairness: the sender's process runs, the paths deliver, pending timers expire
FairSpec == /\ Spec /\ WF_vars(EnvSend) /\ WF_vars(EnvRecv) /\ WF_vars(AnyAck)
            /\ \A s \in 0..MaxSeg : WF_vars(EnvTimer(s))

SetToSeq(S) == LET RECURSIVE f(_)
                   f(T) == IF T = {} THEN <<>> ELSE LET x == CHOOSE y \in T : \A z \in T : y <= z
                                                 IN <<x>> \o f(T \ {x})
               IN f(S)
Emit == (txn = 0 /\ nxt = 0) =>
          PrintT(<<"EMIT", ToJson([n |-> cfg.n, dd |-> SetToSeq(cfg.dd), ad |-> SetToSeq(cfg.ad), timely |-> cfg.timely, fifo |-> cfg.fifo])>>)

(* ---- the clauses ---- *)
\* all data gets through
Delivers == <>AllDelivered
Stable == [][AllDelivered => AllDelivered']_vars
\* ... and then the sender is silent: nothing is (re)transmitted once everything is acknowledged
SilentWhenDone == [][AllDelivered => (txn' = txn /\ Len(dq') <= Len(dq))]_vars
\* loss-free path, RTT < RTO: every data transmission is a new segment, so none is transmitted twice
LossFreeTimely == cfg.timely = 1 /\ cfg.dd = {} /\ cfg.ad = {}
NoSpuriousRetx == [][LossFreeTimely => (Len(dq') > Len(dq) => nxt' = nxt + 1)]_vars
NoDuplicateInFlight == LossFreeTimely => /\ \A i, j \in 1..Len(dq) : dq[i] = dq[j] => i = j
                                         /\ \A i \in 1..Len(dq) : dq[i] \notin rcvd
\* the acknowledged mark only moves forward
MarkMonotone == [][una' >= una]_vars
=============================================================================
