------------------------------ MODULE TcpSink ------------------------------
(***************************************************************************)
(* The receiving end of a TCP flow -- first sentence of property C16.      *)
(*                                                                         *)
(* "The ACK number a TCPSink returns for every arriving segment equals the *)
(* length of the contiguous byte prefix [0, n) it has received so far --   *)
(* whatever the order, duplication or gaps of the arrivals -- and          *)
(* therefore never decreases."                                             *)
(*                                                                         *)
(* State: the set of byte ranges <<lo, hi>> (= bytes lo .. hi-1) that have *)
(* arrived.  Every arrival is answered by exactly one acknowledgement      *)
(* before the next arrival is taken; its number is the largest n such that *)
(* every byte of [0, n) lies in some received range.  Nothing else about   *)
(* the sink is modelled.  Untimed: the property does not mention time.     *)
(***************************************************************************)
EXTENDS Naturals, Integers, Sequences, FiniteSets, TLC

VARIABLES got,      \* set of received byte ranges <<lo, hi>>, lo < hi
          owed,     \* 1: an arrival has been taken and its acknowledgement is still owed; 0 otherwise
          lastack,  \* number of the latest acknowledgement (0 before the first)
          hist      \* history: one record [ack, got] per acknowledgement emitted (got = ranges held then)
svars == <<got, owed, lastack, hist>>

SinkInit == got = {} /\ owed = 0 /\ lastack = 0 /\ hist = <<>>

MaxHi(R) == CHOOSE h \in {r[2] : r \in R} : \A r \in R : r[2] <= h

(* end of the contiguous prefix: from n, follow any received range that contains or starts at byte n *)
RECURSIVE Reach(_, _)
Reach(n, R) == LET ext == {r \in R : r[1] <= n /\ r[2] > n}
               IN IF ext = {} THEN n ELSE Reach(MaxHi(ext), R)
Prefix(R) == Reach(0, R)

(* ---- a segment with bytes seq .. seq+size-1 arrives ---- *)
Arrive(seq, size) ==
  /\ owed = 0 /\ seq >= 0 /\ size > 0
  /\ got' = got \cup {<<seq, seq + size>>}
  /\ owed' = 1
  /\ UNCHANGED <<lastack, hist>>

(* ---- the acknowledgement for it is emitted ---- *)
Ack(a) ==
  /\ owed = 1
  /\ a = Prefix(got)
  /\ owed' = 0 /\ lastack' = a
  /\ hist' = Append(hist, [ack |-> a, got |-> got])
  /\ UNCHANGED got

(* ---------------- the clauses, phrased without Reach ---------------- *)
Covered(b, R) == \E r \in R : r[1] <= b /\ b < r[2]
\* the ACK number n: every byte below n has been received, byte n has not
AckIsPrefix == \A k \in 1..Len(hist) :
                 /\ \A b \in 0..(hist[k].ack - 1) : Covered(b, hist[k].got)
                 /\ ~Covered(hist[k].ack, hist[k].got)
AckMonotone == \A i, j \in 1..Len(hist) : i <= j => hist[i].ack <= hist[j].ack
\* an acknowledgement never claims more than has arrived at all
AckWithinData == \A k \in 1..Len(hist) :
                   hist[k].ack = 0 \/ \E r \in hist[k].got : r[2] >= hist[k].ack
=============================================================================
