---------------------------- MODULE TcpSenderMC ----------------------------
(* Closed system for exhaustive checking of TcpSender with EXACT RATIONALS <<num, den>> (den > 0, lowest     *)
(* terms): an environment that delivers new ACKs (advancing by 1..MaxK segments, RTT samples from Rtts),     *)
(* duplicate ACKs and timer expiries for any segment sent so far, interleaved with the sender's own Send    *)
(* and (AppLimited) with the application handing over its data chunk by chunk,                              *)
(* from several initial cwnd / ssthresh values.  Every clause of C17 is its own formula, stated over the     *)
(* variables with the rational operators (not through the actions of TcpSender).  Every complete ACK history *)
(* is emitted as a scenario for the real sender.                                                             *)
EXTENDS TcpSender, Json
CONSTANTS MaxEv,     \* ACK / timer events per history
          MaxSeg,    \* segments of new data per history
          MaxCA,     \* congestion-avoidance ACKs per history (keeps the exact rationals inside 32 bits)
          MaxK,      \* a new ACK advances by 1..MaxK segments
          M,         \* the MSS in bytes
          Eager,     \* TRUE: the sender sends whenever it may (as an implementation would); FALSE: any time
          AppLimited,\* TRUE: the application hands its data over in chunks of 1..2 MSS at arbitrary moments (EnvAppData);
                     \* FALSE: all MaxSeg segments are buffered from the start
          Tier
VARIABLES hist,      \* the ACK history (inputs): [op |-> "A"/"D"/"T", k, rn, rd, seq]
          nev, nca,
          sample,    \* the RTT sample of the latest new ACK
          newlog     \* sequence numbers of the new segments sent, in order
vars == <<svars, hist, nev, nca, sample, newlog>>
NoHist == <<svars, nev, nca, sample, newlog>>      \* VIEW of the runs that only check formulas

(* ------------------------------------------------------------ rationals *)
RECURSIVE Gcd(_, _)
Gcd(a, b) == IF b = 0 THEN a ELSE Gcd(b, a % b)
Abs(i) == IF i < 0 THEN -i ELSE i
Norm(n, d) == LET g == Gcd(Abs(n), d) IN <<n \div g, d \div g>>
RN(i) == <<i, 1>>
RPlus(a, b) == LET g == Gcd(a[2], b[2]) IN Norm(a[1] * (b[2] \div g) + b[1] * (a[2] \div g), (a[2] \div g) * b[2])
RMinus(a, b) == RPlus(a, <<-b[1], b[2]>>)
RScale(k, a) == Norm(k * a[1], a[2])
RDiv(a, k) == Norm(a[1], a[2] * k)
RIntOver(m, a) == Norm(m * a[2], a[1])
RAbs(a) == <<Abs(a[1]), a[2]>>
RLe(a, b) == LET g == Gcd(a[2], b[2]) IN a[1] * (b[2] \div g) <= b[1] * (a[2] \div g)
RGt(a, b) == ~RLe(a, b)
RMax(a, b) == IF RLe(a, b) THEN b ELSE a
RMin(a, b) == IF RLe(a, b) THEN a ELSE b
REq(x, y) == x = y
RCube(a) == Norm(a[1] * a[1] * a[1], a[2] * a[2] * a[2])
RFrac(p, q, a) == Norm(p * a[1], q * a[2])
RRatio(a, b) == IF b[1] > 0 THEN Norm(a[1] * b[2], a[2] * b[1]) ELSE <<1000000, 1>>
RHundred(a) == RScale(100, a)

(* ---------------------------------------------------------- environment *)
Rtts == IF Tier = "cubic" THEN {<<1, 2>>, <<1, 1>>} ELSE IF Tier = "reno" THEN {<<1, 8>>, <<3, 2>>} ELSE {<<1, 8>>, <<1, 2>>, <<3, 2>>}
Starts ==   \* <<cwnd, ssthresh>> in MSS
  IF Tier = "cubic" THEN {<<1, 2>>}
  ELSE {<<1, 0>>, <<1, 2>>, <<2, 1>>, <<1, 100>>, <<4, 3>>}
CubZero == [wmax |-> RN(0), ep |-> RN(0), org |-> RN(0), dmin |-> RN(0), wtcp |-> RN(0), K |-> RN(0),
            ackc |-> 0, ccnt |-> 0, cnt |-> RN(0)]
Init ==
  /\ \E s \in Starts :
       InitWith([cc |-> IF Tier = "cubic" THEN "cubic" ELSE "reno", mss |-> M, size |-> 0, cw0 |-> s[1], ss0 |-> s[2]],
                RN(s[1] * M), RN(s[2] * M), RN(1), RN(0), RN(2),
                IF Tier = "cubic" THEN CubZero ELSE [x |-> 0], RN(0),
                IF AppLimited THEN 0 ELSE MaxSeg * M)
  /\ hist = <<>> /\ nev = 0 /\ nca = 0 /\ sample = RN(0) /\ newlog = <<>>

Variants == IF Tier = "cubic" THEN {FALSE} ELSE BOOLEAN
MaySend == WindowOpen
Quiet == ~Eager \/ ~MaySend
Ev(op, k, r, seq) == /\ hist' = Append(hist, [op |-> op, k |-> k, rn |-> r[1], rd |-> r[2], seq |-> seq])
                     /\ nev' = nev + 1

DoSend == /\ Send
          /\ newlog' = Append(newlog, ns)
          /\ UNCHANGED <<hist, nev, nca, sample>>
\* more application data, at any moment: also while ACKs, duplicates and timeouts change the window
EnvAppData == /\ AppLimited /\ buf < MaxSeg * M
              /\ \E k \in 1..2 : buf + k * M <= MaxSeg * M /\ AppData(buf + k * M)
                                 /\ hist' = Append(hist, [op |-> "P", k |-> k, rn |-> 0, rd |-> 1, seq |-> -1])
              /\ UNCHANGED <<nev, nca, sample, newlog>>
EnvNewAck ==
  /\ nev < MaxEv /\ Quiet
  /\ \E k \in 1..MaxK, r \in Rtts :
       LET inCA == RGt(Deflated, ssth) IN
       /\ inCA => nca < MaxCA
       /\ \E y \in Grow(Deflated, r, RN(0)) :
            LET sr == SrttNext(r)  rv == RttvarNext(r) IN
            NewAck(la + k * M, r, y.cw, y.cb, sr, rv, RPlus(sr, RScale(4, rv)))
       /\ nca' = IF inCA THEN nca + 1 ELSE nca
       /\ sample' = r /\ Ev("A", k, r, -1)
  /\ UNCHANGED newlog
EnvDupAck ==
  /\ nev < MaxEv /\ Quiet
  /\ LET ss == IF dup + 1 = 3 THEN HalfWindow ELSE ssth
         cw == IF dup + 1 < 3 THEN cwnd ELSE IF dup + 1 = 3 THEN RPlus(ss, RN(3 * M)) ELSE RPlus(cwnd, RN(M))
     IN \E rx \in BOOLEAN : DupAck(cw, ss, cub, rx)
  /\ Ev("D", 0, RN(0), -1) /\ UNCHANGED <<nca, sample, newlog>>
EnvTimeout ==
  /\ nev < MaxEv /\ Quiet
  /\ \E i \in {0, la \div M}, lower \in Variants, clr \in Variants :
       /\ Timeout(i * M, RN(M), IF lower THEN HalfWindow ELSE ssth,
                  IF cfg.cc = "reno" THEN cub ELSE [CubZero EXCEPT !.ccnt = cub.ccnt, !.cnt = cub.cnt],
                  IF clr THEN 0 ELSE dup, RScale(2, rto))
       /\ Ev("T", 0, RN(0), i * M)
  /\ UNCHANGED <<nca, sample, newlog>>
\* CUBIC reads the clock: time passes in steps of 3/2 s
EnvTick == /\ Tier = "cubic" /\ nev < MaxEv /\ Quiet /\ RLe(now, RN(2))
           /\ TickTo(RPlus(now, <<3, 2>>))
           /\ UNCHANGED <<hist, nev, nca, sample, newlog>>
Next == DoSend \/ EnvAppData \/ EnvNewAck \/ EnvDupAck \/ EnvTimeout \/ EnvTick
Spec == Init /\ [][Next]_vars

Terminal == nev = MaxEv /\ Quiet
Emit == Terminal => PrintT(<<"EMIT", ToJson([cfg |-> cfg, hist |-> hist])>>)

(* ------------------------------------------------------------- formulas *)
NewAckStep == la' > la
DupStep == dup' = dup + 1
TimeoutStep == ntx' = ntx + 1 /\ last'.k = "rto"
SendStep == ns' > ns
Half(c) == RMax(RN(2 * M), RDiv(c, 2))

\* the guard, at every send; and its consequence: unacknowledged data never exceeds the window when sending
WindowRespected == [][SendStep => /\ ns' = ns + M /\ ns + M <= buf /\ buf' = buf
                                  /\ RLe(RN(ns + M - la), cwnd)
                                  /\ RLe(RN(ns' - la'), cwnd')]_vars
CwndAtLeastMSS == RLe(RN(M), cwnd)
SegmentsConsecutive == \A i \in 1..Len(newlog) : newlog[i] = (i - 1) * M
NewDataOnlyBySend == [][ns' # ns => last' = [k |-> "new", seq |-> ns] /\ ntx' = ntx + 1]_vars

SlowStartRule == [][(NewAckStep /\ ~InRecovery /\ RLe(cwnd, ssth)) => cwnd' = RPlus(cwnd, RN(M))]_vars
RenoCARule == [][(NewAckStep /\ ~InRecovery /\ RGt(cwnd, ssth) /\ cfg.cc = "reno")
                   => cwnd' = RPlus(cwnd, RIntOver(M * M, cwnd))]_vars
\* leaving recovery: deflate to ssthresh, then count the ACK (cwnd = ssthresh is slow start: one MSS)
DeflateRule == [][(NewAckStep /\ InRecovery) => cwnd' = RPlus(ssth, RN(M))]_vars
NewAckResets == [][NewAckStep => dup' = 0 /\ ssth' = ssth /\ ntx' = ntx]_vars
EarlyDupRule == [][(DupStep /\ dup' < 3) => cwnd' = cwnd /\ ssth' = ssth /\ ntx' = ntx]_vars
ThirdDupRule == [][(DupStep /\ dup' = 3) => /\ ssth' = Half(cwnd) /\ cwnd' = RPlus(ssth', RN(3 * M))
                                            \* the missing segment is retransmitted -- if there is one
                                            /\ IF la < ns THEN ntx' = ntx + 1 /\ last' = [k |-> "fast", seq |-> la]
                                                          ELSE ntx' = ntx]_vars
FurtherDupRule == [][(DupStep /\ dup' > 3) => cwnd' = RPlus(cwnd, RN(M)) /\ ssth' = ssth]_vars
TimeoutRule == [][TimeoutStep => /\ cwnd' = RN(M) /\ rto' = RScale(2, rto) /\ last'.seq < ns
                                 /\ (ssth' = ssth \/ ssth' = Half(cwnd))]_vars
\* after every new ACK: gains 1/8 and 1/4 on this ACK's sample, RTO = srtt + 4 rttvar
RtoLaw == [][NewAckStep =>
               /\ RScale(8, srtt') = RPlus(RScale(7, srtt), sample')
               /\ RScale(4, rttvar') = RPlus(RScale(3, rttvar), RAbs(RMinus(sample', srtt)))
               /\ rto' = RPlus(srtt', RScale(4, rttvar'))]_vars
OnlyAcksMoveTheEstimator == [][~NewAckStep => srtt' = srtt /\ rttvar' = rttvar]_vars
\* CUBIC: in congestion avoidance a counted ACK grows the window by one MSS or not at all, as its counter says
CubicCARule == [][(NewAckStep /\ cfg.cc = "cubic" /\ RGt(Deflated, ssth))
                    => /\ cwnd' = RPlus(Deflated, RN(M)) \/ cwnd' = Deflated
                       /\ (cwnd' = Deflated) = RLe(RN(cub.ccnt), cub'.cnt)
                       /\ cub'.ccnt = IF cwnd' = Deflated THEN cub.ccnt + 1 ELSE 0]_vars
\* consequences
SsthAfterLoss == [][(ssth' # ssth) => RLe(RN(2 * M), ssth')]_vars
RtoPositive == RGt(rto, RN(0))
=============================================================================
