SPECIFICATION Spec
CONSTANTS
  Saturate = TRUE
  DevF14 = TRUE
  NSegs = {3}
  DropIdx = {1, 2, 3, 4}
  MaxDD = 1
  MaxAD = 1
  QMax = 2
  Win = 3
  Timelies = {0}
  Fifos = {1}
INVARIANT NoCrash
CHECK_DEADLOCK FALSE
