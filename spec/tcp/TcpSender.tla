----------------------------- MODULE TcpSender -----------------------------
(***************************************************************************)
(* The window law of a TCP sender -- property C17.                         *)
(*                                                                         *)
(* Written from the property text and the textbook Reno / CUBIC rules:     *)
(*  AppData   the application hands over more data (buffer grows)          *)
(*  Send      new data leaves in MSS-sized, consecutively numbered         *)
(*            segments, only while, at the moment of sending,              *)
(*              next_seq + MSS <= min(buffered data, last_ack + cwnd)      *)
(*  NewAck    an ACK above last_ack.  If the sender is in fast recovery    *)
(*            (three or more duplicates counted) cwnd is first deflated to *)
(*            ssthresh.  Then the ACK is counted: slow start               *)
(*            (cwnd <= ssthresh) adds one MSS, Reno congestion avoidance   *)
(*            adds MSS*MSS/cwnd, CUBIC congestion avoidance adds one MSS   *)
(*            every `cnt` ACKs (see the CUBIC section).  The duplicate     *)
(*            count returns to 0.  The RTT estimator takes the sample with *)
(*            gains 1/8 (srtt) and 1/4 (rttvar) and RTO = srtt + 4 rttvar. *)
(*  DupAck    an ACK equal to last_ack while data is outstanding: counted. *)
(*            The THIRD one sets ssthresh = max(2 MSS, cwnd/2), cwnd =     *)
(*            ssthresh + 3 MSS and retransmits the missing segment; every  *)
(*            further one adds one MSS.  The first and second change       *)
(*            nothing else.                                                *)
(*  Timeout   a retransmission timer fires for a segment that was sent:    *)
(*            cwnd = MSS, the segment is retransmitted, RTO is doubled.    *)
(* The property is silent on, and the specification therefore leaves open: *)
(* whether a timeout also lowers ssthresh to max(2 MSS, cwnd/2) and/or     *)
(* clears the duplicate count (both textbook variants), whether a further  *)
(* duplicate (4th, 5th, ...) retransmits the missing segment again, WHEN a *)
(* timer fires (C16 / C19), and when an enabled Send is taken (safety      *)
(* only: "sent only while").                                               *)
(*                                                                         *)
(* Numbers.  cwnd, ssthresh (bytes) and srtt, rttvar, rto, RTT samples     *)
(* (seconds) are values of an abstract number type given by the CONSTANT   *)
(* operators below.  TcpSenderMC instantiates exact rationals <<num,den>>  *)
(* (MayLe / MayGt complementary, Near = equality); TcpSenderTrace          *)
(* instantiates fixed-point intervals <<q, e>> (value within q +- e units) *)
(* so that one logged step of the real sender is validated from its logged *)
(* pre-state: exact wherever the arithmetic is exact (e = 0), within the   *)
(* propagated rounding bound elsewhere, and a branch condition that the    *)
(* rounding leaves undecided admits both branches.                         *)
(***************************************************************************)
EXTENDS Naturals, Integers, Sequences, FiniteSets, TLC

CONSTANTS N(_),          \* integer number of bytes -> number
          Plus(_, _), Minus(_, _),
          Scale(_, _),   \* Scale(k, a) = k * a for an integer k
          Div(_, _),     \* Div(a, k)   = a / k for an integer k > 0
          IntOver(_, _), \* IntOver(m, a) = m / a for an integer m (bytes^2) and a byte quantity a > 0
          AbsN(_), MaxN(_, _),
          MayLe(_, _),   \* a <= b is possible
          MayGt(_, _),   \* a > b is possible
          Near(_, _),    \* Near(x, y): the stated value x is the computed value y
          \* used by CUBIC only
          MinN(_, _),
          Cube(_),       \* Cube(a) = a^3 (a in seconds), as a byte quantity
          Frac(_, _, _), \* Frac(p, q, a) = a * p / q for positive integers p, q
          Ratio(_, _),   \* Ratio(a, b) = a / b for byte quantities a > 0 and b (b > 0 possible), a pure number
          Hundred(_),    \* Hundred(a) = 100 * (the number of bytes a), a pure number
          IntR(_)        \* integer -> pure number

VARIABLES now,     \* current instant (a time number; only CUBIC reads it)
          cwnd, ssth,            \* congestion window, slow-start threshold (byte numbers)
          dup,                   \* duplicate ACKs counted since the last new ACK
          la, ns, buf,           \* last_ack, next_seq, buffered data (integers, bytes)
          srtt, rttvar, rto,     \* RTT estimate, deviation, retransmission timeout (time numbers)
          cub,                   \* CUBIC epoch state (a record; [x |-> 0] for Reno)
          last,                  \* the latest transmission [k |-> "new" | "fast" | "rto" | "", seq]
          ntx,                   \* number of transmissions so far
          cfg                    \* frozen parameters [cc |-> "reno" | "cubic", mss, size (bytes, 0 = unbounded)]
svars == <<now, cwnd, ssth, dup, la, ns, buf, srtt, rttvar, rto, cub, last, ntx, cfg>>

MSS == cfg.mss
InRecovery == dup >= 3

InitWith(c, cw0, ss0, srtt0, rv0, rto0, cub0, t0, b0) ==
  /\ cfg = c /\ now = t0
  /\ cwnd = cw0 /\ ssth = ss0 /\ dup = 0 /\ la = 0 /\ ns = 0 /\ buf = b0
  /\ srtt = srtt0 /\ rttvar = rv0 /\ rto = rto0 /\ cub = cub0
  /\ last = [k |-> "", seq |-> -1] /\ ntx = 0

Tx(kind, seq) == last' = [k |-> kind, seq |-> seq] /\ ntx' = ntx + 1
NoTx == UNCHANGED <<last, ntx>>

(* -------------------------------------------------------- AppData, Send *)
\* The application hands over more data: the buffered amount grows to b (never shrinks, never beyond the flow
\* size).  WHEN it does so is the application's business (the property is silent): an environment step.
AppData(b) ==
  /\ b > buf /\ (cfg.size > 0 => b <= cfg.size)
  /\ buf' = b
  /\ UNCHANGED <<now, cwnd, ssth, dup, la, ns, srtt, rttvar, rto, cub, last, ntx, cfg>>
\* The guard is a predicate of the state AT THE MOMENT OF SENDING: the window and the buffer as they are now,
\* not as they were when the sender last looked (e.g. before it waited for application data).
WindowOpen == ns + MSS <= buf /\ MayLe(N(ns + MSS - la), cwnd)
Send ==
  /\ WindowOpen
  /\ ns' = ns + MSS /\ Tx("new", ns)
  /\ UNCHANGED <<now, cwnd, ssth, dup, la, buf, srtt, rttvar, rto, cub, cfg>>

(* --------------------------------------------------------------- growth *)
Zero == Minus(N(0), N(0))
Opt(cond, x) == IF cond THEN {x} ELSE {}

\* Reno: the window after a counted new ACK that found it at c (set: an undecided comparison admits both)
RenoGrow(c) ==
  Opt(MayLe(c, ssth), [cw |-> Plus(c, N(MSS)), cb |-> cub])                       \* slow start
  \cup Opt(MayGt(c, ssth), [cw |-> Plus(c, IntOver(MSS * MSS, c)), cb |-> cub])   \* congestion avoidance

(* CUBIC (Ha, Rhee, Xu 2008, the algorithm the class documents: C = 0.4, beta = 0.2, TCP friendliness on).  *)
(* Every new ACK: dmin = the smallest RTT sample seen since the last reset.  Slow start as Reno.  In         *)
(* congestion avoidance the ACK is counted (ackc); a new epoch starts when none is running (ep <= 0): ep =   *)
(* now, origin = max(W_last_max, cwnd), K = cbrt((origin - cwnd)/C), W_tcp = cwnd, ackc = 1.  Then           *)
(*   t = now + dmin - ep,  target = origin + C (t - K)^3,                                                    *)
(*   cnt = cwnd / (target - cwnd) if target > cwnd, else 100 cwnd            (ACKs per MSS of growth)        *)
(*   W_tcp += 3 beta/(2 - beta) * ackc / cwnd,  ackc = 0,  cnt = min(cnt, cwnd / (W_tcp - cwnd)) if W_tcp > cwnd *)
(* and the window grows by one MSS when more than cnt ACKs were counted since the last growth (ccnt > cnt),  *)
(* otherwise the ACK is only counted (ccnt + 1).  kst: the stated K, used where a cube root would be needed. *)
CubEpoch(c, kst) ==
  Opt(MayGt(cub.ep, Zero), [ep |-> cub.ep, K |-> cub.K, org |-> cub.org, ackc |-> cub.ackc + 1, wt |-> cub.wtcp])
  \cup Opt(MayLe(cub.ep, Zero) /\ MayLe(cub.wmax, c),
           [ep |-> now, K |-> Zero, org |-> c, ackc |-> 1, wt |-> c])
  \cup Opt(MayLe(cub.ep, Zero) /\ MayGt(cub.wmax, c) /\ MayLe(Zero, kst)
             /\ Near(Frac(2, 5, Cube(kst)), Minus(cub.wmax, c)),
           [ep |-> now, K |-> kst, org |-> cub.wmax, ackc |-> 1, wt |-> c])
CubCnt(c, e, d) ==
  LET t == Minus(Plus(now, d), e.ep)
      target == Plus(e.org, Frac(2, 5, Cube(Minus(t, e.K))))
      wt == Plus(e.wt, Frac(1, 3, IntOver(e.ackc, c)))
      cnts == Opt(MayGt(target, c), Ratio(c, Minus(target, c))) \cup Opt(MayLe(target, c), Hundred(c))
  IN UNION { Opt(MayGt(wt, c), [cnt |-> MinN(n, Ratio(c, Minus(wt, c))), wt |-> wt])
             \cup Opt(MayLe(wt, c), [cnt |-> n, wt |-> wt]) : n \in cnts }
CubicDmin(sample) ==
  Opt(MayGt(cub.dmin, Zero), MinN(cub.dmin, sample)) \cup Opt(MayLe(cub.dmin, Zero), sample)
CubicGrow(c, sample, kst) ==
  UNION { Opt(MayLe(c, ssth), [cw |-> Plus(c, N(MSS)), cb |-> [cub EXCEPT !.dmin = d]])
          \cup (IF MayGt(c, ssth)
                THEN UNION { UNION { Opt(MayGt(IntR(cub.ccnt), r.cnt),
                                         [cw |-> Plus(c, N(MSS)),
                                          cb |-> [wmax |-> cub.wmax, ep |-> e.ep, org |-> e.org, dmin |-> d, wtcp |-> r.wt,
                                                  K |-> e.K, ackc |-> 0, ccnt |-> 0, cnt |-> r.cnt]])
                                     \cup Opt(MayLe(IntR(cub.ccnt), r.cnt),
                                         [cw |-> c,
                                          cb |-> [wmax |-> cub.wmax, ep |-> e.ep, org |-> e.org, dmin |-> d, wtcp |-> r.wt,
                                                  K |-> e.K, ackc |-> 0, ccnt |-> cub.ccnt + 1, cnt |-> r.cnt]])
                                     : r \in CubCnt(c, e, d) } : e \in CubEpoch(c, kst) }
                ELSE {})
        : d \in CubicDmin(sample) }

NearCub(x, y) ==
  IF cfg.cc = "reno" THEN x = y
  ELSE /\ Near(x.wmax, y.wmax) /\ Near(x.ep, y.ep) /\ Near(x.org, y.org) /\ Near(x.dmin, y.dmin)
       /\ Near(x.wtcp, y.wtcp) /\ Near(x.K, y.K) /\ x.ackc = y.ackc /\ x.ccnt = y.ccnt /\ Near(x.cnt, y.cnt)

Grow(c, sample, kst) == IF cfg.cc = "reno" THEN RenoGrow(c) ELSE CubicGrow(c, sample, kst)

(* --------------------------------------------------------------- NewAck *)
\* a: the acknowledged byte; sample: the RTT sample of this ACK; cw, cb, sr, rv, ro: the values stated for
\* cwnd, the CUBIC state, srtt, rttvar, rto after the step (TcpSenderMC: chosen from the computed ones)
AckTarget(a) == a > la /\ a <= ns /\ (a - la) % MSS = 0
Deflated == IF InRecovery THEN ssth ELSE cwnd          \* leaving fast recovery: first back to ssthresh
SrttNext(sample) == Plus(srtt, Div(Minus(sample, srtt), 8))
RttvarNext(sample) == Plus(rttvar, Div(Minus(AbsN(Minus(sample, srtt)), rttvar), 4))
NewAck(a, sample, cw, cb, sr, rv, ro) ==
  /\ AckTarget(a)
  /\ \E y \in Grow(Deflated, sample, IF cfg.cc = "reno" THEN Zero ELSE cb.K) : Near(cw, y.cw) /\ NearCub(cb, y.cb)
  /\ Near(sr, SrttNext(sample)) /\ Near(rv, RttvarNext(sample))
  /\ Near(ro, Plus(sr, Scale(4, rv)))
  /\ cwnd' = cw /\ cub' = cb /\ srtt' = sr /\ rttvar' = rv /\ rto' = ro
  /\ dup' = 0 /\ la' = a /\ NoTx
  /\ UNCHANGED <<now, ssth, ns, buf, cfg>>

(* --------------------------------------------------------------- DupAck *)
\* rx: whether the missing segment appeared on the output in this step
HalfWindow == MaxN(N(2 * MSS), Div(cwnd, 2))
\* the property does not say whether a loss indication ends a CUBIC epoch: both admitted
CubAfterLoss(cb) == cfg.cc = "reno" \/ cb = cub \/ cb = [cub EXCEPT !.ep = Zero]
DupAck(cw, ss, cb, rx) ==
  /\ la <= ns                          \* la = ns: a repeat of the latest cumulative ACK while nothing is outstanding
  /\ dup' = dup + 1
  /\ CASE dup + 1 < 3 -> /\ cw = cwnd /\ ss = ssth /\ cb = cub /\ ~rx
       [] dup + 1 = 3 -> /\ Near(ss, HalfWindow) /\ Near(cw, Plus(ss, N(3 * MSS))) /\ CubAfterLoss(cb)
                         /\ rx <=> la < ns                       \* fast retransmit of the missing segment, if any
       [] OTHER       -> /\ Near(cw, Plus(cwnd, N(MSS))) /\ ss = ssth /\ cb = cub
                         /\ rx => la < ns
  /\ cwnd' = cw /\ ssth' = ss /\ cub' = cb
  /\ IF rx THEN Tx("fast", la) ELSE NoTx
  /\ UNCHANGED <<now, la, ns, buf, srtt, rttvar, rto, cfg>>
\* The property does not say whether a repeat of the latest ACK counts as a duplicate when nothing is outstanding
\* (there is no hole it could tell of): counting it (DupAck) and ignoring it (IdleDup) are both admitted.  What it
\* can never be is a NEW ACK: last_ack does not advance, so neither the window grows nor the estimator moves.
IdleDup == /\ la = ns
           /\ UNCHANGED <<now, cwnd, ssth, dup, la, ns, buf, srtt, rttvar, rto, cub, last, ntx, cfg>>

(* -------------------------------------------------------------- Timeout *)
CubReset(cb) ==
  cfg.cc = "reno" \/ ( /\ cb.wmax = Zero /\ cb.ep = Zero /\ cb.org = Zero /\ cb.dmin = Zero /\ cb.wtcp = Zero
                       /\ cb.K = Zero /\ cb.ackc = 0 /\ cb.ccnt = cub.ccnt /\ cb.cnt = cub.cnt )
Timeout(seq, cw, ss, cb, d, ro) ==
  /\ seq >= 0 /\ seq < ns /\ seq % MSS = 0            \* a segment that was sent
  /\ Near(cw, N(MSS))
  /\ ss = ssth \/ Near(ss, HalfWindow)                \* silent: both textbook variants
  /\ d = dup \/ d = 0                                 \* silent: a timeout may or may not end fast recovery
  /\ Near(ro, Scale(2, rto))
  /\ IF cfg.cc = "reno" THEN cb = cub ELSE CubReset(cb)
  /\ cwnd' = cw /\ ssth' = ss /\ dup' = d /\ rto' = ro /\ cub' = cb
  /\ Tx("rto", seq)
  /\ UNCHANGED <<now, la, ns, buf, srtt, rttvar, cfg>>

TickTo(t) == /\ MayLe(now, t) /\ now' = t
             /\ UNCHANGED <<cwnd, ssth, dup, la, ns, buf, srtt, rttvar, rto, cub, last, ntx, cfg>>
=============================================================================
