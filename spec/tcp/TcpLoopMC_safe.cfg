SPECIFICATION Spec
CONSTANTS
  Saturate = TRUE
  DevF14 = FALSE
  NSegs = {2, 3, 4}
  DropIdx = {1, 2, 3, 4, 5, 6}
  MaxDD = 2
  MaxAD = 2
  QMax = 2
  Win = 2
  Timelies = {0}
  Fifos = {1}
CONSTRAINT Emit
INVARIANT NoCrash
INVARIANT MarkIsTrue
INVARIANT TimersAreOutstanding
INVARIANT AcksOrdered
INVARIANT OnlySentTravels
PROPERTY Stable
PROPERTY SilentWhenDone
PROPERTY MarkMonotone
CHECK_DEADLOCK FALSE
