--------------------------- MODULE TcpSenderTrace ---------------------------
(* Batch validation of traces recorded from the real TCPPacketGenerator against TcpSender.tla.               *)
(* Every record carries the complete public numeric state after the event, so every step is validated from   *)
(* the LOGGED pre-state (rounding never accumulates).  Numbers are fixed-point intervals <<q, e>>: the true   *)
(* value lies within q +- e units.  Units: 2^-10 byte (cwnd, ssthresh, CUBIC windows), 2^-20 s (instants,     *)
(* RTT samples, srtt, rttvar, rto, CUBIC epoch/dmin/K), 1/16 (CUBIC cnt, capped at 2^20).  A logged value has *)
(* e = 0 when the driver found it exactly representable and e = 1 otherwise.  The operators below compute    *)
(* enclosures: additions, multiplications by integers, halving, max are exact on exact inputs (so e stays 0   *)
(* and the stated value must be EQUAL); divisions are floors with the remainder deciding exactness;           *)
(* MSS*MSS/cwnd is a 38-bit long division; the cube is enclosed from 2^-12 s (2^-8 s above 8 s) roundings.      *)
(* Stated tolerance: |stated - computed| <= e(stated) + e(computed); for one Reno congestion-avoidance step    *)
(* from an inexact window that is at most 5 units = 0.005 byte.                                               *)
EXTENDS TcpSender, Json
VARIABLES tid, l
Traces == JsonDeserialize("traces.json")
vars == <<svars, tid, l>>
Tr == Traces[tid].ev
Ev == Tr[l]

SB == 1024
CAP == 16777216      \* 2^20 in 1/16
Abs(i) == IF i < 0 THEN -i ELSE i
Max2(a, b) == IF a >= b THEN a ELSE b
Min2(a, b) == IF a <= b THEN a ELSE b
Lo(a) == a[1] - a[2]
Hi(a) == a[1] + a[2]
Mk(lo, hi) == <<(lo + hi) \div 2, (hi - lo) \div 2 + 1>>
\* <<floor(x * 2^n / q), remainder # 0>> for 0 <= x, 0 < q < 2^30, by binary long division
RECURSIVE LD(_, _, _, _)
LD(d, r, q, n) == IF n = 0 THEN <<d, r>>
                  ELSE IF 2 * r >= q THEN LD(2 * d + 1, 2 * r - q, q, n - 1) ELSE LD(2 * d, 2 * r, q, n - 1)
ShlDiv(x, n, q) == LD(x \div q, x % q, q, n)
\* floor(x * p / q) without forming x * p
MulDiv(x, p, q) == (x \div q) * p + ((x % q) * p) \div q

FN(i) == <<i * SB, 0>>
FPlus(a, b) == <<a[1] + b[1], a[2] + b[2]>>
FMinus(a, b) == <<a[1] - b[1], a[2] + b[2]>>
FScale(k, a) == <<k * a[1], Abs(k) * a[2]>>
FDiv(a, k) == <<a[1] \div k, (a[2] + k - 1) \div k + (IF a[1] % k = 0 THEN 0 ELSE 1)>>
\* m / a in byte units = m * SB * SB / q
FIntOver(m, a) ==
  IF Lo(a) <= 0 THEN <<0, CAP>>
  ELSE LET res == ShlDiv(m * SB, 10, a[1]) IN
       <<res[1], (IF res[2] = 0 THEN 0 ELSE 1) + a[2] * (res[1] \div Lo(a) + 1)>>
FAbs(a) == <<Abs(a[1]), a[2]>>
MkX(lo, hi) == IF lo = hi THEN <<lo, 0>> ELSE Mk(lo, hi)
FMax(a, b) == MkX(Max2(Lo(a), Lo(b)), Max2(Hi(a), Hi(b)))
FMin(a, b) == MkX(Min2(Lo(a), Lo(b)), Min2(Hi(a), Hi(b)))
FMayLe(a, b) == Lo(a) <= Hi(b)
FMayGt(a, b) == Hi(a) > Lo(b)
FNear(x, y) == Abs(x[1] - y[1]) <= x[2] + y[2]
\* cube of a time (2^-20 s) as bytes (2^-10): |t| is enclosed between multiples of 2^-12 s below 8 s and of 2^-8 s
\* from there to 100 s (beyond: unknown); every product stays below 2^31
CubeDn(x) == IF x < 8388608
             THEN LET c == x \div 256 IN (((c * c) \div 32768) * c) \div 2048
             ELSE LET c == x \div 4096 IN 2 * (((c * c) \div 32768) * c)
CubeUp(x) == IF x < 8388608 - 256
             THEN LET c == x \div 256 + 1 IN (((c * c) \div 32768 + 1) * c) \div 2048 + 1
             ELSE LET c == x \div 4096 + 1 IN 2 * (((c * c) \div 32768 + 1) * c)
FCube(a) ==
  IF Hi(a) >= 104857600 \/ Lo(a) <= -104857600 THEN <<0, 1073741823>>
  ELSE IF Lo(a) >= 0 THEN Mk(CubeDn(Lo(a)), CubeUp(Hi(a)))
  ELSE IF Hi(a) <= 0 THEN Mk(-CubeUp(-Lo(a)), -CubeDn(-Hi(a)))
  ELSE Mk(-CubeUp(-Lo(a)), CubeUp(Hi(a)))
FFrac(p, q, a) == IF a[2] = 0 /\ (a[1] % q = 0) THEN <<(a[1] \div q) * p, 0>>
                  ELSE Mk(MulDiv(Lo(a), p, q), MulDiv(Hi(a), p, q) + 1)
\* floor(16 x / q) capped, for x >= 0, q > 0
R16(x, q) == IF x \div q >= 1048576 THEN CAP ELSE Min2(CAP, ShlDiv(x, 4, q)[1])
FRatio(a, b) ==
  LET lo == IF Hi(b) > 0 THEN R16(Max2(Lo(a), 0), Hi(b)) ELSE CAP
      hi == IF Lo(b) > 0 THEN Min2(CAP, R16(Hi(a), Lo(b)) + 1) ELSE CAP
  IN Mk(lo, hi)
FHundred(a) == Mk(Min2(CAP, (Max2(Lo(a), 0) \div 16) * 25), Min2(CAP, (Hi(a) \div 16 + 1) * 25))
FIntR(i) == <<16 * i, 0>>

(* ------------------------------------------------------ logged values *)
L(q, x) == <<q, 1 - x>>
IsCubic == Traces[tid].cfg.cc = "cubic"
CubAt(r) == IF IsCubic
            THEN [wmax |-> L(r.wmax, r.wx), ep |-> L(r.ep, r.epx), org |-> L(r.org, r.ox), dmin |-> L(r.dmin, r.dx),
                  wtcp |-> L(r.wtcp, r.wtx), K |-> L(r.K, r.Kx), ackc |-> r.ackc, ccnt |-> r.ccnt, cnt |-> L(r.cnt, r.nx)]
            ELSE [x |-> 0]
Cw == L(Ev.cwnd, Ev.cx)
Ss == L(Ev.ssth, Ev.sx)
Sr == L(Ev.srtt, Ev.tx)
Rv == L(Ev.rttvar, Ev.tx)
Ro == L(Ev.rto, Ev.tx)
Cb == CubAt(Ev)
T == <<Ev.t, 1>>

Init == /\ tid \in 1..Len(Traces) /\ l = 1 /\ TLCSet(tid, 1)
        /\ LET c == Traces[tid].cfg IN
           InitWith([cc |-> c.cc, mss |-> c.mss, size |-> c.size],
                    L(c.cwnd, c.cx), L(c.ssth, c.sx), L(c.srtt, c.tx), L(c.rttvar, c.tx), L(c.rto, c.tx),
                    CubAt(c), <<0, 0>>, c.buf)
More == l <= Len(Tr)
Here == More /\ (now = T \/ (Ev.t = 0 /\ now = <<0, 0>>))
Consume == l' = l + 1 /\ UNCHANGED tid
Keep == UNCHANGED <<tid, l>>

\* the logged public state is the specification's state (after an event that must not change it)
SameWindow == Cw = cwnd /\ Ss = ssth /\ Cb = cub
SameRtt == Sr = srtt /\ Rv = rttvar
SameSeq == Ev.la = la /\ Ev.ns = ns /\ Ev.buf = buf
Floor == FMayLe(FN(MSS), Cw)           \* cwnd never below one MSS, at every record

\* a new segment on the output (the tap sits in out.put, before next_seq moves): the record carries the public
\* state read inside the tap, i.e. at the moment of sending; it must be the specification's state (SameWindow:
\* every change of cwnd since the last record needs its own accepted event) and Send's guard is evaluated on it
SendEv == /\ Here /\ Ev.e = "S"
          /\ Ev.seq = ns /\ Ev.size = MSS
          /\ SameWindow /\ SameRtt /\ Ro = rto /\ SameSeq /\ Ev.dup = dup
          /\ Send /\ Consume
NewAckEv == /\ Here /\ Ev.e = "A" /\ Ev.ackno > la
            /\ Ev.nrx = 0 /\ Ev.seq = -1
            /\ NewAck(Ev.ackno, L(Ev.rtt, Ev.rx), Cw, Cb, Sr, Rv, Ro)
            /\ Ss = ssth /\ Ev.dup = 0 /\ Ev.la = Ev.ackno /\ Ev.ns = ns /\ Ev.buf = buf /\ Floor /\ Consume
DupAckEv == /\ Here /\ Ev.e = "A" /\ Ev.ackno = la
            /\ Ev.nrx <= 1 /\ (Ev.nrx = 1 => Ev.seq = la)
            /\ DupAck(Cw, Ss, Cb, Ev.nrx = 1)
            /\ SameRtt /\ Ro = rto /\ SameSeq /\ Ev.dup = dup + 1 /\ Floor /\ Consume
IdleDupEv == /\ Here /\ Ev.e = "A" /\ Ev.ackno = la /\ Ev.nrx = 0
             /\ IdleDup
             /\ SameWindow /\ SameRtt /\ Ro = rto /\ SameSeq /\ Ev.dup = dup /\ Consume
TimeoutEv == /\ Here /\ Ev.e = "T" /\ Ev.nrx = 1
             /\ Timeout(Ev.seq, Cw, Ss, Cb, Ev.dup, Ro)
             /\ SameRtt /\ SameSeq /\ Floor /\ Consume
QuietEv == /\ Here /\ Ev.e = "Q"
           /\ SameWindow /\ SameRtt /\ Ro = rto /\ SameSeq /\ Ev.dup = dup
           /\ UNCHANGED svars /\ Consume
\* application data arrived since the previous record (silent: bound through the logged send_buffer).  It comes
\* before the event that reports it, so a Send is judged on the buffer AND the window as they are at that moment.
AppDataEv == More /\ Ev.buf > buf /\ AppData(Ev.buf) /\ Keep
TickEv == More /\ now # T /\ ~(Ev.t = 0 /\ now = <<0, 0>>) /\ TickTo(T) /\ Keep
Next == AppDataEv \/ SendEv \/ NewAckEv \/ DupAckEv \/ IdleDupEv \/ TimeoutEv \/ QuietEv \/ TickEv
Spec == Init /\ [][Next]_vars

Mark == TLCSet(tid, IF l > TLCGet(tid) THEN l ELSE TLCGet(tid))
Post == /\ \A i \in 1..Len(Traces) :
             TLCGet(i) = Len(Traces[i].ev) + 1 \/ PrintT(<<"STUCK", i, TLCGet(i)>>)
        /\ PrintT(<<"DONE", Len(Traces)>>)
=============================================================================
