INIT Init
NEXT Next
CONSTANTS
  N <- FN
  Plus <- FPlus
  Minus <- FMinus
  Scale <- FScale
  Div <- FDiv
  IntOver <- FIntOver
  AbsN <- FAbs
  MaxN <- FMax
  MayLe <- FMayLe
  MayGt <- FMayGt
  Near <- FNear
  MinN <- FMin
  Cube <- FCube
  Frac <- FFrac
  Ratio <- FRatio
  Hundred <- FHundred
  IntR <- FIntR
CONSTRAINT Mark
POSTCONDITION Post
CHECK_DEADLOCK FALSE
