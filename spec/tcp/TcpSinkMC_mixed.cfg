SPECIFICATION Spec
CONSTANTS
  MaxArr = 4
  Seqs = {0, 1, 2, 3}
  Sizes = {1, 2}
CONSTRAINT Emit
INVARIANT AckIsPrefix
INVARIANT AckMonotone
INVARIANT AckWithinData
INVARIANT AckAlwaysPossible
INVARIANT OnePerArrival
PROPERTY NeverDecreases
CHECK_DEADLOCK FALSE
