SPECIFICATION FairSpec
CONSTANTS
  Saturate = TRUE
  DevF14 = FALSE
  NSegs = {2, 3, 4, 5}
  DropIdx = {1}
  MaxDD = 0
  MaxAD = 0
  QMax = 5
  Win = 5
  Timelies = {1}
  Fifos = {1}
INVARIANT NoCrash
INVARIANT MarkIsTrue
INVARIANT TimersAreOutstanding
INVARIANT NoDuplicateInFlight
PROPERTY NoSpuriousRetx
PROPERTY Delivers
CHECK_DEADLOCK FALSE
