SPECIFICATION Spec
CONSTANTS
  MaxEv = 4
  MaxSeg = 5
  MaxCA = 3
  MaxK = 2
  M = 4
  Eager = FALSE
  AppLimited = FALSE
  Tier = "reno"
  N <- RN
  Plus <- RPlus
  Minus <- RMinus
  Scale <- RScale
  Div <- RDiv
  IntOver <- RIntOver
  AbsN <- RAbs
  MaxN <- RMax
  MayLe <- RLe
  MayGt <- RGt
  Near <- REq
  MinN <- RMin
  Cube <- RCube
  Frac <- RFrac
  Ratio <- RRatio
  Hundred <- RHundred
  IntR <- RN
VIEW NoHist
INVARIANT CwndAtLeastMSS
INVARIANT SegmentsConsecutive
INVARIANT RtoPositive
PROPERTY WindowRespected
PROPERTY NewDataOnlyBySend
PROPERTY SlowStartRule
PROPERTY RenoCARule
PROPERTY DeflateRule
PROPERTY NewAckResets
PROPERTY EarlyDupRule
PROPERTY ThirdDupRule
PROPERTY FurtherDupRule
PROPERTY TimeoutRule
PROPERTY RtoLaw
PROPERTY OnlyAcksMoveTheEstimator
PROPERTY SsthAfterLoss
CHECK_DEADLOCK FALSE
