------------------------------ MODULE TcpLoop ------------------------------
(***************************************************************************)
(* A TCP sender, two FIFO paths and a TCP sink in a closed loop -- the     *)
(* reliability sentences of property C16.                                  *)
(*                                                                         *)
(* "Over any path that delays or drops finitely many data and ACK packets, *)
(* a TCPPacketGenerator keeps (re)transmitting until the sink holds every  *)
(* full MSS segment of the flow contiguously and the sender's acknowledged *)
(* mark reaches the end of the data, and the run never raises.  Over a     *)
(* loss-free path whose round-trip time stays below the sender's current   *)
(* RTO no segment is transmitted twice."                                   *)
(*                                                                         *)
(* Untimed, in the usual protocol style.  Segments are numbered 0..n-1     *)
(* (segment k = bytes k*MSS .. (k+1)*MSS-1).  The sender keeps, for every  *)
(* segment sent and not yet cumulatively acknowledged, a copy and a        *)
(* pending retransmission timer (`timers`); a pending timer may fire at    *)
(* any point and retransmits its segment; an acknowledgement a > una is    *)
(* cumulative: it moves the acknowledged mark to a and releases every      *)
(* segment below a; an acknowledgement equal to the mark is a duplicate,   *)
(* on which the sender may retransmit the first unacknowledged segment     *)
(* (fast retransmit) if it holds it.  WHEN new data may be sent (the       *)
(* congestion window), on WHICH duplicate the fast retransmit happens and  *)
(* what the timer values are is property C17's business and left open.     *)
(*                                                                         *)
(* Paths: FIFO queues when cfg.fifo = 1; with cfg.fifo = 0 a path delays   *)
(* every packet by its own amount, so ANY packet in flight may be the next *)
(* to arrive (reordering).  Loss is scripted by transmission number: the i-th *)
(* data transmission is dropped iff i \in cfg.dd, the i-th acknowledgement *)
(* emitted by the sink iff i \in cfg.ad (finite sets).                     *)
(*                                                                         *)
(* cfg.timely = 1 expresses "RTT stays below the current RTO": a timer     *)
(* cannot expire while the copy it was started for, or the acknowledgement *)
(* that copy triggered, is still on its way.                               *)
(*                                                                         *)
(* An uncaught exception is modelled by `crashed`: retransmitting a        *)
(* segment the sender does not hold.  DevF14 = TRUE replaces the intended  *)
(* ACK handling by the deviation recorded as finding F14 (only the timer   *)
(* of the segment that triggered the ACK is released; fast retransmit is   *)
(* not guarded); it is FALSE in every configuration that proves something  *)
(* and TRUE only in the run that shows NoCrash is not vacuous.             *)
(***************************************************************************)
EXTENDS Naturals, Integers, Sequences, FiniteSets, TLC

CONSTANTS Saturate,   \* TRUE (model checking): transmission counters stop at the last scripted drop index
          DevF14      \* FALSE except in the vacuity run

VARIABLES nxt,      \* sender: next new segment (= next_seq / MSS)
          una,      \* sender: acknowledged mark (= last_ack / MSS)
          timers,   \* sender: segments held for retransmission, each with a pending timer
          dq,       \* data path: segments in flight, FIFO
          aq,       \* ACK path: acknowledgements in flight, FIFO: [ack, trig] (trig = segment whose arrival triggered it)
          rcvd,     \* sink: segments received
          txn,      \* data transmissions so far
          akn,      \* acknowledgements emitted by the sink so far
          crashed,  \* an exception escaped
          cfg       \* frozen: [n, dd, ad, timely, fifo]
lvars == <<nxt, una, timers, dq, aq, rcvd, txn, akn, crashed, cfg>>

InitWith(c) ==
  /\ nxt = 0 /\ una = 0 /\ timers = {} /\ dq = <<>> /\ aq = <<>> /\ rcvd = {}
  /\ txn = 0 /\ akn = 0 /\ crashed = FALSE /\ cfg = c

Segs == 0..(cfg.n - 1)
MaxOf(S) == IF S = {} THEN 0 ELSE CHOOSE x \in S : \A y \in S : y <= x
\* cumulative acknowledgement number of a set of received segments: the first one missing
Pfx(S) == CHOOSE k \in 0..cfg.n : (k = cfg.n \/ k \notin S) /\ \A j \in 0..(k - 1) : j \in S
Count(x, S) == IF Saturate /\ x >= MaxOf(S) THEN x ELSE x + 1
InDq(s) == \E i \in 1..Len(dq) : dq[i] = s
InAq(s) == \E i \in 1..Len(aq) : aq[i].trig = s

AllDelivered == rcvd = Segs /\ una = cfg.n

(* ---- one data transmission: counted, then dropped or put on the path ---- *)
Xmit(s) == /\ txn' = Count(txn, cfg.dd)
           /\ dq' = IF (txn + 1) \in cfg.dd THEN dq ELSE Append(dq, s)

(* ---- retransmission of a copy the sender holds; without the copy the run raises ---- *)
Resend(s) == IF s \in timers
             THEN Xmit(s) /\ crashed' = crashed
             ELSE crashed' = TRUE /\ UNCHANGED <<txn, dq>>

(* ---- the sender transmits the next new segment and starts its timer ---- *)
SendNew ==
  /\ ~crashed /\ nxt < cfg.n
  /\ Xmit(nxt)
  /\ nxt' = nxt + 1 /\ timers' = timers \cup {nxt}
  /\ UNCHANGED <<una, aq, rcvd, akn, crashed, cfg>>

(* ---- the retransmission timer of segment s expires; it stays pending (restarted) ---- *)
TimerFire(s) ==
  /\ ~crashed /\ s \in timers
  /\ cfg.timely = 1 => ~InDq(s) /\ ~InAq(s)
  /\ Resend(s)
  /\ UNCHANGED <<nxt, una, timers, aq, rcvd, akn, cfg>>

Without(q, i) == SubSeq(q, 1, i - 1) \o SubSeq(q, i + 1, Len(q))
MayArrive(q, i) == i \in 1..Len(q) /\ (cfg.fifo = 1 => i = 1)

(* ---- a packet of the data path (the head, on a FIFO path) arrives at the sink, which answers with a cumulative ACK ---- *)
SinkRecvAt(i) ==
  /\ ~crashed /\ MayArrive(dq, i)
  /\ LET s == dq[i]
         R == rcvd \cup {s}
     IN /\ rcvd' = R
        /\ akn' = Count(akn, cfg.ad)
        /\ aq' = IF (akn + 1) \in cfg.ad THEN aq ELSE Append(aq, [ack |-> Pfx(R), trig |-> s])
  /\ dq' = Without(dq, i)
  /\ UNCHANGED <<nxt, una, timers, txn, crashed, cfg>>
SinkRecv == \E i \in 1..Len(dq) : SinkRecvAt(i)

(* ---- an acknowledgement of the ACK path arrives at the sender; fr: this ACK makes it fast-retransmit ---- *)
AckArriveAt(i, fr) ==
  /\ ~crashed /\ MayArrive(aq, i)
  /\ LET a == aq[i].ack
         g == aq[i].trig
     IN IF a > una
        THEN \* new data acknowledged, cumulatively
             /\ ~fr
             /\ una' = a
             /\ timers' = IF DevF14 THEN timers \ {g} ELSE {s \in timers : s >= a}
             /\ UNCHANGED <<txn, dq, crashed>>
        ELSE IF a = una
        THEN \* duplicate
             /\ UNCHANGED <<una, timers>>
             /\ IF fr THEN (DevF14 \/ una \in timers) /\ Resend(una)
                      ELSE UNCHANGED <<txn, dq, crashed>>
        ELSE \* below the mark (an old acknowledgement overtaken by a newer one): ignored, the mark never moves back
             /\ ~fr /\ UNCHANGED <<una, timers, txn, dq, crashed>>
  /\ aq' = Without(aq, i)
  /\ UNCHANGED <<nxt, rcvd, akn, cfg>>
AckArrive(fr) == \E i \in 1..Len(aq) : AckArriveAt(i, fr)

(* ---------------- clauses ---------------- *)
NoCrash == ~crashed
\* the sender's mark never runs ahead of what the sink really holds contiguously, nor of what was sent
MarkIsTrue == una <= Pfx(rcvd) /\ una <= nxt /\ nxt <= cfg.n
\* exactly the sent-and-unacknowledged segments are held with a pending timer
TimersAreOutstanding == timers = una..(nxt - 1)
\* acknowledgements are emitted in non-decreasing order (and stay so on a FIFO path) and never exceed what the sink holds
AcksOrdered == /\ cfg.fifo = 1 => \A i, j \in 1..Len(aq) : i <= j => aq[i].ack <= aq[j].ack
               /\ \A i \in 1..Len(aq) : aq[i].ack <= Pfx(rcvd)
\* only sent segments travel
OnlySentTravels == \A i \in 1..Len(dq) : dq[i] < nxt
=============================================================================
