---------------------------- MODULE TcpLoopTrace ----------------------------
(* Batch validation, by ORDER, of traces recorded from a real TCPPacketGenerator -> path -> TCPSink -> path ->   *)
(* TCPPacketGenerator loop against TcpLoop.tla.  Every recorded event must be an enabled step of the spec:       *)
(*   "T"  a data packet appeared on the sender's output (tap in front of the data path): seq, sz, fl, n = its    *)
(*        transmission number, dr = 1 if the scripted pattern drops it, re = 1 if this sequence number had been  *)
(*        transmitted before, ctx = 1 if it appeared while the sender was processing an ACK (inside put())       *)
(*   "S"  a data packet left the data path and was handed to the sink: seq; k = ACKs the sink emitted for it,    *)
(*        ack = the ACK number, n = the ACK's emission number, dr = 1 if the pattern drops it                    *)
(*   "C"  an ACK left the ACK path and sender.put(ack) returned: ack, nfr = data packets transmitted inside the  *)
(*        call, la / ns = sender.last_ack / next_seq after the call                                             *)
(*   "Q"  end of the run (agenda exhausted or horizon): la, ns, pre = contiguous prefix of sink.recv_buffer      *)
(*   "X"  an exception escaped env.run (no action matches it).                                                   *)
(* Byte numbers are bound as segment number * mss.  A transmission outside put() of a segment sent before is a   *)
(* timer expiry; for traces of the loss-free / RTT < RTO class (cfg.timely = 1, premise checked by the driver on  *)
(* the logged rto values) the specification does not enable it.                                                   *)
EXTENDS TcpLoop, Json
VARIABLES tid, l
Traces == JsonDeserialize("traces.json")
vars == <<lvars, tid, l>>
T == Traces[tid]
Tr == T.ev
Ev == Tr[l]
P == T.cfg                    \* [n, dd, ad, timely, fifo, mss, fl]
ToSet(s) == {s[i] : i \in 1..Len(s)}
Flag(b) == IF b THEN 1 ELSE 0
\* several packets in flight may carry the value the record shows (copies of one segment, equal acknowledgement numbers):
\* which of them arrived makes no difference to what follows (on a reordering path the bag counts, on a FIFO path only the
\* head may arrive anyway), so the first one is taken -- the search stays linear in the length of the trace
MinOf(I) == CHOOSE i \in I : \A j \in I : i <= j

Init == /\ tid \in 1..Len(Traces) /\ l = 1 /\ TLCSet(tid, 1)
        /\ InitWith([n |-> P.n, dd |-> ToSet(P.dd), ad |-> ToSet(P.ad), timely |-> P.timely, fifo |-> P.fifo])
More == l <= Len(Tr)
Consume(k) == l' = l + k /\ UNCHANGED tid

\* what every data transmission event must show: a full MSS segment of this flow, numbered and dropped as scripted
DataOk(e, s) == /\ e.seq = s * P.mss /\ e.sz = P.mss /\ e.fl = P.fl
                /\ e.n = txn + 1 /\ e.dr = Flag((txn + 1) \in cfg.dd)

NewEv == /\ More /\ Ev.e = "T" /\ Ev.ctx = 0 /\ Ev.re = 0
         /\ DataOk(Ev, nxt) /\ SendNew /\ Consume(1)
RtoEv == /\ More /\ Ev.e = "T" /\ Ev.ctx = 0 /\ Ev.re = 1
         /\ \E s \in timers : DataOk(Ev, s) /\ TimerFire(s)
         /\ Consume(1)
SinkEv == /\ More /\ Ev.e = "S" /\ dq # <<>>
          /\ Ev.k = 1
          /\ Ev.n = akn + 1 /\ Ev.dr = Flag((akn + 1) \in cfg.ad)
          /\ LET I == {i \in 1..Len(dq) : Ev.seq = dq[i] * P.mss} IN I # {} /\ SinkRecvAt(MinOf(I))
          /\ Ev.ack = Pfx(rcvd') * P.mss
          /\ Consume(1)
AckEv == /\ More /\ Ev.e = "C" /\ Ev.nfr = 0 /\ aq # <<>>
         /\ LET I == {i \in 1..Len(aq) : Ev.ack = aq[i].ack * P.mss} IN I # {} /\ AckArriveAt(MinOf(I), FALSE)
         /\ Ev.la = una' * P.mss /\ Ev.ns = nxt' * P.mss
         /\ Consume(1)
\* a retransmission from inside put(): the "T" event is followed by the "C" event of the call that made it
FrxEv == /\ More /\ Ev.e = "T" /\ Ev.ctx = 1 /\ Ev.re = 1 /\ l + 1 <= Len(Tr) /\ aq # <<>>
         /\ LET C == Tr[l + 1] IN
              /\ C.e = "C" /\ C.nfr = 1
              /\ DataOk(Ev, una)
              /\ LET I == {i \in 1..Len(aq) : C.ack = aq[i].ack * P.mss} IN I # {} /\ AckArriveAt(MinOf(I), TRUE)
              /\ C.la = una' * P.mss /\ C.ns = nxt' * P.mss
         /\ Consume(2)
EndEv == /\ More /\ Ev.e = "Q"
         /\ AllDelivered
         /\ Ev.la = cfg.n * P.mss /\ Ev.ns = cfg.n * P.mss /\ Ev.pre = cfg.n * P.mss
         /\ UNCHANGED lvars /\ Consume(1)
Next == NewEv \/ RtoEv \/ SinkEv \/ AckEv \/ FrxEv \/ EndEv
Spec == Init /\ [][Next]_vars

Mark == TLCSet(tid, IF l > TLCGet(tid) THEN l ELSE TLCGet(tid))
Post == /\ \A i \in 1..Len(Traces) :
             TLCGet(i) = Len(Traces[i].ev) + 1 \/ PrintT(<<"STUCK", i, TLCGet(i)>>)
        /\ PrintT(<<"DONE", Len(Traces)>>)
=============================================================================
