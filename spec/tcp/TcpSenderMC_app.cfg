SPECIFICATION Spec
CONSTANTS
  MaxEv = 3
  MaxSeg = 4
  MaxCA = 3
  MaxK = 2
  M = 4
  Eager = TRUE
  AppLimited = TRUE
  Tier = "reno"
  N <- RN
  Plus <- RPlus
  Minus <- RMinus
  Scale <- RScale
  Div <- RDiv
  IntOver <- RIntOver
  AbsN <- RAbs
  MaxN <- RMax
  MayLe <- RLe
  MayGt <- RGt
  Near <- REq
  MinN <- RMin
  Cube <- RCube
  Frac <- RFrac
  Ratio <- RRatio
  Hundred <- RHundred
  IntR <- RN
CONSTRAINT Emit
INVARIANT CwndAtLeastMSS
INVARIANT SegmentsConsecutive
INVARIANT RtoPositive
PROPERTY WindowRespected
PROPERTY NewDataOnlyBySend
PROPERTY SlowStartRule
PROPERTY RenoCARule
PROPERTY DeflateRule
PROPERTY NewAckResets
PROPERTY EarlyDupRule
PROPERTY ThirdDupRule
PROPERTY FurtherDupRule
PROPERTY TimeoutRule
PROPERTY RtoLaw
PROPERTY OnlyAcksMoveTheEstimator
PROPERTY SsthAfterLoss
CHECK_DEADLOCK FALSE
