----------------------------- MODULE TcpSinkMC -----------------------------
(* Closed system for TcpSink: the environment hands in every sequence of at most MaxArr segments whose      *)
(* first byte is in Seqs and whose length is in Sizes (so: reordered, duplicated, overlapping, with gaps,   *)
(* first segment missing), each answered by the sink.  Every arrival sequence is emitted as a scenario.      *)
EXTENDS TcpSink, Json
CONSTANTS MaxArr, Seqs, Sizes
VARIABLES arrlog        \* history: the arrivals <<seq, size>> so far
vars == <<svars, arrlog>>

Init == SinkInit /\ arrlog = <<>>
EnvArrive == /\ Len(arrlog) < MaxArr
             /\ \E s \in Seqs, z \in Sizes : Arrive(s, z) /\ arrlog' = Append(arrlog, <<s, z>>)
DoAck == (\E a \in 0..(MaxHi({<<0, 0>>} \cup got)) : Ack(a)) /\ UNCHANGED arrlog
Next == EnvArrive \/ DoAck
Spec == Init /\ [][Next]_vars

Emit == (owed = 0 /\ Len(arrlog) >= 1) => PrintT(<<"EMIT", ToJson([arr |-> arrlog])>>)

\* every arrival is acknowledged: the answer is always possible
AckAlwaysPossible == owed = 1 => ENABLED DoAck
\* action form of "never decreases"
NeverDecreases == [][lastack' >= lastack]_vars
\* one acknowledgement per arrival
OnePerArrival == Len(hist) + owed = Len(arrlog)
=============================================================================
