SPECIFICATION FairSpec
CONSTANTS
  Saturate = TRUE
  DevF14 = FALSE
  NSegs = {2, 3}
  DropIdx = {1, 2, 3, 4}
  MaxDD = 2
  MaxAD = 2
  QMax = 2
  Win = 2
  Timelies = {0, 1}
  Fifos = {1}
INVARIANT NoCrash
INVARIANT MarkIsTrue
PROPERTY Delivers
CHECK_DEADLOCK FALSE
