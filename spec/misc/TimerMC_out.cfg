SPECIFICATION Spec
CONSTANTS
  MaxOut = 4
  MaxIn = 0
  MaxInCb = 1
  MaxT = 3
  Horizon = 6
  Ts = {1, 2, 3}
  Taus = {1, 2, 3}
  Autos = {0, 1}
CONSTRAINT Emit
INVARIANT FiresExactlyAtExpiry
INVARIANT OncePerExpiry
INVARIANT StoppedNeverFires
INVARIANT RestartRebases
INVARIANT NeverRaises
INVARIANT ArgsPassed
INVARIANT MonitorAgrees
PROPERTY TimeMonotone
PROPERTY NoNeedlessDelay
PROPERTY StopIsFinal
CHECK_DEADLOCK FALSE
