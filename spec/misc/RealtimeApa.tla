----------------------------- MODULE RealtimeApa -----------------------------
(* Unbounded safety of Realtime.tla by an inductive invariant, discharged by Apalache (see TimerApa.tla):    *)
(* for ALL factors, origins, wall-clock behaviours (sleep returns, body work, gaps) and sync() placements.   *)
EXTENDS Integers

VARIABLES
  \* @type: Int;
  wall,
  \* @type: Int;
  rstart,
  \* @type: Str;
  phase,
  \* @type: Int;
  tn,
  \* @type: { F: Int, strict: Int, t0: Int, w0: Int };
  cfg

R == INSTANCE Realtime

Cfgs == [F: {f \in Int : f > 0}, strict: {0, 1}, t0: Int, w0: Int]
Phases == {"idle", "wait", "kernel", "raising", "empty"}

Init == \E c \in Cfgs : R!InitWith(c)

Next ==
  \/ \E t \in Int : R!TurnOk(t) \/ R!TurnRaise(t)
  \/ R!Raised \/ R!TurnEmpty \/ R!EmptyRaised
  \/ \E d \in Int, a \in Int : R!Sleep(d, a)
  \/ R!Begin
  \/ \E c \in Int : R!Work(c) \/ R!Gap(c)
  \/ R!End
  \/ R!Sync

TypeOK == wall \in Int /\ rstart \in Int /\ phase \in Phases /\ tn \in Int /\ cfg \in Cfgs

\* the wall-clock origin is an instant that has been: creation, or a sync() call
OriginNotAhead == rstart <= wall
\* the 'too slow' error is on its way out only when the step really was too slow on turning -- hence never in
\* non-strict mode, and never when the lag is at most the factor
RaisesOnlyWhenTooSlow == phase = "raising" => (cfg.strict = 1 /\ wall - (rstart + (tn - cfg.t0) * cfg.F) > cfg.F)

IndInv == TypeOK /\ OriginNotAhead /\ RaisesOnlyWhenTooSlow
IndInit == IndInv
=============================================================================
