SPECIFICATION Spec
CONSTANTS
  Fs = {2, 4, 8}
  Stricts = {0, 1}
  T0s = {5}
  W0 = 40
  Deltas = {0, 1, 2}
  MaxSteps = 2
  MaxTurns = 3
  SleepModes = {"exact", "late1", "lateF", "lateF1"}
  MaxEarly = 0
  ReqModes = {"full"}
  WorkAmts = {"0", "F", "F1", "2F1"}
  GapAmts = {"F1"}
  MaxSync = 1
CONSTRAINT Emit
INVARIANT TypeOK
INVARIANT NonStrictNeverRaises
INVARIANT OriginIsLastSync
INVARIANT NoOverRequest
PROPERTY NeverEarly
PROPERTY ConsumedOnlyByKernelPart
PROPERTY SyncRebases
PROPERTY StrictIff
PROPERTY RaisesOnlyOnTurning
PROPERTY RaiseProcessesNothing
PROPERTY SleepsUntilDue
PROPERTY WallMonotone
CHECK_DEADLOCK FALSE
