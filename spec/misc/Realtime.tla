------------------------------ MODULE Realtime ------------------------------
(***************************************************************************)
(* Real-time pacing of a discrete-event kernel -- property C20 (pacing     *)
(* part; "alters no result" is decided by running the same programs on     *)
(* both environments and validating the log against SimKernel).            *)
(*                                                                         *)
(* A real-time environment created at wall-clock instant w0 with simulated *)
(* origin cfg.t0 and scale cfg.F processes the occurrence due at simulated *)
(* time t not before the wall clock reaches                                *)
(*        Due(t) = rstart + (t - cfg.t0) * cfg.F,                          *)
(* where rstart is the wall-clock instant of creation or of the latest     *)
(* sync().  One step():                                                    *)
(*   Turn   turn to the next occurrence t.  In strict mode, if the wall    *)
(*          clock is already more than cfg.F past Due(t) the step raises   *)
(*          (TurnRaise .. Raised) and the occurrence is NOT processed; in  *)
(*          every other case (TurnOk) it never raises.                     *)
(*   Sleep  while the wall clock is before Due(t) the step sleeps; a       *)
(*          sleep(d) asks for no more than the remaining time and returns  *)
(*          after an arbitrary positive amount a (early, exact or late).   *)
(*   Begin  the kernel part starts, only once wall >= Due(t), and without  *)
(*          sleeping when that already holds on turning.                   *)
(*   Work   process bodies / callbacks run and consume arbitrary wall time *)
(*   End    step() returns (or the kernel part raises: same transition).   *)
(* Between steps the caller may let wall time pass (Gap) and call Sync;    *)
(* process bodies may call Sync as well.  Reading the clock takes no time. *)
(*                                                                         *)
(* Numbers: wall-clock values in quarter ticks (integers); simulated       *)
(* instants in whole ticks; cfg.F = 4 * factor (factor 1/2, 1, 2 = 2, 4, 8)*)
(* so that every product is an exact integer.  Urgency: in phase "wait"    *)
(* nothing but Sleep (before due) or Begin (at/after due) can happen, and  *)
(* in "raising"/"empty" nothing but the raise: the wall clock moves only   *)
(* through sleeps, body work and gaps between steps.                       *)
(***************************************************************************)
EXTENDS Naturals, Integers, Sequences, TLC

VARIABLES wall,     \* the wall clock (quarter ticks)
          rstart,   \* wall-clock origin: instant of creation or of the latest sync()
          phase,    \* "idle" | "wait" | "kernel" | "raising" | "empty"
          tn,       \* simulated instant of the occurrence the current / latest step turned to
          cfg       \* frozen parameters [F, strict |-> 0/1, t0, w0]
rvars == <<wall, rstart, phase, tn, cfg>>

Due(t) == rstart + (t - cfg.t0) * cfg.F
Lag(t) == wall - Due(t)
TooSlow(t) == cfg.strict = 1 /\ Lag(t) > cfg.F

InitWith(c) == /\ wall = c.w0 /\ rstart = c.w0 /\ phase = "idle" /\ tn = c.t0 /\ cfg = c

\* step() is called and the next occurrence is due at simulated time t
TurnOk(t) ==    /\ phase = "idle" /\ ~TooSlow(t)
                /\ phase' = "wait" /\ tn' = t
                /\ UNCHANGED <<wall, rstart, cfg>>
TurnRaise(t) == /\ phase = "idle" /\ TooSlow(t)
                /\ phase' = "raising" /\ tn' = t
                /\ UNCHANGED <<wall, rstart, cfg>>
\* the RuntimeError leaves step(); the occurrence stays on the agenda
Raised ==       /\ phase = "raising" /\ phase' = "idle"
                /\ UNCHANGED <<wall, rstart, tn, cfg>>
\* step() on an empty agenda raises EmptySchedule
TurnEmpty ==    /\ phase = "idle" /\ phase' = "empty"
                /\ UNCHANGED <<wall, rstart, tn, cfg>>
EmptyRaised ==  /\ phase = "empty" /\ phase' = "idle"
                /\ UNCHANGED <<wall, rstart, tn, cfg>>

\* sleep(d) returns after a: the request never reaches beyond the due instant, the return is arbitrary
Sleep(d, a) ==  /\ phase = "wait"
                /\ d > 0 /\ d <= Due(tn) - wall
                /\ a > 0
                /\ wall' = wall + a
                /\ UNCHANGED <<rstart, phase, tn, cfg>>
\* the kernel part of the step starts
Begin ==        /\ phase = "wait" /\ wall >= Due(tn)
                /\ phase' = "kernel"
                /\ UNCHANGED <<wall, rstart, tn, cfg>>
\* a process body / callback of the occurrence runs and consumes c
Work(c) ==      /\ phase = "kernel" /\ c >= 0
                /\ wall' = wall + c
                /\ UNCHANGED <<rstart, phase, tn, cfg>>
End ==          /\ phase = "kernel" /\ phase' = "idle"
                /\ UNCHANGED <<wall, rstart, tn, cfg>>
\* wall time passes between two steps
Gap(c) ==       /\ phase = "idle" /\ c > 0
                /\ wall' = wall + c
                /\ UNCHANGED <<rstart, phase, tn, cfg>>
\* sync(): from the top level between steps, or from a process body
Sync ==         /\ phase \in {"idle", "kernel"}
                /\ rstart' = wall
                /\ UNCHANGED <<wall, phase, tn, cfg>>
=============================================================================
