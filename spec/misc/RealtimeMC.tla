----------------------------- MODULE RealtimeMC -----------------------------
(* Closed system for exhaustive checking of Realtime: an abstract agenda of due simulated instants (every        *)
(* non-decreasing sequence within the bounds, for every factor / strict / initial-time configuration) and an     *)
(* adversarial wall clock -- sleeps that return early, exactly, late, late by exactly / more than `factor`;      *)
(* process bodies and gaps between steps that consume 0, a little, exactly k*factor or k*factor + 1/4 wall time  *)
(* (so that the lag on the next turn sits on either side of, and exactly on, the strict-mode boundary); sync()   *)
(* calls between steps and from process bodies, before and after the consumption; repeated step() after a raise. *)
(* `lastsync` is a history variable (wall clock at creation / at the latest sync call): every clause of C20's    *)
(* pacing part is phrased over it, not over rstart.  Every complete wall-clock schedule is emitted.              *)
EXTENDS Realtime, Json
CONSTANTS Fs, Stricts, T0s, W0,     \* configurations: 4*factor, strict 0/1, initial simulated time, initial wall clock
          Deltas, MaxSteps,         \* agenda: up to MaxSteps occurrences, successive instants differ by a Delta
          MaxTurns,                 \* step() calls per history (a raised step is repeated)
          SleepModes, MaxEarly,     \* outcomes of a sleep; at most MaxEarly early returns per step
          ReqModes,                 \* "full": sleep requests the whole remaining time; "one": a quarter tick only
          WorkAmts, GapAmts,        \* symbolic amounts consumed by the body of a step / between two steps
          MaxSync                   \* sync() calls per history
VARIABLES agenda,    \* remaining due instants (head = next occurrence)
          ag0,       \* the agenda at the start (frozen; for emission)
          hist,      \* history [k, t, d, a, c]: "T" turn ok, "TR" turn raises, "SL" sleep(d) advanced a, "W" body work c,
                     \*   "G" gap c, "SY" sync (t = 1: from a body), "E" step ended
          lastsync,  \* wall clock at creation or at the latest sync() call
          nturn, nsy,
          fl         \* per-step flags [early, worked, ksync, gapped, isync]
vars == <<rvars, agenda, ag0, hist, lastsync, nturn, nsy, fl>>

Amount(m) == CASE m = "0" -> 0 [] m = "1" -> 1 [] m = "F" -> cfg.F [] m = "F1" -> cfg.F + 1
               [] m = "2F" -> 2 * cfg.F [] m = "2F1" -> 2 * cfg.F + 1 [] m = "3F1" -> 3 * cfg.F + 1
\* what a sleep asked for d returns after; 0 = mode not applicable here
Advance(m, d) == CASE m = "one" -> IF d > 1 THEN 1 ELSE 0
                   [] m = "short" -> IF d > 2 THEN d - 1 ELSE 0
                   [] m = "exact" -> d
                   [] m = "late1" -> d + 1
                   [] m = "lateF" -> d + cfg.F
                   [] m = "lateF1" -> d + cfg.F + 1
RECURSIVE SumTo(_, _)
SumTo(f, i) == IF i = 0 THEN 0 ELSE f[i] + SumTo(f, i - 1)
Rec(k, t, d, a, c) == [k |-> k, t |-> t, d |-> d, a |-> a, c |-> c]
Log(e) == hist' = Append(hist, e)
F0 == [early |-> 0, worked |-> 0, ksync |-> 0, gapped |-> 0, isync |-> 0]

Init == /\ \E F \in Fs, s \in Stricts, t0 \in T0s : InitWith([F |-> F, strict |-> s, t0 |-> t0, w0 |-> W0])
        /\ \E n \in 1..MaxSteps : \E incs \in [1..n -> Deltas] :
              agenda = [i \in 1..n |-> cfg.t0 + SumTo(incs, i)]
        /\ ag0 = agenda /\ hist = <<>> /\ lastsync = W0 /\ nturn = 0 /\ nsy = 0 /\ fl = F0

CanTurn == agenda # <<>> /\ nturn < MaxTurns
MTurnOk ==    /\ CanTurn /\ TurnOk(Head(agenda)) /\ Log(Rec("T", Head(agenda), 0, 0, 0))
              /\ nturn' = nturn + 1 /\ fl' = F0 /\ UNCHANGED <<agenda, ag0, lastsync, nsy>>
MTurnRaise == /\ CanTurn /\ TurnRaise(Head(agenda)) /\ Log(Rec("TR", Head(agenda), 0, 0, 0))
              /\ nturn' = nturn + 1 /\ fl' = F0 /\ UNCHANGED <<agenda, ag0, lastsync, nsy>>
MRaised ==    /\ Raised /\ UNCHANGED <<agenda, ag0, hist, lastsync, nturn, nsy, fl>>
Request(rm) == IF rm = "one" THEN 1 ELSE Due(tn) - wall
\* whether sleeping is possible at all (only before the due instant) is decided by Realtime!Sleep, not here
MSleep(m, rm) == /\ phase = "wait"
                 /\ rm = "one" => Due(tn) - wall # 1
                 /\ LET d == Request(rm)  a == Advance(m, d) IN
                    /\ a > 0
                    /\ (wall + a < Due(tn)) => fl.early < MaxEarly
                    /\ Sleep(d, a) /\ Log(Rec("SL", tn, d, a, 0))
                    /\ fl' = [fl EXCEPT !.early = IF wall + a < Due(tn) THEN @ + 1 ELSE @]
                 /\ UNCHANGED <<agenda, ag0, lastsync, nturn, nsy>>
MSleepAny ==  \E m \in SleepModes, rm \in ReqModes : MSleep(m, rm)
MBegin ==     /\ Begin /\ UNCHANGED <<agenda, ag0, hist, lastsync, nturn, nsy, fl>>
MWork ==      /\ fl.worked = 0
              /\ \E m \in WorkAmts : Work(Amount(m)) /\ Log(Rec("W", tn, 0, 0, Amount(m)))
              /\ fl' = [fl EXCEPT !.worked = 1] /\ UNCHANGED <<agenda, ag0, lastsync, nturn, nsy>>
MSyncBody ==  /\ phase = "kernel" /\ fl.ksync = 0 /\ nsy < MaxSync
              /\ Sync /\ lastsync' = wall /\ Log(Rec("SY", 1, 0, 0, 0))
              /\ nsy' = nsy + 1 /\ fl' = [fl EXCEPT !.ksync = 1] /\ UNCHANGED <<agenda, ag0, nturn>>
MEnd ==       /\ fl.worked = 1 /\ End /\ agenda' = Tail(agenda) /\ Log(Rec("E", tn, 0, 0, 0))
              /\ fl' = F0 /\ UNCHANGED <<ag0, lastsync, nturn, nsy>>
MGap ==       /\ CanTurn /\ fl.gapped = 0
              /\ \E m \in GapAmts : Gap(Amount(m)) /\ Log(Rec("G", 0, 0, 0, Amount(m)))
              /\ fl' = [fl EXCEPT !.gapped = 1] /\ UNCHANGED <<agenda, ag0, lastsync, nturn, nsy>>
MSyncTop ==   /\ CanTurn /\ phase = "idle" /\ fl.isync = 0 /\ nsy < MaxSync
              /\ Sync /\ lastsync' = wall /\ Log(Rec("SY", 0, 0, 0, 0))
              /\ nsy' = nsy + 1 /\ fl' = [fl EXCEPT !.isync = 1] /\ UNCHANGED <<agenda, ag0, nturn>>
Next == MTurnOk \/ MTurnRaise \/ MRaised \/ MSleepAny \/ MBegin
        \/ MWork \/ MSyncBody \/ MEnd \/ MGap \/ MSyncTop
Spec == Init /\ [][Next]_vars

Terminal == phase = "idle" /\ ~CanTurn
Emit == Terminal => PrintT(<<"EMIT", ToJson([cfg |-> cfg, agenda |-> ag0, hist |-> hist])>>)

(* ----------------------- the clauses of C20 (pacing), over wall / lastsync / the agenda ----------------------- *)
MonDue(t) == lastsync + (t - cfg.t0) * cfg.F
\* the kernel part of the step for simulated time t never starts before real_start + (t - initial_time) * factor
NeverEarly == [][(phase' = "kernel" /\ phase # "kernel") => wall' >= MonDue(tn')]_vars
\* ... and an occurrence is only ever consumed by a step whose kernel part has started
ConsumedOnlyByKernelPart == [][agenda' # agenda => (phase = "kernel" /\ agenda' = Tail(agenda) /\ tn = Head(agenda))]_vars
\* strict mode: the step raises exactly when, on turning to the occurrence, the wall clock is more than factor past due
Turning == phase = "idle" /\ phase' # "idle"
StrictIff == [][Turning => ((phase' = "raising") <=> (cfg.strict = 1 /\ wall - MonDue(tn') > cfg.F))]_vars
RaisesOnlyOnTurning == [][(phase' = "raising" /\ phase # "raising") => Turning]_vars
RaiseProcessesNothing == [][phase = "raising" => (agenda' = agenda /\ wall' = wall /\ phase' = "idle")]_vars
NonStrictNeverRaises == cfg.strict = 0 => phase # "raising"
\* sync() re-bases the origin to the wall clock at the call (and nothing else does)
OriginIsLastSync == rstart = lastsync
SyncRebases == [][lastsync' # lastsync => (rstart' = wall /\ wall' = wall)]_vars
\* while waiting: before the due instant the only thing that happens is a sleep, and it asks for no more than the remaining
\* time; at or after the due instant the kernel part starts at once, without sleeping
SleepsUntilDue == [][phase = "wait" => IF wall < MonDue(tn) THEN phase' = "wait" /\ wall' > wall
                                                             ELSE phase' = "kernel" /\ wall' = wall]_vars
NoOverRequest == (hist # <<>> /\ hist[Len(hist)].k = "SL") =>
                    LET e == hist[Len(hist)] IN e.d > 0 /\ wall - e.a + e.d <= MonDue(tn)
WallMonotone == [][wall' >= wall]_vars
TypeOK == /\ phase \in {"idle", "wait", "kernel", "raising"} /\ wall >= W0 /\ rstart >= W0 /\ rstart <= wall
=============================================================================
