------------------------------ MODULE TimerMC ------------------------------
(* Closed system for exhaustive checking of Timer: an environment that issues up to MaxOut outside calls      *)
(* (Stop, Restart(tau)) at arbitrary instants <= MaxT -- before, exactly at (both sides of the firing) and    *)
(* after expiries, several per instant -- and up to MaxIn calls from inside the timer's own callback, for     *)
(* one-shot and auto-restart timers.  `hist` records calls and firings in order; every clause of C19 is a     *)
(* formula over `hist` and a monitor folded from it (not over armed/expiry of Timer.tla), and every complete  *)
(* history is emitted as a scenario.                                                                          *)
EXTENDS Timer, Json
CONSTANTS MaxOut,    \* outside calls per history
          MaxIn,     \* calls from inside the callback per history
          MaxInCb,   \* ... and per callback invocation
          MaxT,      \* latest instant of an outside call
          Horizon,   \* the run is observed until this instant
          Ts, Taus, Autos
VARIABLES hist,      \* history: [k |-> "S"/"R"/"F", t, tau, inn |-> 0/1 (issued from inside the callback), a (arguments received), pre]
          mon,       \* monitor: what the property text lets one conclude from `hist` alone (see Upd)
          pmon,      \* the monitor before the last entry of hist
          nout, nin, ncb
vars == <<tvars, hist, mon, pmon, nout, nin, ncb>>

\* argument vectors <<n, a1, a2, kw>> a callback invocation may receive in the model; the first is the given one
ArgChoices == <<<<1, 7, -1, -1>>, <<0, -1, -1, -1>>, <<2, 7, 7, -1>>>>
Given == <<cfg.n, cfg.a1, cfg.a2, cfg.kw>>

(* ------------------------------------------------------------------------------------------------------ *)
(* The monitor is a function of the history only (mon = fold of Upd over hist), written from the property  *)
(* text, not from the variables of Timer.tla:                                                             *)
(*   st   "yes": an expiry is certainly pending at `due`; "no": the (one-shot) expiry has been consumed;   *)
(*        "maybe": a restart was issued on a consumed one-shot timer -- it may or may not have re-armed it *)
(*   per  the timeout in force;  stopped: a stop() has been issued                                        *)
(*   pk, pt, ptau: kind / instant / tau of the latest entry that is a firing or a restart ("" if none)    *)
(*   psure: that entry is a restart issued on a certainly pending timer or from inside the own callback   *)
M0 == [st |-> "yes", due |-> cfg.T, per |-> cfg.T, stopped |-> FALSE, pk |-> "", pt |-> 0, ptau |-> 0, psure |-> FALSE]
Upd(m, e) == CASE e.k = "S" -> [m EXCEPT !.stopped = TRUE]
               [] e.k = "R" -> [m EXCEPT !.per = e.tau, !.due = e.t + e.tau,
                                         !.st = IF e.inn = 1 \/ m.st = "yes" THEN "yes" ELSE "maybe",
                                         !.pk = "R", !.pt = e.t, !.ptau = e.tau,
                                         !.psure = (e.inn = 1 \/ m.st = "yes")]
               [] e.k = "F" -> IF cfg.auto = 1
                               THEN [m EXCEPT !.st = "yes", !.due = e.t + m.per, !.pk = "F", !.pt = e.t, !.ptau = 0, !.psure = FALSE]
                               ELSE [m EXCEPT !.st = "no", !.pk = "F", !.pt = e.t, !.ptau = 0, !.psure = FALSE]
\* pre = 1 marks a call that arrives while a firing is due at this very instant (it pre-empts that firing);
\* it is an annotation for scenario generation and counting only, no formula reads it
Rec(k, tau, inn, a) == [k |-> k, t |-> now, tau |-> tau, inn |-> inn, a |-> a, pre |-> IF Due /\ k # "F" THEN 1 ELSE 0]
Log(e) == hist' = Append(hist, e) /\ mon' = Upd(mon, e) /\ pmon' = mon
NoLog == UNCHANGED <<hist, mon, pmon>>

Init == /\ \E T \in Ts, au \in Autos :
             InitWith([T |-> T, auto |-> au, n |-> ArgChoices[1][1], a1 |-> ArgChoices[1][2],
                       a2 |-> ArgChoices[1][3], kw |-> ArgChoices[1][4]])
        /\ hist = <<>> /\ mon = M0 /\ pmon = M0 /\ nout = 0 /\ nin = 0 /\ ncb = 0

EnvStop ==    /\ ~inCb /\ nout < MaxOut /\ now <= MaxT
              /\ Stop /\ Log(Rec("S", 0, 0, <<>>))
              /\ nout' = nout + 1 /\ UNCHANGED <<nin, ncb>>
EnvRestart == /\ ~inCb /\ nout < MaxOut /\ now <= MaxT
              /\ \E tau \in Taus : Restart(tau) /\ Log(Rec("R", tau, 0, <<>>))
              /\ nout' = nout + 1 /\ UNCHANGED <<nin, ncb>>
CbStop ==     /\ inCb /\ nin < MaxIn /\ ncb < MaxInCb
              /\ Stop /\ Log(Rec("S", 0, 1, <<>>))
              /\ nin' = nin + 1 /\ ncb' = ncb + 1 /\ UNCHANGED nout
CbRestart ==  /\ inCb /\ nin < MaxIn /\ ncb < MaxInCb
              /\ \E tau \in Taus : Restart(tau) /\ Log(Rec("R", tau, 1, <<>>))
              /\ nin' = nin + 1 /\ ncb' = ncb + 1 /\ UNCHANGED nout
DoFire ==     /\ \E i \in 1..Len(ArgChoices) :
                   LET g == ArgChoices[i] IN
                   Fire(g[1], g[2], g[3], g[4]) /\ Log(Rec("F", 0, 0, g))
              /\ ncb' = 0 /\ UNCHANGED <<nout, nin>>
DoEndCb ==    EndCb /\ NoLog /\ UNCHANGED <<nout, nin, ncb>>
\* the clock may jump to any later instant the specification admits (so the deadline guard of TickTo is exercised)
EnvTick ==    /\ \E t \in (now + 1)..Horizon : TickTo(t)
              /\ NoLog /\ UNCHANGED <<nout, nin, ncb>>
Next == EnvStop \/ EnvRestart \/ CbStop \/ CbRestart \/ DoFire \/ DoEndCb \/ EnvTick
Spec == Init /\ [][Next]_vars

Terminal == now = Horizon /\ ~Urgent
Emit == Terminal => PrintT(<<"EMIT", ToJson([cfg |-> cfg, hist |-> hist])>>)

(* `hist` only grows by Append and every prefix of a reachable history is the history of a reachable state, *)
(* so a clause "for all firings ..." holds for all histories iff its instance for the LAST entry holds in   *)
(* all reachable states.  The invariants below are those instances.                                        *)
LastIsF == hist # <<>> /\ hist[Len(hist)].k = "F"
Last == hist[Len(hist)]

\* every firing happens at the instant the history makes due, and the clock never passes a due instant
FiresExactlyAtExpiry ==
  /\ LastIsF => Last.t = pmon.due
  /\ (mon.st = "yes" /\ ~mon.stopped) => now <= mon.due
\* one expiry, one firing: two firings with no restart between them belong to an auto-restart timer and to different instants
OncePerExpiry ==
  (LastIsF /\ pmon.pk = "F") => (cfg.auto = 1 /\ Last.t > pmon.pt)
StoppedNeverFires ==
  LastIsF => ~pmon.stopped
\* after Restart(tau) at r the next firing (no other restart in between) is at r + tau, whatever the old expiry was;
\* and when the timer was pending or the call came from its own callback that firing is not lost
RestartRebases ==
  /\ (LastIsF /\ pmon.pk = "R") => Last.t = pmon.pt + pmon.ptau
  /\ (mon.pk = "R" /\ mon.psure /\ ~mon.stopped) => now <= mon.pt + mon.ptau
\* no call is refused in any reachable state, inside or outside the callback, at or off an expiry instant
NeverRaises == (ENABLED Stop) /\ \A tau \in Taus : ENABLED Restart(tau)
ArgsPassed == LastIsF => Last.a = Given

TimeMonotone == [][now' >= now]_vars
NoNeedlessDelay == [][now' > now => ~Urgent]_vars
StopIsFinal == [][stopped => stopped']_vars
\* the abstract state agrees with what the history says (ties the mechanism of Timer.tla to the monitor)
MonitorAgrees ==
  /\ mon.stopped = stopped /\ mon.per = per
  /\ (mon.st = "yes" /\ ~inCb) => (armed /\ expiry = mon.due)
  /\ (mon.st = "no" /\ ~inCb) => ~armed
=============================================================================
