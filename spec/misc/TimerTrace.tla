----------------------------- MODULE TimerTrace -----------------------------
(* Batch validation of traces recorded from the real onl.utils.Timer against Timer.tla.                       *)
(* Events (uniform records): e = "F" callback entered with n positional arguments a1, a2 and keyword k = kw,  *)
(* "FE" callback returned, "S" stop() issued, "R" restart(tau) issued (inn = 1: from inside the own callback),*)
(* "X" an exception escaped stop()/restart()/the run -- no action matches it, "Q" end of the observation at   *)
(* the horizon: no firing may be overdue.  t is the instant in ticks.                                         *)
EXTENDS Timer, Json
VARIABLES tid, l
Traces == JsonDeserialize("traces.json")
vars == <<tvars, tid, l>>
Tr == Traces[tid].ev
Ev == Tr[l]

Init == /\ tid \in 1..Len(Traces) /\ l = 1 /\ TLCSet(tid, 1)
        /\ InitWith(Traces[tid].cfg)
More == l <= Len(Tr)
Here == More /\ Ev.t = now
Consume == l' = l + 1 /\ UNCHANGED tid
Keep == UNCHANGED <<tid, l>>

FireEv ==    Here /\ Ev.e = "F" /\ Fire(Ev.n, Ev.a1, Ev.a2, Ev.kw) /\ Consume
EndEv ==     Here /\ Ev.e = "FE" /\ EndCb /\ Consume
StopEv ==    Here /\ Ev.e = "S" /\ (Ev.inn = 1) = inCb /\ Stop /\ Consume
RestartEv == Here /\ Ev.e = "R" /\ (Ev.inn = 1) = inCb /\ Restart(Ev.tau) /\ Consume
QuietEv ==   Here /\ Ev.e = "Q" /\ ~Urgent /\ UNCHANGED tvars /\ Consume
TickEv ==    More /\ TickTo(Ev.t) /\ Keep
Next == FireEv \/ EndEv \/ StopEv \/ RestartEv \/ QuietEv \/ TickEv
Spec == Init /\ [][Next]_vars

Mark == TLCSet(tid, IF l > TLCGet(tid) THEN l ELSE TLCGet(tid))
Post == /\ \A i \in 1..Len(Traces) :
             TLCGet(i) = Len(Traces[i].ev) + 1 \/ PrintT(<<"STUCK", i, TLCGet(i)>>)
        /\ PrintT(<<"DONE", Len(Traces)>>)
=============================================================================
