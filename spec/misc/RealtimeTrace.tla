---------------------------- MODULE RealtimeTrace ----------------------------
(* Batch validation of wall-clock traces recorded from the real onl.sim.rt.RealtimeEnvironment (driven under a       *)
(* virtual monotonic()/sleep() pair) against Realtime.tla.  The wall clock is replayed from the log: the advance of   *)
(* every sleep / body / gap is the driver's own scripted action and is bound from the event; every decision of the   *)
(* environment (raise or not on turning, sleep or start the kernel part, how much to ask for, what sync does) must    *)
(* be one the specification allows in the replayed state.                                                             *)
(* Events (uniform records [e, t, w, d, a, c, slow, type]; w = virtual clock in quarter ticks when the event occurs): *)
(*   "M"  monotonic() read returning w (any phase; reading takes no time and is not otherwise constrained)            *)
(*   "ST" step() entered, peek() = t (-1: empty agenda)                                                               *)
(*   "SL" sleep(d) called, the virtual clock then advanced by a                                                       *)
(*   "B"  a harness-owned process body / probe callback runs at env.now = t, then consumes c                          *)
(*   "K"  step() returned with env.now = t                                                                            *)
(*   "X"  an exception left step(): slow = 1 for RuntimeError('Simulation too slow for real time ...'), else the      *)
(*        kernel's own (EmptySchedule on an empty agenda; StopSimulation / a process failure out of the kernel part)  *)
(*   "SY" sync() called     "G" the top level let c pass between two steps     "Q" end of the observation             *)
EXTENDS Realtime, Json
VARIABLES tid, l
Traces == JsonDeserialize("traces.json")
vars == <<rvars, tid, l>>
Tr == Traces[tid].ev
Ev == Tr[l]

Init == /\ tid \in 1..Len(Traces) /\ l = 1 /\ TLCSet(tid, 1)
        /\ InitWith(Traces[tid].cfg)
More == l <= Len(Tr)
Is(k) == More /\ Ev.e = k
At(k) == Is(k) /\ Ev.w = wall
Consume == l' = l + 1 /\ UNCHANGED tid
Keep == UNCHANGED <<tid, l>>

ReadEv ==   At("M") /\ UNCHANGED rvars /\ Consume
TurnEv ==   At("ST") /\ Ev.t # -1 /\ (TurnOk(Ev.t) \/ TurnRaise(Ev.t)) /\ Consume
EmptyEv ==  At("ST") /\ Ev.t = -1 /\ TurnEmpty /\ Consume
SleepEv ==  At("SL") /\ Sleep(Ev.d, Ev.a) /\ Consume
\* the kernel part has started when a body runs (or calls sync) / the step returns / the kernel part raises: silent, only once due
BeginSil == /\ More /\ (Ev.e \in {"B", "K", "SY"} \/ (Ev.e = "X" /\ Ev.slow = 0)) /\ Begin /\ Keep
BodyEv ==   At("B") /\ Ev.t = tn /\ Work(Ev.c) /\ Consume
EndEv ==    At("K") /\ Ev.t = tn /\ End /\ Consume
SlowEv ==   At("X") /\ Ev.slow = 1 /\ Raised /\ Consume
NoEvEv ==   At("X") /\ Ev.slow = 0 /\ Ev.type = "EmptySchedule" /\ EmptyRaised /\ Consume
KExcEv ==   At("X") /\ Ev.slow = 0 /\ End /\ Consume
SyncEv ==   At("SY") /\ Sync /\ Consume
GapEv ==    At("G") /\ Gap(Ev.c) /\ Consume
QuietEv ==  Is("Q") /\ phase = "idle" /\ UNCHANGED rvars /\ Consume
Next == ReadEv \/ TurnEv \/ EmptyEv \/ SleepEv \/ BeginSil \/ BodyEv \/ EndEv \/ SlowEv \/ NoEvEv \/ KExcEv
        \/ SyncEv \/ GapEv \/ QuietEv
Spec == Init /\ [][Next]_vars

Mark == TLCSet(tid, IF l > TLCGet(tid) THEN l ELSE TLCGet(tid))
Post == /\ \A i \in 1..Len(Traces) :
             TLCGet(i) = Len(Traces[i].ev) + 1 \/ PrintT(<<"STUCK", i, TLCGet(i)>>)
        /\ PrintT(<<"DONE", Len(Traces)>>)
=============================================================================
