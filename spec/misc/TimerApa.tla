------------------------------ MODULE TimerApa ------------------------------
(* Unbounded safety of Timer.tla by an inductive invariant, discharged by Apalache (SMT):                    *)
(*   apalache-mc check --init=Init     --inv=IndInv --length=0 TimerApa.tla      (the initial states satisfy it) *)
(*   apalache-mc check --init=IndInit  --inv=IndInv --length=1 TimerApa.tla      (every step preserves it)       *)
(* for ALL timeouts, restart values, instants and call sequences -- not only those within TimerMC's bounds.  *)
EXTENDS Integers

VARIABLES
  \* @type: Int;
  now,
  \* @type: Bool;
  armed,
  \* @type: Int;
  expiry,
  \* @type: Bool;
  stopped,
  \* @type: Int;
  per,
  \* @type: Bool;
  inCb,
  \* @type: Int;
  nfire,
  \* @type: { T: Int, auto: Int, n: Int, a1: Int, a2: Int, kw: Int };
  cfg

T == INSTANCE Timer

Cfgs == [T: {t \in Int : t > 0}, auto: {0, 1}, n: Int, a1: Int, a2: Int, kw: Int]

Init == \E c \in Cfgs : T!InitWith(c)

Next ==
  \/ \E n \in Int, a1 \in Int, a2 \in Int, kw \in Int : T!Fire(n, a1, a2, kw)
  \/ T!EndCb
  \/ T!Stop
  \/ \E tau \in Int : T!Restart(tau)
  \/ \E t \in Int : T!TickTo(t)

TypeOK ==
  /\ now \in Int /\ armed \in BOOLEAN /\ expiry \in Int /\ stopped \in BOOLEAN /\ per \in Int
  /\ inCb \in BOOLEAN /\ nfire \in Int /\ cfg \in Cfgs

\* a pending expiry of a timer that is not stopped is never in the past: together with the urgency of Fire (the clock
\* cannot pass it) the callback runs exactly at the expiry, never late
NeverOverdue == (armed /\ ~stopped) => expiry >= now
\* inside the callback the timer is either disarmed or re-based strictly into the future: the callback cannot be
\* entered a second time for the same expiry
NoSecondFiringOfOneExpiry == (inCb /\ armed) => expiry > now
PositivePeriod == per > 0
Counted == nfire >= 0 /\ now >= 0

IndInv == TypeOK /\ NeverOverdue /\ NoSecondFiringOfOneExpiry /\ PositivePeriod /\ Counted
IndInit == IndInv
=============================================================================
