SPECIFICATION Spec
CONSTANTS
  Fs = {2, 4}
  Stricts = {0}
  T0s = {0}
  W0 = 40
  Deltas = {1, 2}
  MaxSteps = 2
  MaxTurns = 2
  SleepModes = {"one", "short", "exact", "late1", "lateF1"}
  MaxEarly = 2
  ReqModes = {"full"}
  WorkAmts = {"0", "F1"}
  GapAmts = {"1"}
  MaxSync = 1
CONSTRAINT Emit
INVARIANT TypeOK
INVARIANT NonStrictNeverRaises
INVARIANT OriginIsLastSync
INVARIANT NoOverRequest
PROPERTY NeverEarly
PROPERTY ConsumedOnlyByKernelPart
PROPERTY SyncRebases
PROPERTY StrictIff
PROPERTY RaisesOnlyOnTurning
PROPERTY RaiseProcessesNothing
PROPERTY SleepsUntilDue
PROPERTY WallMonotone
CHECK_DEADLOCK FALSE
