------------------------------- MODULE Timer -------------------------------
(***************************************************************************)
(* A software timer with stop / restart -- property C19.                   *)
(*                                                                         *)
(* A timer created at instant 0 with timeout cfg.T calls its callback with *)
(* the given arguments at instant cfg.T, and every `per` thereafter when   *)
(* cfg.auto = 1, unless it is stopped or restarted first.  The callback    *)
(* runs inside one instant (Fire ... EndCb) and may itself call Stop and   *)
(* Restart.  Stop is final.  Restart(tau) at instant r on a timer with a   *)
(* pending expiry, or from inside the own callback, moves the one pending  *)
(* expiry to r + tau (the old one is gone).  The property is silent on     *)
(* whether Restart re-arms a one-shot timer whose expiry has already been  *)
(* consumed: that is left to the implementation (both allowed, per call).  *)
(* No call is ever refused: Stop and Restart(tau) are enabled in every     *)
(* state ("never raises").                                                 *)
(*                                                                         *)
(* Time is an integer number of ticks.  Urgency: the clock may not advance *)
(* while a firing is due or a callback is running, nor past a pending      *)
(* expiry of a timer that is not stopped -- this is "fires exactly at".    *)
(* A stopped timer has no deadline (DESIGN section 2, Timer rehearsal).    *)
(***************************************************************************)
EXTENDS Naturals, Integers, Sequences, FiniteSets, TLC

VARIABLES now,      \* current instant (ticks)
          armed,    \* there is a pending expiry
          expiry,   \* its instant (meaningful while armed)
          stopped,  \* stop() has been called
          per,      \* current timeout: cfg.T, or the tau of the latest restart
          inCb,     \* the callback is running
          nfire,    \* firings so far
          cfg       \* frozen parameters [T, auto |-> 0/1, n, a1, a2, kw]: the arguments the callback must receive
                    \*   (n positional arguments a1, a2 (-1 = absent), keyword argument k = kw (-1 = absent))
tvars == <<now, armed, expiry, stopped, per, inCb, nfire, cfg>>

InitWith(c) ==
  /\ now = 0 /\ armed = TRUE /\ expiry = c.T /\ stopped = FALSE /\ per = c.T
  /\ inCb = FALSE /\ nfire = 0 /\ cfg = c

Due == armed /\ ~stopped /\ expiry = now /\ ~inCb

\* the callback is entered with arguments (n; a1, a2; kw): they must be the given ones
Fire(n, a1, a2, kw) ==
  /\ Due
  /\ n = cfg.n /\ a1 = cfg.a1 /\ a2 = cfg.a2 /\ kw = cfg.kw
  /\ inCb' = TRUE /\ armed' = FALSE /\ nfire' = nfire + 1
  /\ UNCHANGED <<now, expiry, stopped, per, cfg>>

\* the callback returns; an auto-restart timer that the callback did not re-base is re-armed one period later
EndCb ==
  /\ inCb /\ inCb' = FALSE
  /\ IF cfg.auto = 1 /\ ~armed
       THEN armed' = TRUE /\ expiry' = now + per
       ELSE UNCHANGED <<armed, expiry>>
  /\ UNCHANGED <<now, stopped, per, nfire, cfg>>

Stop == /\ stopped' = TRUE
        /\ UNCHANGED <<now, armed, expiry, per, inCb, nfire, cfg>>

Restart(tau) ==
  /\ tau > 0
  /\ per' = tau
  /\ IF armed \/ inCb
       THEN armed' = TRUE /\ expiry' = now + tau          \* pending, or from the own callback: re-based
       ELSE \/ armed' = TRUE /\ expiry' = now + tau       \* expiry already consumed (one-shot): re-arming is left open
            \/ UNCHANGED <<armed, expiry>>
  /\ UNCHANGED <<now, stopped, inCb, nfire, cfg>>

Urgent == Due \/ inCb
TickTo(t) == /\ t > now /\ ~Urgent
             /\ (armed /\ ~stopped) => t <= expiry
             /\ now' = t
             /\ UNCHANGED <<armed, expiry, stopped, per, inCb, nfire, cfg>>
=============================================================================
