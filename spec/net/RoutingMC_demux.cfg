SPECIFICATION Spec
CONSTANTS
  MaxFlow = 3
  MaxOuts = 3
  MaxPuts = 1
  Tier = "demux"
CONSTRAINT Emit
INVARIANT DemuxAtMostOne
INVARIANT DemuxSameObject
INVARIANT FlowRule
INVARIANT EndPrecedence
INVARIANT TableRule
INVARIANT UnknownToDefault
INVARIANT NoneWithoutDefault
INVARIANT EmptyTableValid
INVARIANT AllWellFormed
INVARIANT NeverRaisesUnprovoked
CHECK_DEADLOCK FALSE
