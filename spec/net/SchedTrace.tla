----------------------------- MODULE SchedTrace -----------------------------
(* Batch validation of traces recorded from the real schedulers against Sched.tla.                 *)
(* Traces[tid].cfg.policy selects the selection rule the trace is held to ("ANY" for C12).         *)
(* Traces[tid].bind selects which policy attributes are compared: "" / "WFQ" / "VC" / "DRR".       *)
EXTENDS Sched, Json
VARIABLES tid, l
Traces == JsonDeserialize("traces.json")
vars == <<svars, tid, l>>
Tr == Traces[tid].ev
Ev == Tr[l]
Incl == Traces[tid].incl
Bind == Traces[tid].bind

Init == /\ tid \in 1..Len(Traces) /\ l = 1 /\ TLCSet(tid, 1)
        /\ InitWith(Traces[tid].cfg)
More == l <= Len(Tr)
Here == More /\ Ev.t = now
Consume == l' = l + 1 /\ UNCHANGED tid
Keep == UNCHANGED <<tid, l>>

Counters == /\ \A f \in Flows : cnt'[f] = Ev.cnt[f] /\ byt'[f] = Ev.byt[f]
            /\ Ev.tot = (LET RECURSIVE S(_) S(f) == IF f = 0 THEN 0 ELSE cnt'[f] + S(f - 1) IN S(cfg.nf))
Pis == Ev.pis = (IF srv' # <<>> /\ started' THEN srv'[1].id ELSE 0)
\* packets still in the scheduler's sub-queues (when the implementation exposes them): pins the Select step
Wt == Ev.wt = -1 \/ Ev.wt = Len(pool')
PolicyBound(k) ==
  /\ Bind = "WFQ" => (F'[k] = Ev.fk /\ V' = Ev.v)
  /\ Bind = "VC"  => aux'[k] = Ev.fk
  /\ Bind = "DRR" => \A c \in Classes : credit'[c] = Ev.cr[c]

ArriveEv == /\ Here /\ Ev.e = "A"
            /\ Arrive(Ev.id, Ev.f, Ev.sz)
            /\ Counters /\ Pis /\ Wt /\ PolicyBound(cfg.f2c[Ev.f]) /\ Consume
\* the tap sits inside the downstream put(): counters are already decremented
DepartEv == /\ Here /\ Ev.e = "D"
            /\ srv # <<>> /\ srv[1].id = Ev.id
            /\ Depart /\ Counters /\ Wt
            /\ (Bind = "DRR" => \A c \in Classes : credit'[c] = Ev.cr[c])
            /\ Consume
SampleEv == /\ Here /\ Ev.e = "S"
            /\ SampleOK(Ev.f, Incl, Ev.x, Ev.y)
            /\ UNCHANGED svars /\ Consume
QuietEv == /\ Here /\ Ev.e = "Q"
           /\ pool = <<>> /\ srv = <<>> /\ \A f \in Flows : cnt[f] = Ev.cnt[f] /\ byt[f] = Ev.byt[f]
           /\ UNCHANGED svars /\ Consume
\* C13 reads "waiting at that instant" in simulated time: a packet whose arrival at this instant was scheduled before
\* the instant began (a timer set earlier) is waiting at this instant for every choice SP makes at this instant.  Only
\* arrivals created inside the instant by zero-delay hops (sch = 0) may come after a choice of the same instant.
NoScheduledArrivalAhead == \A j \in l..Len(Tr) : (Tr[j].e = "A" /\ Tr[j].t = now) => Tr[j].sch = 0
SilentStep == /\ Silent /\ Keep
              /\ (cfg.policy = "SP" /\ srv = <<>> /\ srv' # <<>>) => NoScheduledArrivalAhead
\* a scheduler without next hop: its departures are not seen at a tap
HiddenDepart == Traces[tid].noout = 1 /\ Depart /\ Keep
\* ... and the clock has to stop at the end of each transmission although no event is logged there
HiddenTick == /\ Traces[tid].noout = 1 /\ srv # <<>> /\ started /\ fin > now
              /\ (More => fin <= Ev.t)
              /\ TickTo(fin) /\ Keep
TickEv == More /\ TickTo(Ev.t) /\ Keep
Next == ArriveEv \/ DepartEv \/ SampleEv \/ QuietEv \/ SilentStep \/ HiddenDepart \/ HiddenTick \/ TickEv
Spec == Init /\ [][Next]_vars

Mark == TLCSet(tid, IF l > TLCGet(tid) THEN l ELSE TLCGet(tid))
Post == /\ \A i \in 1..Len(Traces) :
             TLCGet(i) = Len(Traces[i].ev) + 1 \/ PrintT(<<"STUCK", i, TLCGet(i)>>)
        /\ PrintT(<<"DONE", Len(Traces)>>)
=============================================================================
