---------------------------- MODULE TwoRateTBMC ----------------------------
(* Closed system for exhaustive checking of TwoRateTB: arbitrary arrivals (bursts, idle gaps,       *)
(* arrivals at a departure instant), every allowed treatment of the committed bucket by yellow and   *)
(* red packets; every complete workload is emitted.                                                   *)
EXTENDS TwoRateTB, Json
CONSTANTS MaxPk, MaxT, Sizes, Gaps, Tier
VARIABLE arrlog          \* history: the workload so far [t, sz]
vars == <<wvars, arrlog>>

\* u = lattice unit: sizes are u * Sizes (u and the shaping bucket size are multiples of the shaping rate)
TrCfg(cir, cbs, pir, pbs, u) == [CIR |-> cir, CBS |-> cbs, PIR |-> pir, PBS |-> pbs, u |-> u]
Cfgs ==
  IF Tier = "pir" THEN {TrCfg(1, 2, 2, 8, 2), TrCfg(1, 3, 1, 2, 1)}
  ELSE IF Tier = "pir+" THEN {TrCfg(1, 2, 2, 8, 2), TrCfg(1, 3, 1, 4, 1), TrCfg(1, 3, 1, 2, 1), TrCfg(1, 2, 2, 4, 2), TrCfg(2, 3, 1, 4, 1)}
  ELSE {TrCfg(1, b, 0, 0, 1) : b \in {1, 2, 4}} \cup {TrCfg(2, 4, 0, 0, 2)}

Init == /\ \E c \in Cfgs : InitWith(c)
        /\ arrlog = <<>>

EnvArrive ==
  /\ nrecv < MaxPk /\ now <= MaxT
  /\ \E k \in Sizes :
       /\ Arrive(nrecv + 1, cfg.u * k)
       /\ arrlog' = Append(arrlog, [t |-> now, sz |-> cfg.u * k])
EnvTick ==
  /\ \/ nrecv < MaxPk /\ \E g \in Gaps : now + g <= MaxT /\ TickTo(now + g)
     \/ hd # <<>> /\ TickTo(due)
  /\ UNCHANGED arrlog
DoTake == Take /\ UNCHANGED arrlog
\* one name per colour so that coverage shows every colour occurs (vacuity)
DoDepartGreen == hd # <<>> /\ hd[1].col = "green" /\ Depart /\ UNCHANGED arrlog
DoDepartYellow == hd # <<>> /\ hd[1].col = "yellow" /\ Depart /\ UNCHANGED arrlog
DoDepartRed == hd # <<>> /\ hd[1].col = "red" /\ Depart /\ UNCHANGED arrlog
Next == EnvArrive \/ EnvTick \/ DoTake \/ DoDepartGreen \/ DoDepartYellow \/ DoDepartRed
Spec == Init /\ [][Next]_vars

Quiescent == q = <<>> /\ hd = <<>>
Complete == nrecv = MaxPk \/ \A g \in Gaps : now + g > MaxT
Emit == (Quiescent /\ nrecv >= 1 /\ Complete) =>
          PrintT(<<"EMIT", ToJson([cfg |-> cfg, arr |-> arrlog])>>)

TimeMonotone == [][now' >= now]_vars
EarliestRelease == [][now' > now => ~CouldAct]_vars
NeverEarly == [][Len(deplog') > Len(deplog) =>
                   (IF HasPeak THEN AccP(now) ELSE AccC(now)) >= hd[1].sz /\ pl' >= 0 /\ cl' >= 0]_vars
\* a yellow or red packet never adds committed tokens
CommitNeverRaised == [][now' = now => TokC(now)' <= TokC(now)]_vars
Capped == TokC(now) <= cfg.CBS /\ (HasPeak => TokP(now) <= cfg.PBS)
=============================================================================
