------------------------------ MODULE WireMC ------------------------------
(* Closed system for exhaustive checking of Wire: an environment that hands in up to MaxPk packets at   *)
(* arbitrary instants (bursts, arrivals at a delivery instant), supplies the loss and delay draws from   *)
(* small sets (delays on a lattice including 0, so decreasing sequences occur) and lets time pass.       *)
(* Every complete input scenario (arrival instants, delay sequence, loss-draw sequence) is emitted.      *)
EXTENDS Wire, Json
CONSTANTS MaxPk, MaxT, Delays, Tier,
          Early      \* TRUE: draws may also be taken before the packet is head of the line (full freedom of Wire)
VARIABLES arrlog,    \* history: arrival instants
          dseq,      \* history: delay draws in the order they were taken
          useq       \* history: loss draws <<un, ud>> in the order they were taken
vars == <<wvars, arrlog, dseq, useq>>

Rate(pn, pd, none) == [pn |-> pn, pd |-> pd, none |-> none]
Cfgs == IF Tier = "lossless" THEN {Rate(0, 1, 1)}
        ELSE IF Tier = "lossy" THEN {Rate(1, 2, 0), Rate(1, 1, 0), Rate(0, 1, 0)}
        ELSE {Rate(1, 2, 0)}
Draws == {<<0, 1>>, <<1, 2>>, <<1, 1>>}      \* below, at (for 1/2), above the threshold

Init == /\ \E c \in Cfgs : InitWith(c)
        /\ arrlog = <<>> /\ dseq = <<>> /\ useq = <<>>

HeadOnly(S) == Early \/ (S # {} /\ MinOf(S) = 1)

EnvArrive == /\ nrecv < MaxPk /\ now <= MaxT
             /\ Arrive(nrecv + 1)
             /\ arrlog' = Append(arrlog, now) /\ UNCHANGED <<dseq, useq>>
EnvLoss == /\ (Lossy \/ cfg.none = 0)        \* without any rate the environment never offers a loss draw
           /\ HeadOnly(Undecided)
           /\ \E u \in Draws, lose \in BOOLEAN :
                /\ LossDraw(u[1], u[2], lose)
                /\ useq' = Append(useq, u)
           /\ UNCHANGED <<arrlog, dseq>>
EnvDelay == /\ HeadOnly(Undrawn)
            /\ \E d \in Delays : DelayDraw(d) /\ dseq' = Append(dseq, d)
            /\ UNCHANGED <<arrlog, useq>>
DoDeliver == Deliver /\ UNCHANGED <<arrlog, dseq, useq>>
EnvTick == /\ (now < MaxT \/ fl # <<>>) /\ TickTo(now + 1) /\ UNCHANGED <<arrlog, dseq, useq>>
System == EnvLoss \/ EnvDelay \/ DoDeliver \/ EnvTick
Next == EnvArrive \/ EnvLoss \/ EnvDelay \/ DoDeliver \/ EnvTick
Spec == Init /\ [][Next]_vars
FairSpec == Spec /\ WF_vars(System)

Quiescent == fl = <<>>
\* (a quiescent state before MaxT is followed by one at MaxT with the same inputs, so emitting there suffices)
Emit == (Quiescent /\ nrecv >= 1 /\ now >= MaxT) =>
          PrintT(<<"EMIT", ToJson([cfg |-> cfg, arr |-> arrlog, dl |-> dseq, us |-> useq])>>)

(* action properties *)
TimeMonotone == [][now' >= now]_vars
\* never held longer: the clock does not advance while the head of the line needs a draw or is due
NoNeedlessDelay == [][now' > now => ~Urgent]_vars
\* a discarded packet delays nobody: discarding changes neither the clock nor the delivery history nor
\* the entry instant / delay of any packet still in flight, and the latest delivery instant stays
LostDelaysNobody ==
  [][Len(lost') > Len(lost) =>
       /\ now' = now /\ lastdel' = lastdel /\ dlog' = dlog
       /\ \A i \in 1..Len(fl') : \E j \in 1..Len(fl) : fl'[i] = fl[j]]_vars
\* a loss draw strictly below the rate discards, strictly above keeps
ThresholdRule ==
  [][nu' = nu + 1 =>
       LET u == useq'[Len(useq')] IN
         /\ (u[1] * cfg.pd < cfg.pn * u[2]) => Len(lost') = Len(lost) + 1
         /\ (u[1] * cfg.pd > cfg.pn * u[2]) => lost' = lost]_vars
\* once arrivals stop everything in flight is eventually delivered or discarded
Drains == []<>Quiescent
=============================================================================
