----------------------------- MODULE RoutingMC -----------------------------
(* Closed system for exhaustive checking of Routing: the environment picks an element configuration   *)
(* (every table / end map / default / hub population / splitter wiring within the bounds), hands in   *)
(* packets, lets downstream devices rewrite header fields of what they received, and (tier "boom")    *)
(* lets one downstream device raise.  Every completed put is emitted as an input scenario.            *)
(* Tiers "reconf" / "reconfhub": the user changes the configuration between puts (in-place table      *)
(* update, new table, appended output, end device (un)registered, default changed, hub endpoint       *)
(* added); every complete script of puts and reconfiguration steps is emitted.                        *)
EXTENDS Routing, Json
CONSTANTS MaxFlow,     \* flows 0..MaxFlow
          MaxOuts,     \* at most this many outputs / endpoints
          MaxPuts,     \* puts per behaviour
          MaxReconf,   \* reconfiguration steps per behaviour
          Tier         \* "demux" | "boom" | "hub" | "split" | "reconf" | "reconfhub"
VARIABLES mlog,        \* history: header rewrites of the current put [oi, k, w, early]
          cfg0,        \* history: the configuration the element was built with
          script       \* history (reconf tiers): the steps so far [op, f, p, tb]
vars == <<rvars, mlog, cfg0, script>>
Scripted == Tier \in {"reconf", "reconfhub"}

Flows == 0..MaxFlow
NF == 2                       \* model packets carry one scalar field (1) and one dictionary field (2)
Fields0 == <<5, 0>>

StepRec(op, f, p, tb) == [op |-> op, f |-> f, p |-> p, tb |-> tb]
\* a table as a sequence of <<flow, port>>: v[f] = 0 means "no entry for f"
TableOf(v) == SelectSeq([i \in 1..(MaxFlow + 1) |-> <<i - 1, v[i - 1]>>], LAMBDA e : e[2] # 0)
EndsOf(E) == SelectSeq([i \in 1..(MaxFlow + 1) |-> i - 1], LAMBDA x : x \in E)
Base(kind, n) == [kind |-> kind, nouts |-> n, dflt |-> 0, table |-> <<>>, ends |-> <<>>, pdev |-> <<>>,
                  conn |-> <<>>, dictk |-> <<2>>, boomc |-> "", boomi |-> 0]

FlowCfgs == {[Base("flow", n) EXCEPT !.dflt = d] : n \in 0..MaxOuts, d \in {0, 1}}
            \cup {Base("simple", n) : n \in 1..MaxOuts}
\* <<number of outputs, table vector>> pairs: every table over the flows for every output count
NV(lo) == UNION {{<<n, v>> : v \in [Flows -> 0..n]} : n \in lo..MaxOuts}
FibCfgs(kd, lo) ==
  {[Base(kd, nv[1]) EXCEPT !.dflt = d, !.table = TableOf(nv[2]), !.ends = EndsOf(E)] :
      d \in {0, 1}, E \in SUBSET Flows, nv \in NV(lo)}
OutsOf(c) == {<<"o", i>> : i \in 1..c.nouts} \cup Default(c) \cup {<<"e", f>> : f \in Range(c.ends)}
\* (operators with a parameter are evaluated on demand: TLC pre-evaluates every parameterless constant definition)
PossibleOuts == {<<"o", i>> : i \in 1..MaxOuts} \cup {<<"d", 0>>} \cup {<<"e", f>> : f \in Flows}
BoomCfgs(z) == {x \in {[c EXCEPT !.boomc = o[1], !.boomi = o[2]] : c \in FlowCfgs \cup FibCfgs("fib", 0), o \in PossibleOuts} :
                   <<x.boomc, x.boomi>> \in OutsOf(x)}
HubCfgs(z) == UNION {{[Base("hub", n) EXCEPT !.pdev = p] : p \in [1..n -> {0, 1}]} : n \in 0..MaxOuts}
SplitCfgs(z) == {[Base("split", 2) EXCEPT !.conn = p] : p \in [1..2 -> {0, 1}]}
                \cup UNION {{[Base("nsplit", n) EXCEPT !.conn = p] : p \in [1..n -> {0, 1}]} : n \in 2..MaxOuts}

\* (no big unions here: TLC's \cup / UNION on explicit sets is quadratic)
\* tables whose entries may name a port that does not exist (yet)
AnyTable == {TableOf(v) : v \in [Flows -> 0..MaxOuts]}
ReconfCfgs(kd, lo) ==
  {[Base(kd, n) EXCEPT !.dflt = d, !.table = t, !.ends = EndsOf(E)] :
      n \in lo..MaxOuts, d \in {0, 1}, E \in SUBSET Flows, t \in AnyTable}

Init == /\ mlog = <<>> /\ script = <<>>
        /\ \/ Tier = "demux" /\ \E c \in FlowCfgs : InitWith(c)
           \/ Tier = "demux" /\ \E c \in FibCfgs("fib", 0) : InitWith(c)
           \/ Tier = "demux" /\ \E c \in FibCfgs("fair", 1) : InitWith(c)
           \/ Tier = "boom" /\ \E c \in BoomCfgs(0) : InitWith(c)
           \/ Tier = "hub" /\ \E c \in HubCfgs(0) : InitWith(c)
           \/ Tier = "split" /\ \E c \in SplitCfgs(0) : InitWith(c)
           \/ Tier = "reconf" /\ \E c \in FlowCfgs : InitWith(c)
           \/ Tier = "reconf" /\ \E c \in ReconfCfgs("fib", 0) : InitWith(c)
           \/ Tier = "reconf" /\ \E c \in ReconfCfgs("fair", 1) : InitWith(c)
           \/ Tier = "reconfhub" /\ \E c \in HubCfgs(0) : InitWith(c)
        /\ cfg0 = cfg

EnvPut ==
  /\ cur.n < MaxPuts
  /\ \E f \in (IF cfg.kind \in DemuxKinds THEN Flows ELSE {0}),
        s \in (IF cfg.kind = "hub" THEN 0..cfg.nouts ELSE {0}) :
       /\ PutIn(f, s, Fields0)
       /\ script' = IF Scripted THEN Append(script, StepRec("put", f, s, <<>>)) ELSE script
  /\ mlog' = <<>> /\ UNCHANGED cfg0
Hist == <<mlog, cfg0, script>>
DoDeliver == (\E out \in owed, o \in 1..(Len(heap) + 1) : Deliver(out, o)) /\ UNCHANGED Hist
DoPortForward == (\E p \in via : PortForward(p[1], p[2])) /\ UNCHANGED Hist
DoReturn == Return /\ UNCHANGED Hist
DoRaise == Raise /\ UNCHANGED Hist
\* the user changes the configuration between two puts
NRec == Cardinality({i \in DOMAIN script : script[i].op # "put"})
Did(op, f, p, tb) == script' = Append(script, StepRec(op, f, p, tb)) /\ mlog' = <<>> /\ UNCHANGED cfg0
EnvSetEntry == Scripted /\ NRec < MaxReconf /\ \E f \in Flows, p \in 1..MaxOuts : SetEntry(f, p) /\ Did("set", f, p, <<>>)
EnvDelEntry == Scripted /\ NRec < MaxReconf /\ \E f \in Flows : DelEntry(f) /\ Did("del", f, 0, <<>>)
EnvReplaceTable == Scripted /\ NRec < MaxReconf /\ \E t \in AnyTable : ReplaceTable(t) /\ Did("table", 0, 0, t)
EnvAppendOut == Scripted /\ NRec < MaxReconf /\ cfg.nouts < MaxOuts /\ AppendOut /\ Did("out", 0, 0, <<>>)
EnvSetEnd == Scripted /\ NRec < MaxReconf /\ \E f \in Flows : SetEnd(f) /\ Did("end", f, 0, <<>>)
EnvDelEnd == Scripted /\ NRec < MaxReconf /\ \E f \in Flows : DelEnd(f) /\ Did("unend", f, 0, <<>>)
EnvSetDefault == Scripted /\ NRec < MaxReconf /\ \E d \in {0, 1} \ {cfg.dflt} : SetDefault(d) /\ Did("dflt", 0, d, <<>>)
EnvAddEndpoint == Scripted /\ NRec < MaxReconf /\ cfg.nouts < MaxOuts /\ \E pd \in {0, 1} : AddEndpoint(pd) /\ Did("join", 0, pd, <<>>)
\* a device that received object o rewrites one of its header fields (each field of each object once)
Holder(o) == CHOOSE i \in DOMAIN dl : dl[i].obj = o
EnvModify ==
  /\ cfg.kind \in SplitKinds
  /\ \E o \in {d.obj : d \in Range(dl)}, k \in 1..NF :
       /\ ~\E i \in DOMAIN mlog : mlog[i].oi = dl[Holder(o)].oi /\ mlog[i].k = k
       /\ LET w == IF k = 2 THEN 2 ^ dl[Holder(o)].oi ELSE 10 + dl[Holder(o)].oi IN
            /\ Modify(o, k, w)
            /\ mlog' = Append(mlog, [oi |-> dl[Holder(o)].oi, k |-> k, w |-> w,
                                     early |-> IF phase = "busy" THEN 1 ELSE 0])
            /\ UNCHANGED <<cfg0, script>>
Next == \/ EnvPut \/ DoDeliver \/ DoPortForward \/ DoReturn \/ DoRaise \/ EnvModify
        \/ EnvSetEntry \/ EnvDelEntry \/ EnvReplaceTable \/ EnvAppendOut \/ EnvSetEnd \/ EnvDelEnd
        \/ EnvSetDefault \/ EnvAddEndpoint
Spec == Init /\ [][Next]_vars

\* one input scenario = configuration + packet handed in (+, for splitters, a maximal set of header rewrites
\* with their position relative to the return of put)
\* (reconf tiers: a script is complete with its last put)
Complete == IF Scripted THEN phase = "busy" /\ dl = <<>> /\ cur.n = MaxPuts
            ELSE IF cfg.kind \in SplitKinds
            THEN phase \in {"done", "failed"} /\ Len(mlog) = NF * Len(heap)
            ELSE phase = "busy" /\ dl = <<>>
Emit == Complete => PrintT(<<"EMIT", ToJson([cfg |-> cfg0, f |-> cur.f, s |-> cur.s, mods |-> mlog, script |-> script])>>)

(* "header fields can be changed independently": every object's fields are those of the packet as   *)
(* handed in plus exactly the rewrites made to THAT object, whatever was done to the others          *)
ObjOfOut(oi) == dl[CHOOSE i \in DOMAIN dl : dl[i].oi = oi].obj
OwnWrites(o, k) == {i \in DOMAIN mlog : ObjOfOut(mlog[i].oi) = o /\ mlog[i].k = k}
Independent == IsSplit =>
  \A o \in {d.obj : d \in Range(dl)}, k \in 1..NF :
     heap[o][k] = IF OwnWrites(o, k) = {} THEN orig[k]
                  ELSE LET i == CHOOSE j \in OwnWrites(o, k) : TRUE IN
                       IF k = 2 THEN orig[k] + mlog[i].w ELSE mlog[i].w
\* one rewrite touches one object
OneAtATime == [][cur'.n = cur.n => Cardinality({o \in 1..Len(heap) : heap'[o] # heap[o]}) <= 1]_vars
\* a put that was not disturbed by a failing downstream device completes
FairSpec == Spec /\ WF_vars(DoDeliver \/ DoPortForward \/ DoReturn \/ DoRaise)
Completes == (phase = "busy") ~> (phase \in {"done", "failed"})
AllWellFormed == WellFormed(cfg)
=============================================================================
