------------------------------- MODULE Port -------------------------------
(***************************************************************************)
(* Output port with a FIFO buffer, a line rate and a tail-drop (or RED)    *)
(* admission rule -- property C09.                                         *)
(*                                                                         *)
(* Time is an integer number of ticks; the port needs cfg.K ticks per byte *)
(* (K = 0 models rate 0: transmission takes no time).  The pick-up of the  *)
(* next packet is two silent urgent steps, Fetch (the packet leaves the    *)
(* waiting room) and Begin (transmission starts, the finish time is fixed) *)
(* because the implementation exposes the state in between to arrivals and *)
(* monitor samples of the same instant (DESIGN section 8, projection rule).*)
(* Urgency: the clock may not advance while a silent step or a departure   *)
(* is enabled -- this is what makes "never later than" checkable.          *)
(***************************************************************************)
EXTENDS Naturals, Integers, Sequences, FiniteSets, TLC

VARIABLES now,      \* current instant (ticks)
          q,        \* packets waiting to start transmission (FIFO): [id, sz, at]
          srv,      \* <<>> or <<packet>>: fetched / in transmission
          started,  \* transmission of srv[1] has begun
          fin,      \* finish instant of the transmission in progress
          bytes,    \* bytes held (waiting + fetched/in transmission)
          drops,    \* packets refused so far
          nrecv,    \* packets handed in so far
          avg,      \* RED: exponentially averaged queue size as <<num, den>> (den a power of 2)
          deplog,   \* history: departures [id, sz, at, t]
          cfg       \* frozen parameters, see Cfg
pvars == <<now, q, srv, started, fin, bytes, drops, nrecv, avg, deplog, cfg>>

(* cfg = [mode |-> 0 none / 1 bytes / 2 packets, qlimit, K, red |-> 0/1,   *)
(*        minth, maxth, pn, pd (max probability pn/pd), w (gain 2^-w)]     *)

Pow2(n) == 2 ^ n
RECURSIVE Norm(_, _)
Norm(n, d) == IF d > 1 /\ n % 2 = 0 /\ d % 2 = 0 THEN Norm(n \div 2, d \div 2) ELSE <<n, d>>
Max(a, b) == IF a > b THEN a ELSE b

InitWith(c) ==
  /\ now = 0 /\ q = <<>> /\ srv = <<>> /\ started = FALSE /\ fin = 0
  /\ bytes = 0 /\ drops = 0 /\ nrecv = 0 /\ avg = <<0, 1>> /\ deplog = <<>>
  /\ cfg = c

Waiting == Len(q)
Busy == IF srv # <<>> /\ started THEN 1 ELSE 0
Limbo == srv # <<>> /\ ~started

(* ---- tail drop ---- *)
Refuse(sz) == \/ cfg.mode = 1 /\ bytes + sz > cfg.qlimit
              \/ cfg.mode = 2 /\ Waiting >= cfg.qlimit - 1

Accept(id, sz) ==
  /\ q' = Append(q, [id |-> id, sz |-> sz, at |-> now])
  /\ bytes' = bytes + sz /\ drops' = drops
Reject == drops' = drops + 1 /\ UNCHANGED <<q, bytes>>

Arrive(id, sz) ==
  /\ cfg.red = 0
  /\ nrecv' = nrecv + 1
  /\ IF Refuse(sz) THEN Reject ELSE Accept(id, sz)
  /\ UNCHANGED <<now, srv, started, fin, avg, deplog, cfg>>

(* ---- RED ---- *)
CurSize == IF cfg.mode = 1 THEN bytes ELSE Waiting
NewAvg == LET n == avg[1]  d == avg[2]  g == Pow2(cfg.w)
          IN Norm(n * (g - 1) + CurSize * d, d * g)
\* region of an average a = <<n, d>>: 3 = at/above qlimit, 2 = at/above maxth, 1 = at/above minth, 0 below
Region(a) == IF a[1] >= cfg.qlimit * a[2] THEN 3
             ELSE IF a[1] >= cfg.maxth * a[2] THEN 2
             ELSE IF a[1] >= cfg.minth * a[2] THEN 1 ELSE 0
\* u = un/ud <= drop probability at average a
DropAt(a, un, ud) ==
  IF Region(a) = 2 THEN un * cfg.pd <= cfg.pn * ud
  ELSE un * a[2] * (cfg.maxth - cfg.minth) * cfg.pd <= (a[1] - cfg.minth * a[2]) * cfg.pn * ud
NeedsDraw(a) == Region(a) \in {1, 2}

\* un = -1 means "no draw was made"
ArriveRed(id, sz, un, ud) ==
  /\ cfg.red = 1
  /\ nrecv' = nrecv + 1
  /\ LET a == NewAvg IN
     /\ avg' = a
     /\ (un >= 0) <=> NeedsDraw(a)
     /\ IF Region(a) = 3 \/ (NeedsDraw(a) /\ DropAt(a, un, ud)) THEN Reject ELSE Accept(id, sz)
  /\ UNCHANGED <<now, srv, started, fin, deplog, cfg>>

(* ---- server ---- *)
Fetch == /\ srv = <<>> /\ q # <<>>
         /\ srv' = <<Head(q)>> /\ q' = Tail(q) /\ started' = FALSE
         /\ UNCHANGED <<now, fin, bytes, drops, nrecv, avg, deplog, cfg>>
Begin == /\ srv # <<>> /\ ~started
         /\ started' = TRUE /\ fin' = now + cfg.K * srv[1].sz
         /\ UNCHANGED <<now, q, srv, bytes, drops, nrecv, avg, deplog, cfg>>
Depart == /\ srv # <<>> /\ started /\ fin = now
          /\ bytes' = bytes - srv[1].sz /\ srv' = <<>> /\ started' = FALSE
          /\ deplog' = Append(deplog, [id |-> srv[1].id, sz |-> srv[1].sz, at |-> srv[1].at, t |-> now])
          /\ UNCHANGED <<now, q, fin, drops, nrecv, avg, cfg>>

Urgent == (srv = <<>> /\ q # <<>>) \/ (srv # <<>> /\ ~started) \/ (srv # <<>> /\ started /\ fin = now)
TickTo(t) == /\ t > now /\ ~Urgent /\ (srv # <<>> => t <= fin) /\ now' = t
             /\ UNCHANGED <<q, srv, started, fin, bytes, drops, nrecv, avg, deplog, cfg>>

(* ---- monitor sample: what a PortMonitor may report in this state ---- *)
\* In the limbo state (fetched, not begun) the packet may be reported as waiting, in service, or not yet.
SampleOK(incl, cnt, byt) ==
  LET lim == IF Limbo THEN 1 ELSE 0
      lsz == IF Limbo THEN srv[1].sz ELSE 0
      ssz == IF Busy = 1 THEN srv[1].sz ELSE 0
  IN IF incl = 1
     THEN /\ cnt \in {Waiting + Busy, Waiting + Busy + lim}
          /\ byt = bytes                      \* every byte held, whether waiting, fetched or in transmission
     ELSE /\ cnt \in {Waiting, Waiting + lim}
          /\ byt \in {bytes - ssz, bytes - ssz - lsz}

(* ---------------- properties (state invariants over the history) ---------------- *)
Held == (IF srv = <<>> THEN 0 ELSE srv[1].sz)
        + (LET RECURSIVE S(_) S(i) == IF i = 0 THEN 0 ELSE q[i].sz + S(i - 1) IN S(Len(q)))
ByteSizeIsHeld == bytes = Held
OccupancyBound == /\ cfg.red = 0 /\ cfg.mode = 1 => bytes <= cfg.qlimit
                  /\ cfg.red = 0 /\ cfg.mode = 2 => Waiting <= Max(cfg.qlimit - 1, 0)
CounterIdentity == nrecv = drops + Len(deplog) + Len(q) + Len(srv)
NeverDropsUnlimited == (cfg.red = 0 /\ cfg.mode = 0) => drops = 0
Fifo == \A i, j \in 1..Len(deplog) : i < j => deplog[i].id < deplog[j].id
DepartureLaw ==
  \A k \in 1..Len(deplog) :
    deplog[k].t = Max(deplog[k].at, IF k = 1 THEN 0 ELSE deplog[k - 1].t) + cfg.K * deplog[k].sz
=============================================================================
