SPECIFICATION Spec
CONSTANTS
  MaxPk = 3
  MaxT = 2
  Delays = {0, 1, 2}
  Tier = "lossy"
  Early = FALSE
CONSTRAINT Emit
INVARIANT NotBefore
INVARIANT InOrder
INVARIANT DeliveryLaw
INVARIANT NothingOverdue
INVARIANT ExactlyOnce
INVARIANT Accounted
INVARIANT LosslessWithoutRate
INVARIANT LostNeverDelivered
INVARIANT OneLossDrawPerPacket
INVARIANT OneDelayDrawPerDelivered
PROPERTY TimeMonotone
PROPERTY NoNeedlessDelay
PROPERTY LostDelaysNobody
PROPERTY ThresholdRule
CHECK_DEADLOCK FALSE
