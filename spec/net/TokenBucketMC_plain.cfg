SPECIFICATION Spec
CONSTANTS
  MaxPk = 3
  MaxT = 5
  Sizes = {1, 2, 3, 5}
  Gaps = {1, 4}
  Tier = "plain"
CONSTRAINT Emit
INVARIANT Conformance
INVARIANT ReleaseLaw
INVARIANT Fifo
INVARIANT Lossless
INVARIANT NonNegative
INVARIANT Capped
INVARIANT HeadLaw
INVARIANT DebitLaw
PROPERTY TimeMonotone
PROPERTY EarliestRelease
PROPERTY NeverEarly
CHECK_DEADLOCK FALSE
