SPECIFICATION Spec
CONSTANTS
  Classes = {0, 1, 10000}
  MaxPk = 4
INVARIANT OwnSinkOnly
INVARIANT AtMostOnce
INVARIANT OnlySentPackets
PROPERTY EveryPacketArrives
CHECK_DEADLOCK FALSE
