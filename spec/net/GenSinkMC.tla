----------------------------- MODULE GenSinkMC -----------------------------
(* Closed system: a generator with short draw sequences feeds a sink through a first-in-first-out pipe that may keep *)
(* every packet for any time.  The clauses are stated over the histories elog (emissions) and dlog (deliveries).     *)
EXTENDS GenSink, Json
CONSTANTS MaxLen, Gaps, MaxT, FinSet, D0s, MaxDelay
VARIABLES pipe,     \* packets on their way [id, sz, f, src, ct]
          elog,     \* history: emissions [id, sz, f, src, ct, t]
          dlog      \* history: deliveries [k, sz, ct, t]
vars == <<gvars, pipe, elog, dlog>>

SizeSeqs == {<<1, 2, 3>>, <<2, 2, 1>>}
Modes == {<<1, 1, 1, 1>>, <<1, 0, 1, 1>>, <<1, 1, 1, 0>>, <<1, 0, 1, 0>>, <<0, 1, 0, 1>>, <<0, 1, 1, 1>>}   \* recarr, abs, recwait, byflow
GapSeqs == UNION {[1..n -> Gaps] : n \in 1..MaxLen}
Cfgs == {[d0 |-> d, gaps |-> g, sizes |-> s, fin |-> fi, flow |-> 1, eid |-> 2, recarr |-> m[1], abs |-> m[2],
          recwait |-> m[3], byflow |-> m[4], nk |-> 2, role |-> "mc"] :
            d \in D0s, g \in GapSeqs, s \in SizeSeqs, fi \in {-1} \cup FinSet, m \in Modes}

Init == /\ \E c \in Cfgs : InitWith(c)
        /\ pipe = <<>> /\ elog = <<>> /\ dlog = <<>>

DoEmit ==
  /\ \E sz \in 1..3 :
       /\ GenEmit(gn + 1, sz, cfg.flow, cfg.eid, now)
       /\ pipe' = Append(pipe, [id |-> gn + 1, sz |-> sz, f |-> cfg.flow, src |-> cfg.eid, ct |-> now])
       /\ elog' = Append(elog, [id |-> gn + 1, sz |-> sz, f |-> cfg.flow, src |-> cfg.eid, ct |-> now, t |-> now])
  /\ UNCHANGED dlog
DoDeliver ==
  /\ pipe # <<>>
  /\ LET p == Head(pipe) IN
     /\ SinkDeliver(p.f, p.src, p.sz, p.ct)
     /\ dlog' = Append(dlog, [k |-> Key(p.f, p.src), sz |-> p.sz, ct |-> p.ct, t |-> now])
  /\ pipe' = Tail(pipe)
  /\ UNCHANGED elog
DoTick == /\ now < MaxT /\ (IF pipe = <<>> THEN TRUE ELSE now - Head(pipe).ct < MaxDelay) /\ TickTo(now + 1) /\ UNCHANGED <<pipe, elog, dlog>>
Next == DoEmit \/ DoDeliver \/ DoTick
Spec == Init /\ [][Next]_vars

Emit2 == (pipe = <<>> /\ GenDone /\ Len(elog) >= 1 /\ now = MaxT) =>
           PrintT(<<"EMIT", ToJson([cfg |-> cfg, dl |-> [i \in 1..Len(dlog) |-> dlog[i].t - dlog[i].ct]])>>)

(* ---------------- clauses ---------------- *)
EmissionLaw ==
  \A n \in 1..Len(elog) :
    /\ elog[n].id = n
    /\ elog[n].t = cfg.d0 + SumTo(cfg.gaps, n)
    /\ elog[n].ct = elog[n].t
    /\ elog[n].sz = cfg.sizes[n]
    /\ elog[n].f = cfg.flow /\ elog[n].src = cfg.eid
FinishRule ==
  /\ \A n \in 1..Len(elog) : NoFin \/ (IF n = 1 THEN cfg.d0 ELSE elog[n - 1].t) < cfg.fin
  \* a packet due before the finish time is never skipped: once the clock is past its instant it has been emitted
  /\ \A n \in 1..NGaps : (MustEmit(n) /\ now > T(n)) => Len(elog) >= n
Of(k) == SelectSeq(dlog, LAMBDA d : d.k = k)
RECURSIVE Bytes(_)
Bytes(s) == IF s = <<>> THEN 0 ELSE Head(s).sz + Bytes(Tail(s))
SinkCounts == \A k \in 1..cfg.nk : cnt[k] = Len(Of(k)) /\ byt[k] = Bytes(Of(k))
SinkArrivals ==
  \A k \in 1..cfg.nk :
    LET d == Of(k) IN
    IF cfg.recarr = 0 THEN arrs[k] = <<>>
    ELSE /\ Len(arrs[k]) = Len(d)
         /\ \A i \in 1..Len(d) :
              IF cfg.abs = 1 THEN arrs[k][i] = d[i].t
              ELSE IF i = 1 THEN arrs[k][i] \in {d[i].t, 0}
              ELSE arrs[k][i] = d[i].t - d[i - 1].t
SinkWaits ==
  \A k \in 1..cfg.nk :
    LET d == Of(k) IN
    IF cfg.recwait = 0 THEN wts[k] = <<>>
    ELSE /\ Len(wts[k]) = Len(d)
         /\ \A i \in 1..Len(d) : wts[k][i] = d[i].t - d[i].ct
\* what reaches the sink is what was emitted, in order
Delivered == \A i \in 1..Len(dlog) : dlog[i].sz = elog[i].sz /\ dlog[i].ct = elog[i].ct
=============================================================================
