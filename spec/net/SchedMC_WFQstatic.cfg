SPECIFICATION Spec
CONSTANTS
  MaxPk = 5
  MaxT = 0
  Sizes = {1, 2}
  Gaps = {1}
  Tier = "WFQ"
  Static = TRUE
INVARIANT WfqStaticFairness
INVARIANT StampOrder
INVARIANT CountersExact
CHECK_DEADLOCK FALSE
