SPECIFICATION Spec
CONSTANTS
  MaxFlow = 1
  MaxOuts = 2
  MaxPuts = 2
  MaxReconf = 1
  Tier = "reconf"
CONSTRAINT Emit
INVARIANT DemuxAtMostOne
INVARIANT DemuxSameObject
INVARIANT FlowRule
INVARIANT EndPrecedence
INVARIANT TableRule
INVARIANT UnknownToDefault
INVARIANT NoneWithoutDefault
INVARIANT EmptyTableValid
INVARIANT AllWellFormed
INVARIANT NeverRaisesUnprovoked
CHECK_DEADLOCK FALSE
