SPECIFICATION FairSpec
CONSTANTS
  MaxFlow = 2
  MaxOuts = 2
  MaxPuts = 1
  MaxReconf = 0
  Tier = "boom"
CONSTRAINT Emit
INVARIANT DemuxAtMostOne
INVARIANT DemuxSameObject
INVARIANT FlowRule
INVARIANT EndPrecedence
INVARIANT TableRule
INVARIANT UnknownToDefault
INVARIANT NoneWithoutDefault
PROPERTY Completes
INVARIANT AllWellFormed
INVARIANT NeverRaisesUnprovoked
CHECK_DEADLOCK FALSE
