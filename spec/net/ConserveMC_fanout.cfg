SPECIFICATION Spec
CONSTANTS
  Topo = "fanout"
  MaxPk = 3
  Flows = {1, 2, 3}
CONSTRAINT Emit1
INVARIANT Accounted
INVARIANT DropsOnlyByRule
INVARIANT PerFlowFifo
INVARIANT OutWasIn
INVARIANT NoInvention
INVARIANT NoDuplication
PROPERTY Drains
PROPERTY EndsOnlyWhenDrained
CHECK_DEADLOCK FALSE
