---------------------------- MODULE FatTreeCheck ----------------------------
(* TLC as the judge of what the real FatTree(k) produced.  "fattree.json" is a list of cases exported by *)
(* harness/drivers/fattree.py from FatTree(k).topo, generate_flows() and generate_fib():                 *)
(*   [k, n, layer, typ, pod, edges, hosts, flows, f2p, f2n, p2n, tcp]  (nodes renumbered 1..n).          *)
(* One initial state per case judges the structure and the flows (fl = 0); one walk per flow and         *)
(* direction is explored hop by hop as a transition system.                                              *)
EXTENDS FatTree, Json
Cases == JsonDeserialize("fattree.json")
C == Cases[cid]
Fw == C.flows[fl]
Dirs(c) == IF c.tcp = 1 THEN {"fwd", "rev"} ELSE {"fwd"}

Init == /\ cid \in 1..Len(Cases)
        /\ \/ fl = 0 /\ dir = "fwd" /\ at = 0
           \/ /\ fl \in 1..Len(Cases[cid].flows)
              /\ dir \in Dirs(Cases[cid])
              /\ at = WalkPath(Cases[cid].flows[fl], dir)[1]
        /\ steps = 0
Step == WalkStep(C, Fw)
Next == Step
Spec == Init /\ [][Next]_wvars /\ WF_wvars(Step)

Judge == fl = 0
\* ---- one INVARIANT per clause ----
Sane == Judge => GraphSane(C)
Sizes == Judge => LayerSizes(C)
Degrees == Judge => SwitchDegree(C)
Layers == Judge => Layered(C)
Hosts == Judge => HostsPerEdge(C)
PodsOK == Judge => PodStructure(C)
CoresOK == Judge => CoreStructure(C)
ShortestPaths == Judge => FlowsOK(C, C.flows)
PortNumbering == Judge => PortsOK(C, C)
OnPath == ~Judge => OnPathAt(Fw)
NotStuck == ~Judge => NotStuckAt(C, Fw)
NextHopAgrees == ~Judge => NextHopAgreesAt(C, Fw)
\* without reverse entries the acknowledgement class is routed nowhere
NoAckEntries == (Judge /\ C.tcp = 0) => \A e \in Range(C.f2p) : e[2] < AckOffset
ReachesDst == <>(Judge \/ ArrivedAt(Fw))

\* ---- reporting mode: name every failing (case, clause) instead of stopping at the first ----
Say(name, ok) == ok \/ PrintT(<<"BAD", cid, fl, name>>)
Report == /\ Say("Sane", Sane) /\ Say("Sizes", Sizes) /\ Say("Degrees", Degrees) /\ Say("Layers", Layers)
          /\ Say("Hosts", Hosts) /\ Say("PodsOK", PodsOK) /\ Say("CoresOK", CoresOK)
          /\ Say("ShortestPaths", ShortestPaths) /\ Say("PortNumbering", PortNumbering)
          /\ Say("OnPath", OnPath) /\ Say("NotStuck", NotStuck) /\ Say("NextHopAgrees", NextHopAgrees)
          /\ Say("NoAckEntries", NoAckEntries)
          /\ Say("ReachesDst", Judge \/ ArrivedAt(Fw) \/ ENABLED Step)
=============================================================================
