------------------------------- MODULE Wire -------------------------------
(***************************************************************************)
(* A wire (one direction of a cable) -- property C10.                      *)
(*                                                                         *)
(* A packet entering at instant a for which the delay distribution yields  *)
(* d is delivered at exactly max(a + d, delivery instant of the previous   *)
(* delivered packet): never before a + d, never re-ordered, never later.   *)
(* With a loss rate p = pn/pd each packet is discarded iff its own uniform *)
(* draw u is below p (at u = p the property is silent: either outcome);    *)
(* a discarded packet is never delivered and delays nobody.                *)
(*                                                                         *)
(* The two per-packet draws are inputs.  They are taken from the two draw  *)
(* sequences in packet order (the k-th loss draw belongs to the k-th       *)
(* packet, the next delay draw to the first packet in flight that has none *)
(* yet).  WHEN a draw is taken is left open as far as the property leaves  *)
(* it open: any time from the packet's entry on, in either order, but not  *)
(* later than the instant the packet becomes head of the line -- a packet  *)
(* may draw delay 0, so waiting longer could already be "held longer".     *)
(* A packet that is discarded may or may not have consumed a delay draw.   *)
(* With p = 0 (or no loss rate) a loss draw is optional and never loses.   *)
(*                                                                         *)
(* "Packet" means one entry into the wire: the same object handed in twice  *)
(* (a retransmission) is two entries, each with its own instant and draws. *)
(*                                                                         *)
(* Time is an integer number of lattice ticks.  Urgency: the clock may not *)
(* advance while the head-of-line packet still needs a draw or is due.     *)
(***************************************************************************)
EXTENDS Naturals, Integers, Sequences, FiniteSets, TLC

VARIABLES now,      \* current instant (ticks)
          fl,       \* packets in flight, entry order: [id, at, ok, d]
                    \*   ok = 1: survived its loss draw, 0: no loss draw yet;  d = -1: no delay draw yet
          lastdel,  \* instant of the latest delivery (0 before the first)
          nrecv,    \* packets handed in so far
          nu,       \* loss draws consumed so far
          nw,       \* delay draws consumed so far
          dlog,     \* history: deliveries [id, at, d, t]
          lost,     \* history: discarded packets [id, at, hadd] (hadd = 1: had consumed a delay draw)
          cfg       \* frozen parameters [pn, pd, none]: loss rate pn/pd; none = 1: constructed without a loss rate
wvars == <<now, fl, lastdel, nrecv, nu, nw, dlog, lost, cfg>>

Max(a, b) == IF a > b THEN a ELSE b
MinOf(S) == CHOOSE x \in S : \A y \in S : x <= y
RemoveAt(s, i) == SubSeq(s, 1, i - 1) \o SubSeq(s, i + 1, Len(s))

InitWith(c) ==
  /\ now = 0 /\ fl = <<>> /\ lastdel = 0 /\ nrecv = 0 /\ nu = 0 /\ nw = 0
  /\ dlog = <<>> /\ lost = <<>> /\ cfg = c

Lossy == cfg.pn > 0
Undecided == {i \in 1..Len(fl) : fl[i].ok = 0}
Undrawn == {i \in 1..Len(fl) : fl[i].d = -1}

(* ---- a packet enters ---- *)
Arrive(id) ==
  /\ fl' = Append(fl, [id |-> id, at |-> now, ok |-> 0, d |-> -1])
  /\ nrecv' = nrecv + 1
  /\ UNCHANGED <<now, lastdel, nu, nw, dlog, lost, cfg>>

(* ---- the loss draw u = un/ud of the first packet that has none yet ---- *)
\* `lose` is the outcome; it is determined by the draw except at u = p.
LossDraw(un, ud, lose) ==
  /\ Undecided # {}
  /\ ud > 0 /\ un >= 0 /\ un <= ud
  /\ (un * cfg.pd < cfg.pn * ud) => lose
  /\ (un * cfg.pd > cfg.pn * ud) => ~lose
  /\ ~Lossy => ~lose
  /\ LET i == MinOf(Undecided) IN
       IF lose
       THEN /\ fl' = RemoveAt(fl, i)
            /\ lost' = Append(lost, [id |-> fl[i].id, at |-> fl[i].at,
                                     hadd |-> IF fl[i].d = -1 THEN 0 ELSE 1])
       ELSE /\ fl' = [fl EXCEPT ![i].ok = 1]
            /\ lost' = lost
  /\ nu' = nu + 1
  /\ UNCHANGED <<now, lastdel, nrecv, nw, dlog, cfg>>

(* ---- the delay draw of the first packet in flight that has none yet ---- *)
DelayDraw(d) ==
  /\ Undrawn # {} /\ d >= 0
  /\ LET i == MinOf(Undrawn) IN fl' = [fl EXCEPT ![i].d = d]
  /\ nw' = nw + 1
  /\ UNCHANGED <<now, lastdel, nrecv, nu, dlog, lost, cfg>>

(* ---- delivery of the head of the line, exactly when it is due ---- *)
NeedsDraw(p) == (Lossy /\ p.ok = 0) \/ p.d = -1
Due(p) == Max(p.at + p.d, lastdel)
Deliver ==
  /\ fl # <<>> /\ ~NeedsDraw(Head(fl)) /\ now = Due(Head(fl))
  /\ dlog' = Append(dlog, [id |-> Head(fl).id, at |-> Head(fl).at, d |-> Head(fl).d, t |-> now])
  /\ lastdel' = now /\ fl' = Tail(fl)
  /\ UNCHANGED <<now, nrecv, nu, nw, lost, cfg>>

(* ---- time ---- *)
Urgent == fl # <<>> /\ (NeedsDraw(Head(fl)) \/ now >= Due(Head(fl)))
TickTo(t) ==
  /\ t > now /\ ~Urgent
  /\ (fl # <<>> => t <= Due(Head(fl)))
  /\ now' = t
  /\ UNCHANGED <<fl, lastdel, nrecv, nu, nw, dlog, lost, cfg>>

(* ---------------- the clauses of C10 as invariants over the history ---------------- *)
Ids(s) == {s[k].id : k \in 1..Len(s)}
Prev(k) == IF k = 1 THEN 0 ELSE dlog[k - 1].t
NotBefore == \A k \in 1..Len(dlog) : dlog[k].t >= dlog[k].at + dlog[k].d
InOrder == \A i, j \in 1..Len(dlog) : i < j => dlog[i].id < dlog[j].id /\ dlog[i].t <= dlog[j].t
\* "never held longer": the delivery instant is exactly the law -- computed over DELIVERED packets only,
\* so a discarded packet has no term in anybody's delivery instant (LostDelaysNobody)
DeliveryLaw == \A k \in 1..Len(dlog) : dlog[k].t = Max(dlog[k].at + dlog[k].d, Prev(k))
\* nothing in flight is overdue: a packet whose predecessors are all resolved and whose draws are known
\* has not been kept past its instant
NothingOverdue == fl # <<>> /\ ~NeedsDraw(Head(fl)) => now <= Due(Head(fl))
\* a discarded packet is resolved the moment it is decided and never later than a delivered one would be
LostNeverDelivered == Ids(lost) \cap Ids(dlog) = {} /\ Ids(lost) \cap Ids(fl) = {}
ExactlyOnce == /\ \A i, j \in 1..Len(dlog) : dlog[i].id = dlog[j].id => i = j
               /\ Ids(dlog) \cap Ids(fl) = {}
Accounted == nrecv = Len(dlog) + Len(lost) + Len(fl)
LosslessWithoutRate == ~Lossy => lost = <<>>
\* draws: exactly one loss draw per resolved packet when a rate is set; one delay draw per delivered packet
Decided == Cardinality({i \in 1..Len(fl) : fl[i].ok = 1})
Drawn == Cardinality({i \in 1..Len(fl) : fl[i].d # -1})
LostWithDelay == Cardinality({k \in 1..Len(lost) : lost[k].hadd = 1})
OneLossDrawPerPacket == /\ Lossy => nu = Len(dlog) + Len(lost) + Decided
                        /\ nu <= nrecv
OneDelayDrawPerDelivered == nw = Len(dlog) + Drawn + LostWithDelay
=============================================================================
