--------------------------- MODULE TwoRateTBTrace ---------------------------
(* Batch validation of traces recorded from the real TwoRateTokenBucket against TwoRateTB.tla.     *)
(* Every logged event must be an enabled step of the specification: departure instants, order and   *)
(* colours are bound; the logged bucket attributes must denote the specification's bucket contents  *)
(* (the committed content after a yellow / red packet is whatever the implementation reports, as    *)
(* long as it was not raised).                                                                       *)
EXTENDS TwoRateTB, Json
VARIABLES tid, l
Traces == JsonDeserialize("traces.json")
vars == <<wvars, tid, l>>
Tr == Traces[tid].ev
Ev == Tr[l]

Init == /\ tid \in 1..Len(Traces) /\ l = 1 /\ TLCSet(tid, 1)
        /\ InitWith(Traces[tid].cfg)
More == l <= Len(Tr)
Here == More /\ Ev.t = now
Consume == l' = l + 1 /\ UNCHANGED tid
Keep == UNCHANGED <<tid, l>>
Bound == /\ Ev.upd <= now
         /\ Min(cfg.CBS, Ev.cl + cfg.CIR * (now - Ev.upd)) = Min(cfg.CBS, cl' + cfg.CIR * (now - upd'))
         /\ HasPeak => Min(cfg.PBS, Ev.pl + cfg.PIR * (now - Ev.upd)) = Min(cfg.PBS, pl' + cfg.PIR * (now - upd'))

ArriveEv == /\ Here /\ Ev.e = "A"
            /\ Ev.id = nrecv + 1
            /\ Arrive(Ev.id, Ev.sz) /\ Bound /\ Consume
\* the tap sits inside the downstream put(); the colour is read there
DepartEv == /\ Here /\ Ev.e = "D"
            /\ hd # <<>> /\ hd[1].id = Ev.id /\ hd[1].sz = Ev.sz /\ hd[1].col = Ev.col
            /\ Depart /\ Bound /\ Consume
QuietEv == /\ Here /\ Ev.e = "Q"
           /\ q = <<>> /\ hd = <<>> /\ Len(deplog) = nrecv
           /\ UNCHANGED wvars /\ Bound /\ Consume
SilentStep == More /\ Take /\ Keep
TickEv == More /\ TickTo(Ev.t) /\ Keep
Next == ArriveEv \/ DepartEv \/ QuietEv \/ SilentStep \/ TickEv
Spec == Init /\ [][Next]_vars

Mark == TLCSet(tid, IF l > TLCGet(tid) THEN l ELSE TLCGet(tid))
Post == /\ \A i \in 1..Len(Traces) :
             TLCGet(i) = Len(Traces[i].ev) + 1 \/ PrintT(<<"STUCK", i, TLCGet(i)>>)
        /\ PrintT(<<"DONE", Len(Traces)>>)
=============================================================================
