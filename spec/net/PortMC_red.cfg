SPECIFICATION Spec
CONSTANTS
  MaxPk = 4
  MaxT = 3
  Sizes = {1, 2}
  Tier = "red"
CONSTRAINT Emit
INVARIANT ByteSizeIsHeld
INVARIANT CounterIdentity
INVARIANT Fifo
INVARIANT DepartureLaw
PROPERTY RedNoDropBelowMin
PROPERTY RedAlwaysDropAtLimit
PROPERTY NoNeedlessDelay
CHECK_DEADLOCK FALSE
