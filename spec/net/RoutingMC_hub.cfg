SPECIFICATION Spec
CONSTANTS
  MaxFlow = 0
  MaxOuts = 4
  MaxPuts = 1
  Tier = "hub"
CONSTRAINT Emit
INVARIANT HubAllButSender
INVARIANT HubThroughPort
INVARIANT HubSamePacket
INVARIANT AllWellFormed
INVARIANT NeverRaisesUnprovoked
CHECK_DEADLOCK FALSE
