------------------------------ MODULE CableMC ------------------------------
(* A Cable is two independent wires, one per direction (C10, last sentence): two instances of Wire that  *)
(* share the clock and nothing else.  Closed system: an environment feeds both directions; the clock may *)
(* advance only when neither direction is urgent.  Checked: each direction obeys the wire law computed    *)
(* from its own inputs alone, and no step of one direction touches the other direction's state.           *)
EXTENDS Naturals, Integers, Sequences, FiniteSets, TLC
CONSTANTS MaxPk, MaxT, Delays
VARIABLES now,
          fl1, lastdel1, nrecv1, nu1, nw1, dlog1, lost1, cfg1,
          fl2, lastdel2, nrecv2, nu2, nw2, dlog2, lost2, cfg2
v1 == <<fl1, lastdel1, nrecv1, nu1, nw1, dlog1, lost1, cfg1>>
v2 == <<fl2, lastdel2, nrecv2, nu2, nw2, dlog2, lost2, cfg2>>
vars == <<now, v1, v2>>

W1 == INSTANCE Wire WITH fl <- fl1, lastdel <- lastdel1, nrecv <- nrecv1, nu <- nu1, nw <- nw1,
                         dlog <- dlog1, lost <- lost1, cfg <- cfg1
W2 == INSTANCE Wire WITH fl <- fl2, lastdel <- lastdel2, nrecv <- nrecv2, nu <- nu2, nw <- nw2,
                         dlog <- dlog2, lost <- lost2, cfg <- cfg2

Rates == {[pn |-> 0, pd |-> 1, none |-> 1], [pn |-> 1, pd |-> 2, none |-> 0]}
Draws == {<<0, 1>>, <<1, 1>>}

\* one loss rate for the whole cable
Init == \E c \in Rates : W1!InitWith(c) /\ W2!InitWith(c)

Env1 == \/ nrecv1 < MaxPk /\ now <= MaxT /\ W1!Arrive(nrecv1 + 1)
        \/ W1!Lossy /\ \E u \in Draws, lose \in BOOLEAN : W1!LossDraw(u[1], u[2], lose)
        \/ \E d \in Delays : W1!DelayDraw(d)
        \/ W1!Deliver
Env2 == \/ nrecv2 < MaxPk /\ now <= MaxT /\ W2!Arrive(nrecv2 + 1)
        \/ W2!Lossy /\ \E u \in Draws, lose \in BOOLEAN : W2!LossDraw(u[1], u[2], lose)
        \/ \E d \in Delays : W2!DelayDraw(d)
        \/ W2!Deliver
Step1 == Env1 /\ UNCHANGED v2
Step2 == Env2 /\ UNCHANGED v1
Tick == (now < MaxT \/ fl1 # <<>> \/ fl2 # <<>>) /\ W1!TickTo(now + 1) /\ W2!TickTo(now + 1)
Next == Step1 \/ Step2 \/ Tick
Spec == Init /\ [][Next]_vars

Law1 == W1!DeliveryLaw /\ W1!InOrder /\ W1!NotBefore /\ W1!Accounted /\ W1!LostNeverDelivered /\ W1!NothingOverdue
Law2 == W2!DeliveryLaw /\ W2!InOrder /\ W2!NotBefore /\ W2!Accounted /\ W2!LostNeverDelivered /\ W2!NothingOverdue
SameRate == cfg1 = cfg2
\* traffic of one direction never changes the other direction
Separate == [][now' = now => (v1' = v1 \/ v2' = v2)]_vars
\* neither direction is held because of the other: the clock stops only for a direction that is itself urgent,
\* and never passes an urgent direction
NoNeedlessDelay == [][now' > now => ~W1!Urgent /\ ~W2!Urgent]_vars
=============================================================================
