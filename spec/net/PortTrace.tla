----------------------------- MODULE PortTrace -----------------------------
(* Batch validation of traces recorded from the real Port / REDPort / PortMonitor against Port.tla. *)
(* Every logged event must be an enabled step of the specification and the logged public            *)
(* attributes must equal the specification's state after it (DESIGN 4.2).                           *)
EXTENDS Port, Json
VARIABLES tid, l
Traces == JsonDeserialize("traces.json")
vars == <<pvars, tid, l>>
Tr == Traces[tid].ev
Ev == Tr[l]
Incl == Traces[tid].incl

Init == /\ tid \in 1..Len(Traces) /\ l = 1 /\ TLCSet(tid, 1)
        /\ InitWith(Traces[tid].cfg)
More == l <= Len(Tr)
Here == More /\ Ev.t = now
Consume == l' = l + 1 /\ UNCHANGED tid
Keep == UNCHANGED <<tid, l>>
\* public attributes after the step
Bound == /\ Len(q') = Ev.items /\ bytes' = Ev.bytes /\ drops' = Ev.drops /\ nrecv' = Ev.nrecv

ArriveEv == /\ Here /\ Ev.e = "A"
            /\ \/ Arrive(Ev.id, Ev.sz) /\ Ev.un = -1
               \/ ArriveRed(Ev.id, Ev.sz, Ev.un, Ev.ud) /\ avg' = <<Ev.an, Ev.ad>>
            /\ Bound /\ Consume
\* the tap sits inside the downstream put(): the port still shows itself busy with the departing packet
DepartEv == /\ Here /\ Ev.e = "D"
            /\ srv # <<>> /\ srv[1].id = Ev.id /\ srv[1].sz = Ev.sz
            /\ Depart /\ Bound
            /\ (cfg.red = 1 \/ Ev.stamp = srv[1].at)   \* the stamping clause is stated for Port; REDPort.put is not held to it
            /\ Consume
SampleEv == /\ Here /\ Ev.e = "S"
            /\ SampleOK(Incl, Ev.x, Ev.y)
            /\ UNCHANGED pvars /\ Consume
QuietEv == /\ Here /\ Ev.e = "Q"
           /\ q = <<>> /\ srv = <<>> /\ bytes = Ev.bytes /\ drops = Ev.drops /\ nrecv = Ev.nrecv
           /\ UNCHANGED pvars /\ Consume
SilentStep == (Fetch \/ Begin) /\ Keep
\* a port without next hop: its departures are not seen at a tap, and the clock has to stop at the end of each
\* transmission although no event is logged there
HiddenDepart == Traces[tid].noout = 1 /\ Depart /\ Keep
HiddenTick == /\ Traces[tid].noout = 1 /\ srv # <<>> /\ started /\ fin > now
              /\ (More => fin <= Ev.t)
              /\ TickTo(fin) /\ Keep
TickEv == More /\ TickTo(Ev.t) /\ Keep
Next == ArriveEv \/ DepartEv \/ SampleEv \/ QuietEv \/ SilentStep \/ HiddenDepart \/ HiddenTick \/ TickEv
Spec == Init /\ [][Next]_vars

Mark == TLCSet(tid, IF l > TLCGet(tid) THEN l ELSE TLCGet(tid))
Post == /\ \A i \in 1..Len(Traces) :
             TLCGet(i) = Len(Traces[i].ev) + 1 \/ PrintT(<<"STUCK", i, TLCGet(i)>>)
        /\ PrintT(<<"DONE", Len(Traces)>>)
=============================================================================
