SPECIFICATION Spec
CONSTANTS
  MaxPk = 4
  MaxT = 3
  Delays = {0, 1, 2, 3}
  Tier = "lossless"
  Early = TRUE
CONSTRAINT Emit
INVARIANT NotBefore
INVARIANT InOrder
INVARIANT DeliveryLaw
INVARIANT NothingOverdue
INVARIANT ExactlyOnce
INVARIANT Accounted
INVARIANT LosslessWithoutRate
INVARIANT LostNeverDelivered
INVARIANT OneLossDrawPerPacket
INVARIANT OneDelayDrawPerDelivered
PROPERTY TimeMonotone
PROPERTY NoNeedlessDelay
PROPERTY LostDelaysNobody
PROPERTY ThresholdRule
CHECK_DEADLOCK FALSE
