---------------------------- MODULE GenSinkTrace ----------------------------
(* Batch validation of generator traces and sink traces recorded in the pipelines of the C08 driver against GenSink. *)
(* A trace has cfg.role = "gen" or "sink".  Events (uniform records):                                                *)
(*   E  the generator handed a packet with header fields id, sz, f, src, ct to its output at instant t;              *)
(*      sent = its public packets_send afterwards                                                                    *)
(*   D  the sink was given a packet (f, src, sz, ct) at t; cnt, byt, arr, wt = its public dictionaries' entries for   *)
(*      the packet's key afterwards                                                                                  *)
(*   Q  the agenda is empty: sent (generator) / cnts, byts, arrs, wts for every key (sink)                           *)
(*   X  the run raised (no action matches)                                                                           *)
EXTENDS GenSink, Json
VARIABLES tid, l
Traces == JsonDeserialize("traces.json")
vars == <<gvars, tid, l>>
Tr == Traces[tid].ev
Ev == Tr[l]

Init == /\ tid \in 1..Len(Traces) /\ l = 1 /\ TLCSet(tid, 1)
        /\ InitWith(Traces[tid].cfg)
More == l <= Len(Tr)
Here == More /\ Ev.t = now
Consume == l' = l + 1 /\ UNCHANGED tid
Keep == UNCHANGED <<tid, l>>
Opt(x, v) == x = -1 \/ x = v

EmitEv == /\ Here /\ Ev.e = "E" /\ cfg.role = "gen"
          /\ GenEmit(Ev.id, Ev.sz, Ev.f, Ev.src, Ev.ct)
          /\ Opt(Ev.sent, gn')
          /\ Consume
DeliverEv == /\ Here /\ Ev.e = "D" /\ cfg.role = "sink"
             /\ SinkDeliver(Ev.f, Ev.src, Ev.sz, Ev.ct)
             /\ LET k == Key(Ev.f, Ev.src) IN
                /\ Ev.k = k
                /\ cnt'[k] = Ev.cnt /\ byt'[k] = Ev.byt /\ arrs'[k] = Ev.arr /\ wts'[k] = Ev.wt
             /\ Consume
\* the agenda is empty: every packet that had to be emitted has been
GenQuiet == /\ More /\ Ev.e = "Q" /\ cfg.role = "gen"
            /\ ~MustEmit(gn + 1) /\ Opt(Ev.sent, gn)
            /\ UNCHANGED gvars /\ Consume
SinkQuiet == /\ More /\ Ev.e = "Q" /\ cfg.role = "sink"
             /\ cnt = Ev.cnts /\ byt = Ev.byts /\ arrs = Ev.arrs /\ wts = Ev.wts
             /\ UNCHANGED gvars /\ Consume
TickEv == More /\ Ev.e \in {"E", "D"} /\ TickTo(Ev.t) /\ Keep
Next == EmitEv \/ DeliverEv \/ GenQuiet \/ SinkQuiet \/ TickEv
Spec == Init /\ [][Next]_vars

Mark == TLCSet(tid, IF l > TLCGet(tid) THEN l ELSE TLCGet(tid))
Post == /\ \A i \in 1..Len(Traces) :
             TLCGet(i) = Len(Traces[i].ev) + 1 \/ PrintT(<<"STUCK", i, TLCGet(i)>>)
        /\ PrintT(<<"DONE", Len(Traces)>>)
=============================================================================
