-------------------------- MODULE TokenBucketTrace --------------------------
(* Batch validation of traces recorded from the real TokenBucket against TokenBucket.tla.          *)
(* Every logged event must be an enabled step of the specification; the logged public attributes   *)
(* (current_bucket, update_time) must denote the specification's bucket content at that instant.    *)
EXTENDS TokenBucket, Json
VARIABLES tid, l
Traces == JsonDeserialize("traces.json")
vars == <<tvars, tid, l>>
Tr == Traces[tid].ev
Ev == Tr[l]

Init == /\ tid \in 1..Len(Traces) /\ l = 1 /\ TLCSet(tid, 1)
        /\ InitWith(Traces[tid].cfg)
More == l <= Len(Tr)
Here == More /\ Ev.t = now
Consume == l' = l + 1 /\ UNCHANGED tid
Keep == UNCHANGED <<tid, l>>
\* (current_bucket, update_time) after the step denote the same bucket content as the specification's pair
Bound == /\ Ev.upd <= now
         /\ Min(cfg.B, Ev.lvl + cfg.R * (now - Ev.upd)) = Min(cfg.B, lvl' + cfg.R * (now - upd'))

ArriveEv == /\ Here /\ Ev.e = "A"
            /\ Ev.id = nrecv + 1
            /\ Arrive(Ev.id, Ev.sz) /\ Bound /\ Consume
\* the tap sits inside the downstream put()
DepartEv == /\ Here /\ Ev.e = "D"
            /\ hd # <<>> /\ hd[1].id = Ev.id /\ hd[1].sz = Ev.sz
            /\ Release /\ Bound /\ Consume
\* the run ended with an empty agenda: nothing may be held back
QuietEv == /\ Here /\ Ev.e = "Q"
           /\ q = <<>> /\ hd = <<>> /\ Len(rellog) = nrecv
           /\ UNCHANGED tvars /\ Bound /\ Consume
SilentStep == More /\ (Take \/ Debit) /\ Keep
\* time passes to the next logged event, or to the (unlogged) debit instant when that comes first
TickEv == More /\ TickTo(Ev.t) /\ Keep
TickDue == More /\ hd # <<>> /\ due < Ev.t /\ TickTo(due) /\ Keep
Next == ArriveEv \/ DepartEv \/ QuietEv \/ SilentStep \/ TickEv \/ TickDue
Spec == Init /\ [][Next]_vars

Mark == TLCSet(tid, IF l > TLCGet(tid) THEN l ELSE TLCGet(tid))
Post == /\ \A i \in 1..Len(Traces) :
             TLCGet(i) = Len(Traces[i].ev) + 1 \/ PrintT(<<"STUCK", i, TLCGet(i)>>)
        /\ PrintT(<<"DONE", Len(Traces)>>)
=============================================================================
