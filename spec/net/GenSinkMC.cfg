SPECIFICATION Spec
CONSTANTS
  MaxLen = 3
  Gaps = {0, 1, 2}
  MaxT = 8
  FinSet = {2}
  D0s = {0, 2}
  MaxDelay = 2
CONSTRAINT Emit2
INVARIANT EmissionLaw
INVARIANT FinishRule
INVARIANT SinkCounts
INVARIANT SinkArrivals
INVARIANT SinkWaits
INVARIANT Delivered
CHECK_DEADLOCK FALSE
