SPECIFICATION Spec
CONSTANTS
  MaxFlow = 0
  MaxOuts = 3
  MaxPuts = 2
  MaxReconf = 1
  Tier = "reconfhub"
CONSTRAINT Emit
INVARIANT HubAllButSender
INVARIANT HubThroughPort
INVARIANT HubSamePacket
INVARIANT AllWellFormed
INVARIANT NeverRaisesUnprovoked
CHECK_DEADLOCK FALSE
