----------------------------- MODULE TwoRateTB -----------------------------
(***************************************************************************)
(* Two-rate token-bucket shaper / marker -- property C11, second half.     *)
(*                                                                         *)
(* Two buckets: the committed bucket gains cfg.CIR bytes per tick up to    *)
(* cfg.CBS, the peak bucket cfg.PIR bytes per tick up to cfg.PBS           *)
(* (cfg.PIR = 0: no peak bucket configured); both are full at instant 0.   *)
(* Packets are served first in first out.  The SHAPING bucket is the peak  *)
(* bucket, or the committed bucket when no PIR is given: a packet leaves   *)
(* at the earliest instant the shaping bucket holds its size, exactly as   *)
(* in TokenBucket (no peak spacing).  The colour is decided by the bucket  *)
(* contents at the instant the packet reaches the head of the queue:       *)
(*   green   every configured bucket covers the size                       *)
(*   yellow  only the committed tokens are short                           *)
(*   red     the peak tokens are short (the packet has to wait for them)   *)
(* A green packet takes its size out of every configured bucket -- this is *)
(* what makes the green traffic conform to (CIR, CBS).  The property does  *)
(* not say what a yellow or red packet does to the COMMITTED bucket (RFC   *)
(* 2698 leaves it alone, other markers drain it): the specification lets   *)
(* such a packet lower the committed content to any value, never raise it. *)
(* The peak bucket is debited by every packet.                             *)
(***************************************************************************)
EXTENDS Naturals, Integers, Sequences, FiniteSets, TLC

VARIABLES now,     \* current instant (ticks)
          q,       \* packets not yet at the head (FIFO): [id, sz, at]
          hd,      \* <<>> or <<[id, sz, at, h, col, hp, hc]>>: packet at the head, its colour, bucket contents at h
          due,     \* instant at which the packet at the head leaves
          pl, cl,  \* peak / committed tokens at instant upd
          upd,     \* instant pl and cl refer to
          nrecv,   \* packets handed in so far
          deplog,  \* history of departures [id, sz, at, h, t, col, hp, hc]
          cfg      \* frozen parameters [CIR, CBS, PIR, PBS]
wvars == <<now, q, hd, due, pl, cl, upd, nrecv, deplog, cfg>>

Min(a, b) == IF a < b THEN a ELSE b
Max(a, b) == IF a > b THEN a ELSE b

HasPeak == cfg.PIR > 0
InitWith(c) ==
  /\ now = 0 /\ q = <<>> /\ hd = <<>> /\ due = 0
  /\ pl = c.PBS /\ cl = c.CBS /\ upd = 0 /\ nrecv = 0 /\ deplog = <<>>
  /\ cfg = c

AccP(t) == pl + cfg.PIR * (t - upd)
AccC(t) == cl + cfg.CIR * (t - upd)
TokP(t) == Min(cfg.PBS, AccP(t))       \* peak bucket content at t
TokC(t) == Min(cfg.CBS, AccC(t))       \* committed bucket content at t

Arrive(id, sz) ==
  /\ q' = Append(q, [id |-> id, sz |-> sz, at |-> now])
  /\ nrecv' = nrecv + 1
  /\ UNCHANGED <<now, hd, due, pl, cl, upd, deplog, cfg>>

Colour(sz, hp, hc) ==
  IF HasPeak THEN (IF sz > hp THEN "red" ELSE IF sz > hc THEN "yellow" ELSE "green")
  ELSE (IF sz > hc THEN "yellow" ELSE "green")

\* the next packet reaches the head of the queue: colour and departure instant are fixed
Take ==
  /\ hd = <<>> /\ q # <<>>
  /\ LET p == Head(q)
         hp == TokP(now)
         hc == TokC(now)
         col == Colour(p.sz, hp, hc)
         miss == Max(0, p.sz - (IF HasPeak THEN hp ELSE hc))
         rate == IF HasPeak THEN cfg.PIR ELSE cfg.CIR
     IN /\ miss % rate = 0
        /\ hd' = <<[id |-> p.id, sz |-> p.sz, at |-> p.at, h |-> now, col |-> col, hp |-> hp, hc |-> hc]>>
        /\ q' = Tail(q)
        /\ pl' = hp /\ upd' = now
        /\ IF col = "red" THEN cl' \in 0..hc ELSE cl' = hc
        /\ due' = now + miss \div rate
  /\ UNCHANGED <<now, nrecv, deplog, cfg>>

Depart ==
  /\ hd # <<>> /\ now = due
  /\ LET p == hd[1] IN
     /\ IF HasPeak
        THEN /\ pl' = AccP(now) - p.sz
             /\ IF p.col = "green" THEN cl' = TokC(now) - p.sz ELSE cl' \in 0..TokC(now)
        ELSE /\ pl' = pl
             /\ cl' = AccC(now) - p.sz
     /\ upd' = now
     /\ deplog' = Append(deplog, [id |-> p.id, sz |-> p.sz, at |-> p.at, h |-> p.h, t |-> now,
                                  col |-> p.col, hp |-> p.hp, hc |-> p.hc])
  /\ hd' = <<>>
  /\ UNCHANGED <<now, q, due, nrecv, cfg>>

Urgent == (hd = <<>> /\ q # <<>>) \/ (hd # <<>> /\ now = due)
TickTo(t) == /\ t > now /\ ~Urgent /\ (hd # <<>> => t <= due) /\ now' = t
             /\ UNCHANGED <<q, hd, due, pl, cl, upd, nrecv, deplog, cfg>>

(* ---------------- properties: state invariants over the history ---------------- *)
(* Every prefix of the history is the history of an earlier reachable state, so each formula only  *)
(* needs to speak about the newest entry together with all earlier ones.                            *)
SRate == IF HasPeak THEN cfg.PIR ELSE cfg.CIR      \* the shaping bucket
SSize == IF HasPeak THEN cfg.PBS ELSE cfg.CBS

RECURSIVE SumSz(_, _, _)
SumSz(log, i, j) == IF i > j THEN 0 ELSE log[j].sz + SumSz(log, i, j - 1)
RECURSIVE SumGreen(_, _, _)
SumGreen(log, i, j) ==
  IF i > j THEN 0 ELSE (IF log[j].col = "green" THEN log[j].sz ELSE 0) + SumGreen(log, i, j - 1)

\* all departures conform to the shaping bucket
ShapeConformance ==
  LET j == Len(deplog) IN
  \A i \in 1..j :
    SumSz(deplog, i, j) <= Max(SSize, deplog[i].sz) + SRate * (deplog[j].t - deplog[i].t)
\* the green departures alone conform to (CIR, CBS)
GreenConformsToCIR ==
  LET j == Len(deplog) IN
  \A i \in 1..j :
    (deplog[i].col = "green" /\ deplog[j].col = "green") =>
      SumGreen(deplog, i, j) <= Max(cfg.CBS, deplog[i].sz) + cfg.CIR * (deplog[j].t - deplog[i].t)

Fifo == \A k \in 1..Len(deplog) : deplog[k].id = k
Lossless == nrecv = Len(deplog) + Len(hd) + Len(q)
NonNegative == pl >= 0 /\ cl >= 0
HeadLaw ==
  LET k == Len(deplog) IN k > 0 =>
    deplog[k].h = Max(deplog[k].at, IF k = 1 THEN 0 ELSE deplog[k - 1].t)

\* closed form of the departure instants: shaping-bucket content recomputed from the history alone
RECURSIVE SLevelAfter(_)
SLevelBefore(k) ==
  IF k = 1 THEN SSize
  ELSE Min(SSize, SLevelAfter(k - 1) + SRate * (deplog[k].h - deplog[k - 1].t))
SLevelAfter(k) == Max(0, SLevelBefore(k) - deplog[k].sz)
ShapeLaw ==
  LET k == Len(deplog) IN k > 0 =>
    SRate * (deplog[k].t - deplog[k].h) = Max(0, deplog[k].sz - SLevelBefore(k))

\* the colour clauses
ColourRule ==
  LET k == Len(deplog) IN k > 0 =>
    LET d == deplog[k] IN
      /\ d.col \in {"green", "yellow", "red"}
      /\ d.col = "green" <=> (d.sz <= d.hc /\ (HasPeak => d.sz <= d.hp))
      /\ d.col = "red" <=> (HasPeak /\ d.sz > d.hp)
      /\ HasPeak => d.hp = SLevelBefore(k)
      /\ ~HasPeak => d.hc = SLevelBefore(k)
\* red = had to wait for peak tokens; without a peak bucket yellow = had to wait for committed tokens
WaitRule ==
  LET k == Len(deplog) IN k > 0 =>
    LET d == deplog[k] IN
      IF HasPeak THEN (d.col = "red" <=> d.t > d.h) ELSE (d.col = "yellow" <=> d.t > d.h)

CouldAct ==
  \/ hd = <<>> /\ q # <<>>
  \/ hd # <<>> /\ (IF HasPeak THEN AccP(now) ELSE AccC(now)) >= hd[1].sz
=============================================================================
