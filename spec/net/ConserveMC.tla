----------------------------- MODULE ConserveMC -----------------------------
(* Closed system for exhaustive checking of Conserve on four fixed small topologies: sources emit up to MaxPk  *)
(* packets of flows in Flows, every element acts whenever it likes.  History variables record who got what in  *)
(* which order so that the clauses of C08 are stated over the observable history and not over the counters.    *)
EXTENDS Conserve, Json
CONSTANTS Topo, MaxPk, Flows
VARIABLES emitted,   \* history: packets created by sources [s, o, fl]
          info,      \* identity -> [fl, root]: fields at creation and the source packet it stems from
          inlog,     \* element -> identities in the order they entered
          outlog,    \* element -> identities in the order they left (for a splitter: as handed to its outputs)
          droplog    \* element -> identities discarded
vars == <<cvars, emitted, info, inlog, outlog, droplog>>

NoLoss == <<0, 1>>
Half == <<1, 2>>
\* chain: source -> port -> lossy wire -> scheduler -> sink
Chain == [kind |-> <<"src", "port", "wire", "sched", "sink">>,
          succ |-> << <<2>>, <<3>>, <<4>>, <<5>>, <<>> >>,
          nor  |-> << <<>>, <<>>, <<>>, <<>>, <<>> >>,
          loss |-> <<NoLoss, NoLoss, Half, NoLoss, NoLoss>>]
\* fan-in: source 1 -> token bucket -> scheduler <- source 2 ; scheduler -> RED port -> sink
FanIn == [kind |-> <<"src", "src", "tb", "sched", "red", "sink">>,
          succ |-> << <<3>>, <<4>>, <<4>>, <<5>>, <<6>>, <<>> >>,
          nor  |-> << <<>>, <<>>, <<>>, <<>>, <<>>, <<>> >>,
          loss |-> <<NoLoss, NoLoss, NoLoss, NoLoss, NoLoss, NoLoss>>]
\* fan-out: source -> switch (no route for flow 3) -> { demux (no route for flow 2) -> {trtb -> sink, sink}, lossless wire -> sink }
FanOut == [kind |-> <<"src", "switch", "demux", "wire", "trtb", "sink", "sink", "sink">>,
           succ |-> << <<2>>, <<3, 4>>, <<5, 7>>, <<8>>, <<6>>, <<>>, <<>>, <<>> >>,
           nor  |-> << <<>>, <<3>>, <<2>>, <<>>, <<>>, <<>>, <<>>, <<>> >>,
           loss |-> <<NoLoss, NoLoss, NoLoss, NoLoss, NoLoss, NoLoss, NoLoss, NoLoss>>]
\* split: source -> splitter -> { token bucket -> scheduler, scheduler } -> sink  (original and copy meet again)
Split == [kind |-> <<"src", "split", "tb", "sched", "sink">>,
          succ |-> << <<2>>, <<3, 4>>, <<4>>, <<5>>, <<>> >>,
          nor  |-> << <<>>, <<>>, <<>>, <<>>, <<>> >>,
          loss |-> <<NoLoss, NoLoss, NoLoss, NoLoss, NoLoss>>]
TheCfg == CASE Topo = "chain" -> Chain [] Topo = "fanin" -> FanIn [] Topo = "fanout" -> FanOut [] Topo = "split" -> Split
MaxCopies == IF Topo = "split" THEN 2 ELSE 1

Init == /\ InitWith(TheCfg)
        /\ emitted = <<>> /\ info = <<>>
        /\ inlog = [e \in 1..Len(TheCfg.kind) |-> <<>>]
        /\ outlog = [e \in 1..Len(TheCfg.kind) |-> <<>>]
        /\ droplog = [e \in 1..Len(TheCfg.kind) |-> <<>>]

NextO == Len(info) + 1
EmittedBy(s) == Cardinality({k \in 1..Len(emitted) : emitted[k].s = s})

EnvEmit ==
  /\ Len(emitted) < MaxPk
  /\ \E s \in Els, f \in Flows :
       /\ IsSrc(s)
       /\ \E b \in Succ(s) :
            LET fl == <<EmittedBy(s) + 1, f, s>> IN
            /\ Emit(s, b, NextO, fl)
            /\ emitted' = Append(emitted, [s |-> s, o |-> NextO, fl |-> fl])
            /\ info' = Append(info, [fl |-> fl, root |-> NextO])
            /\ inlog' = [inlog EXCEPT ![b] = Append(@, NextO)]
  /\ UNCHANGED <<outlog, droplog>>

DoSplitOut(a) ==
  \E k \in 1..Len(SuccSeq(a)), i \in 1..Len(held[a]) :
    LET ent == held[a][i]
        o2 == IF k = 1 THEN ent.o ELSE NextO
        b == SuccSeq(a)[k] IN
    /\ k \in ent.pend
    /\ SplitOut(a, k, o2, ent.fl)
    /\ info' = IF k = 1 THEN info ELSE Append(info, [fl |-> ent.fl, root |-> info[ent.was].root])
    /\ outlog' = [outlog EXCEPT ![a] = Append(@, o2)]
    /\ inlog' = [inlog EXCEPT ![b] = Append(@, o2)]
    /\ UNCHANGED <<emitted, droplog>>

Dropped(a, o) == /\ droplog' = [droplog EXCEPT ![a] = Append(@, o)]
                 /\ UNCHANGED <<emitted, info, inlog, outlog>>
DoArrivalDrop(a) == \E i \in 1..Len(held[a]) : ArrivalDrop(a, held[a][i].o) /\ Dropped(a, held[a][i].o)
DoLossDrop(a) == \E i \in 1..Len(held[a]) : LossDrop(a, held[a][i].o) /\ Dropped(a, held[a][i].o)
DoRouteDrop(a) == \E i \in 1..Len(held[a]) : RouteDrop(a, held[a][i].o) /\ Dropped(a, held[a][i].o)
\* a packet without a route is not forwarded by the element that lacks the route
RoutedForward(a) == \E b \in Succ(a), i \in 1..Len(held[a]) :
                      /\ ~NoRoute(a, Flow(held[a][i].fl))
                      /\ Forward(a, b, held[a][i].o, held[a][i].fl)
                      /\ outlog' = [outlog EXCEPT ![a] = Append(@, held[a][i].o)]
                      /\ inlog' = [inlog EXCEPT ![b] = Append(@, held[a][i].o)]
                      /\ UNCHANGED <<emitted, info, droplog>>
\* a lossy wire: the packet handed on overtakes older ones of its flow, which were lost
DoForwardPastLost(a) ==
  \E b \in Succ(a), i \in 1..Len(held[a]) :
    LET o == held[a][i].o  D == OlderOfFlow(a, i) IN
    /\ ForwardPastLost(a, b, o, held[a][i].fl)
    /\ outlog' = [outlog EXCEPT ![a] = Append(@, o)]
    /\ inlog' = [inlog EXCEPT ![b] = Append(@, o)]
    /\ droplog' = [droplog EXCEPT ![a] = @ \o [k \in 1..Cardinality(D) |->
                       held[a][CHOOSE j \in D : Cardinality({x \in D : x < j}) = k - 1].o]]
    /\ UNCHANGED <<emitted, info>>
DoLoseRest(a) == /\ LoseRest(a)
                 /\ droplog' = [droplog EXCEPT ![a] = @ \o [k \in 1..Len(held[a]) |-> held[a][k].o]]
                 /\ UNCHANGED <<emitted, info, inlog, outlog>>
DoQuiesce == Quiesce /\ UNCHANGED <<emitted, info, inlog, outlog, droplog>>

\* what an element must eventually do with a held packet (it need not ever drop one it may forward)
Progress(a) == RoutedForward(a) \/ DoSplitOut(a) \/ DoRouteDrop(a)
StepForward == \E a \in Els : RoutedForward(a)
StepSplit == \E a \in Els : DoSplitOut(a)
StepArrivalDrop == \E a \in Els : DoArrivalDrop(a)
StepLossDrop == \E a \in Els : DoLossDrop(a)
StepRouteDrop == \E a \in Els : DoRouteDrop(a)
StepPastLost == \E a \in Els : DoForwardPastLost(a)
StepLoseRest == \E a \in Els : DoLoseRest(a)
Next == EnvEmit \/ StepForward \/ StepSplit \/ StepArrivalDrop \/ StepLossDrop \/ StepRouteDrop \/ StepPastLost \/ StepLoseRest \/ DoQuiesce
Spec == Init /\ [][Next]_vars /\ \A a \in 1..Len(TheCfg.kind) : WF_vars(Progress(a))

Emit1 == (Quiescent /\ ~done /\ Len(emitted) >= 1) =>
            PrintT(<<"EMIT", ToJson([topo |-> Topo, pk |-> [k \in 1..Len(emitted) |-> [s |-> emitted[k].s, f |-> emitted[k].fl[2]]]])>>)

(* ---------------- the clauses of C08 over the history ---------------- *)
Objs == 1..Len(info)
Where(o) == {e \in Els : Holds(e, o)}
InSeq(s, x) == \E i \in 1..Len(s) : s[i] = x
Pos(s, x) == CHOOSE i \in 1..Len(s) : s[i] = x
\* at every state every packet is accounted for exactly once: held by exactly one element (a sink keeps it), or discarded once
Accounted ==
  /\ \A o \in Objs :
       Cardinality(Where(o)) + Cardinality({e \in Els : InSeq(droplog[e], o)}) = 1
  /\ \A e \in Els : \A i, j \in 1..Len(held[e]) : (i # j /\ held[e][i].o # 0) => held[e][i].o # held[e][j].o
  /\ \A e \in Els : (~IsSrc(e) /\ ~Copies(e)) =>
       Len(inlog[e]) = Len(outlog[e]) + Len(droplog[e]) + Len(held[e])
  /\ Balance
  /\ \A e \in Els : nin[e] = Len(inlog[e]) /\ ndrop[e] = Len(droplog[e])
DropsOnlyByRule == OnlyAllowedDrops /\ CountedAreDrops
\* packets of one flow leave every element in the order they entered
PerFlowFifo ==
  \A e \in Els : ~Copies(e) =>
    \A i, j \in 1..Len(outlog[e]) :
      (i < j /\ Flow(info[outlog[e][i]].fl) = Flow(info[outlog[e][j]].fl))
        => Pos(inlog[e], outlog[e][i]) < Pos(inlog[e], outlog[e][j])
\* whatever an element passes on it was given before
OutWasIn == \A e \in Els : (~IsSrc(e) /\ ~Copies(e)) => \A i \in 1..Len(outlog[e]) : InSeq(inlog[e], outlog[e][i])
\* everything delivered was sent, with the same fields
NoInvention ==
  \A e \in Els : IsSink(e) =>
    \A i \in 1..Len(held[e]) :
      \E k \in 1..Len(emitted) : /\ emitted[k].o = info[held[e][i].o].root
                                 /\ emitted[k].fl = held[e][i].fl
\* nothing is delivered more often than the topology has copying paths
NoDuplication ==
  \A k \in 1..Len(emitted) :
    Cardinality({<<e, i>> \in Els \X (1..MaxPk * 2) :
                   IsSink(e) /\ i <= Len(held[e]) /\ info[held[e][i].o].root = emitted[k].o}) <= MaxCopies
\* once arrivals stop everything drains
Drains == <>[]Quiescent
EndsOnlyWhenDrained == [](done => Quiescent)
=============================================================================
