--------------------------- MODULE ConserveTrace ---------------------------
(* Batch validation of tap traces recorded from pipelines of the real elements against Conserve.tla.            *)
(* Events (uniform records [e, t, fr, to, o, fl, rcv, snt, drp, items, un, ud, type]):                          *)
(*   B  the packet object o with field snapshot fl crosses the edge fr -> to (tap, before the downstream put()) *)
(*   R  that put() has returned; rcv / drp = public counters of `to` read now, fl = the fields read again       *)
(*   U  the lossy wire `to` drew the uniform number un/ud for a loss decision                                   *)
(*   Q  agenda empty: public counters and store contents of element `to`                                        *)
(*   Z  agenda empty, nothing raised                                                                            *)
(*   X  an exception escaped (no action of the specification matches it)                                        *)
(* Discards are not tapped, they are inferred: a counted drop from the counter read at R, a missing route from   *)
(* the return of the put(), a wire loss from the wire's draws (how many) together with what the wire does next   *)
(* (which: a packet overtaken inside a lossy wire by a later one of its own flow, or left over at the end).  A   *)
(* packet that silently disappears stays in `held` and blocks Q / Z; a packet that appears from nowhere or       *)
(* twice, with other fields, or overtaking its own flow has no enabled B step.                                   *)
EXTENDS Conserve, Json
VARIABLES tid, l,
          lmust,    \* lossy wire -> loss draws seen so far that were below the loss rate (a packet must have been lost for each)
          lmay      \* lossy wire -> loss draws seen so far that were exactly the loss rate (a packet may have been lost)
Traces == JsonDeserialize("traces.json")
vars == <<cvars, tid, l, lmust, lmay>>
Tr == Traces[tid].ev
Ev == Tr[l]

Init == /\ tid \in 1..Len(Traces) /\ l = 1 /\ TLCSet(tid, 1)
        /\ InitWith(Traces[tid].cfg)
        /\ lmust = [e \in 1..Len(Traces[tid].cfg.kind) |-> 0]
        /\ lmay = [e \in 1..Len(Traces[tid].cfg.kind) |-> 0]
More == l <= Len(Tr)
Consume == l' = l + 1 /\ UNCHANGED tid
Draws == UNCHANGED <<lmust, lmay>>
\* losses never outnumber the draws that allow them
LossesCovered(b) == ndrop'[b] <= lmust[b] + lmay[b]
Opt(x, v) == x = -1 \/ x = v

PutEv == /\ More /\ Ev.e = "B"
         /\ \/ Emit(Ev.fr, Ev.to, Ev.o, Ev.fl)
            \/ Forward(Ev.fr, Ev.to, Ev.o, Ev.fl)
            \/ ForwardPastLost(Ev.fr, Ev.to, Ev.o, Ev.fl) /\ LossesCovered(Ev.fr)
            \/ \E k \in 1..Len(SuccSeq(Ev.fr)) : SuccSeq(Ev.fr)[k] = Ev.to /\ SplitOut(Ev.fr, k, Ev.o, Ev.fl)
         /\ Draws /\ Consume

\* the put() into b has returned: counted drop, missing route, or the packet is kept / has already been passed on
ReturnEv ==
  /\ More /\ Ev.e = "R"
  /\ LET b == Ev.to  o == Ev.o IN
     /\ Opt(Ev.rcv, nin[b])
     /\ \A i \in Idx(b, o) : held[b][i].fl = Ev.fl           \* put() left the identifying fields alone
     /\ IF CountedDrop(b) /\ Ev.drp = ncnt[b] + 1 THEN ArrivalDrop(b, o)
        ELSE /\ CountedDrop(b) => Ev.drp = ncnt[b]
             /\ IF Holds(b, o) /\ NoRoute(b, Flow(Ev.fl)) THEN RouteDrop(b, o)
                ELSE /\ MayHold(b) \/ held[b] = <<>>         \* a pass-through element has dealt with it
                     /\ UNCHANGED cvars
  /\ Draws /\ Consume

\* loss draw u = un/ud of a wire with loss rate p: u < p loses a packet, u > p does not, u = p either.  Which packet
\* it was shows later: it is overtaken by a packet of its flow (ForwardPastLost) or is still there at the end (LoseRest).
DrawEv ==
  /\ More /\ Ev.e = "U"
  /\ LET b == Ev.to  pn == cfg.loss[b][1]  pd == cfg.loss[b][2] IN
     /\ Kind(b) = "wire"
     /\ lmust' = [lmust EXCEPT ![b] = IF LossyWire(b) /\ Ev.un * pd < pn * Ev.ud THEN @ + 1 ELSE @]
     /\ lmay' = [lmay EXCEPT ![b] = IF LossyWire(b) /\ Ev.un * pd = pn * Ev.ud THEN @ + 1 ELSE @]
  /\ UNCHANGED cvars /\ Consume

\* nothing left in the element; its own counters agree with what crossed its edges
QuietEv ==
  /\ More /\ Ev.e = "Q"
  /\ LET b == Ev.to IN
     /\ IF LossyWire(b) /\ held[b] # <<>> THEN LoseRest(b) ELSE UNCHANGED cvars
     /\ IsSink(b) \/ IsSrc(b) \/ held'[b] = <<>>
     /\ LossyWire(b) => (lmust[b] <= ndrop'[b] /\ ndrop'[b] <= lmust[b] + lmay[b])   \* every loss has its draw and vice versa
     /\ IsSink(b) \/ IsSrc(b) \/ Opt(Ev.items, 0)
     /\ IsSrc(b) \/ Opt(Ev.rcv, nin[b])
     /\ Opt(Ev.snt, nout[b])
     /\ IF CountedDrop(b) THEN Ev.drp = ncnt[b] ELSE Opt(Ev.drp, ncnt[b])
  /\ Draws /\ Consume

EndEv == /\ More /\ Ev.e = "Z" /\ Quiesce /\ Draws /\ Consume

Next == PutEv \/ ReturnEv \/ DrawEv \/ QuietEv \/ EndEv
Spec == Init /\ [][Next]_vars

Mark == TLCSet(tid, IF l > TLCGet(tid) THEN l ELSE TLCGet(tid))
Post == /\ \A i \in 1..Len(Traces) :
             TLCGet(i) = Len(Traces[i].ev) + 1 \/ PrintT(<<"STUCK", i, TLCGet(i)>>)
        /\ PrintT(<<"DONE", Len(Traces)>>)
=============================================================================
