SPECIFICATION Spec
INVARIANT Sane
INVARIANT Sizes
INVARIANT Degrees
INVARIANT Layers
INVARIANT Hosts
INVARIANT PodsOK
INVARIANT CoresOK
INVARIANT ShortestPaths
INVARIANT PortNumbering
INVARIANT OnPath
INVARIANT NotStuck
INVARIANT NextHopAgrees
INVARIANT NoAckEntries
PROPERTY ReachesDst
CHECK_DEADLOCK FALSE
