INIT Init
NEXT Next
CONSTRAINT Mark
POSTCONDITION Post
CHECK_DEADLOCK FALSE
INVARIANT ByteSizeIsHeld
INVARIANT OccupancyBound
INVARIANT CounterIdentity
INVARIANT DepartureLaw
