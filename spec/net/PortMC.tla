------------------------------ MODULE PortMC ------------------------------
(* Closed system for exhaustive checking of Port: an environment that hands in up to MaxPk packets *)
(* at arbitrary instants (bursts included) and lets time pass; every complete workload is emitted.  *)
EXTENDS Port, Json
CONSTANTS MaxPk, MaxT, Sizes, Tier
VARIABLE arrlog          \* history: the workload so far [t, sz, un, ud]
vars == <<pvars, arrlog>>

TailCfg(m, ql, k) == [mode |-> m, qlimit |-> ql, K |-> k, red |-> 0, minth |-> 0, maxth |-> 0, pn |-> 0, pd |-> 1, w |-> 0]
RedCfg(m, ql, k, lo, hi, pn, pd, w) ==
  [mode |-> m, qlimit |-> ql, K |-> k, red |-> 1, minth |-> lo, maxth |-> hi, pn |-> pn, pd |-> pd, w |-> w]

Cfgs ==
  IF Tier = "tail" THEN
       {TailCfg(0, 0, k) : k \in {0, 1}}
       \cup {TailCfg(1, ql, k) : ql \in {3, 4}, k \in {0, 1, 2}}
       \cup {TailCfg(2, ql, k) : ql \in {1, 2, 3}, k \in {0, 1}}
  ELSE {RedCfg(2, 3, 2, 1, 2, 1, 2, 1), RedCfg(1, 6, 1, 2, 4, 1, 2, 1), RedCfg(2, 4, 3, 1, 3, 1, 1, 2),
        RedCfg(2, 2, 1, 1, 4, 1, 4, 1)}      \* the last one: hard limit below the maximum threshold
Draws == {<<0, 1>>, <<1, 4>>, <<1, 2>>, <<3, 4>>, <<1, 1>>}

Init == /\ \E c \in Cfgs : InitWith(c)
        /\ arrlog = <<>>

EnvArrive ==
  /\ nrecv < MaxPk /\ now <= MaxT
  /\ \E sz \in Sizes :
       \/ /\ Arrive(nrecv + 1, sz)
          /\ arrlog' = Append(arrlog, [t |-> now, sz |-> sz, un |-> -1, ud |-> 1])
       \/ \E u \in Draws \cup {<<-1, 1>>} :
          /\ ArriveRed(nrecv + 1, sz, u[1], u[2])
          /\ arrlog' = Append(arrlog, [t |-> now, sz |-> sz, un |-> u[1], ud |-> u[2]])
EnvTick == /\ (now < MaxT \/ srv # <<>>) /\ TickTo(now + 1) /\ UNCHANGED arrlog
DoFetch == Fetch /\ UNCHANGED arrlog
DoBegin == Begin /\ UNCHANGED arrlog
DoDepart == Depart /\ UNCHANGED arrlog
Next == EnvArrive \/ EnvTick \/ DoFetch \/ DoBegin \/ DoDepart
Spec == Init /\ [][Next]_vars

Quiescent == q = <<>> /\ srv = <<>>
Emit == (Quiescent /\ nrecv >= 1 /\ (nrecv = MaxPk \/ now >= MaxT)) =>
          PrintT(<<"EMIT", ToJson([cfg |-> cfg, arr |-> arrlog])>>)

(* RED clauses of C09 as action properties *)
RedNoDropBelowMin == [][(cfg.red = 1 /\ nrecv' = nrecv + 1 /\ Region(avg') = 0) => drops' = drops]_vars
RedAlwaysDropAtLimit == [][(cfg.red = 1 /\ nrecv' = nrecv + 1 /\ Region(avg') = 3) => drops' = drops + 1]_vars
TimeMonotone == [][now' >= now]_vars
\* never idle with work: the clock does not advance while the server could act
NoNeedlessDelay == [][now' > now => ~Urgent]_vars
=============================================================================
