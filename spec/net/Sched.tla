------------------------------- MODULE Sched -------------------------------
(***************************************************************************)
(* Packet schedulers: one non-preemptive, work-conserving server fed by    *)
(* per-flow FIFO queues, with the selection policy as a parameter          *)
(* (properties C12 - C15).                                                 *)
(*                                                                         *)
(*   cfg.policy = "ANY"  any backlogged flow's head may be selected (C12:  *)
(*                       everything except the selection rule)             *)
(*              = "SP"   head of a highest-priority backlogged flow (C13)  *)
(*              = "WFQ"  smallest virtual finish stamp (C14)               *)
(*              = "VC"   smallest auxVC stamp (C14)                        *)
(*              = "DRR" / "RR" / "WRR"  cyclic visits with a per-visit     *)
(*                       allowance (C15)                                   *)
(*                                                                         *)
(* Flows and classes are numbered 1..cfg.nf and 1..cfg.nc; cfg.f2c maps a  *)
(* flow to its class; cfg.w is the per-class weight / per-flow priority /  *)
(* per-class vtick table; cfg.order the declaration order of the classes;  *)
(* cfg.K ticks per byte; cfg.unit the DRR quantum of the lightest class.   *)
(* The pick-up of a packet is two silent urgent steps (Select: the packet  *)
(* leaves its queue; Begin: transmission starts) because the               *)
(* implementation exposes the state in between within one instant.         *)
(***************************************************************************)
EXTENDS Naturals, Integers, Sequences, FiniteSets, TLC

VARIABLES now,
          pool,     \* waiting packets in arrival order: [id, f, c, sz, at, st]
          srv,      \* <<>> or <<packet>>
          started,  \* transmission of srv[1] has begun
          fin,      \* its finish instant
          cnt, byt, \* per-flow counters as reported: waiting + in service
          V, last, F, pend,      \* WFQ: virtual time, instant of last update, per-class stamps, class awaiting post-departure update
          aux,                   \* VC: per-class auxVC
          credit, ptr, phase, allow,   \* round robin family: DRR credit, position in cfg.order, phase, packets left in this visit
          deplog,   \* history of departures [id, f, c, sz, at, t]
          cfg
svars == <<now, pool, srv, started, fin, cnt, byt, V, last, F, pend, aux, credit, ptr, phase, allow, deplog, cfg>>

Flows == 1..cfg.nf
Classes == 1..cfg.nc
Max(a, b) == IF a > b THEN a ELSE b
Min(a, b) == IF a < b THEN a ELSE b
ZeroF == [f \in Flows |-> 0]
ZeroC == [c \in Classes |-> 0]
RemoveAt(s, i) == SubSeq(s, 1, i - 1) \o SubSeq(s, i + 1, Len(s))
RR3 == {"DRR", "RR", "WRR"}

InitWith(c) ==
  /\ cfg = c
  /\ now = 0 /\ pool = <<>> /\ srv = <<>> /\ started = FALSE /\ fin = 0
  /\ cnt = [f \in 1..c.nf |-> 0] /\ byt = [f \in 1..c.nf |-> 0]
  /\ V = 0 /\ last = 0 /\ F = [k \in 1..c.nc |-> 0] /\ pend = 0
  /\ aux = [k \in 1..c.nc |-> 0]
  /\ credit = [k \in 1..c.nc |-> 0] /\ ptr = 1 /\ phase = "idle" /\ allow = 0
  /\ deplog = <<>>

(* ------------------------------------------------------------------ counts *)
WaitingOfClass(k) == {i \in 1..Len(pool) : pool[i].c = k}
WaitingOfFlow(f) == {i \in 1..Len(pool) : pool[i].f = f}
InService(k) == IF srv # <<>> /\ srv[1].c = k THEN 1 ELSE 0
CountC(k) == Cardinality(WaitingOfClass(k)) + InService(k)      \* class backlog: waiting + fetched/in transmission
Total == Len(pool) + Len(srv)
FirstOf(S) == CHOOSE i \in S : \A j \in S : i <= j

(* ------------------------------------------------------------------ WFQ virtual time *)
\* classes that count as backlogged for the growth of V: with packets, or whose last packet has just left (pend)
Active == {k \in Classes : CountC(k) > 0} \cup (IF pend = 0 THEN {} ELSE {pend})
RECURSIVE SumW(_)
SumW(S) == IF S = {} THEN 0 ELSE LET k == CHOOSE x \in S : TRUE IN cfg.w[k] + SumW(S \ {k})
\* exact division or the step is not on the lattice (then no behaviour of this spec matches)
Div(a, b) == IF b > 0 /\ a % b = 0 THEN a \div b ELSE -777777

(* ------------------------------------------------------------------ arrival *)
Arrive(id, f, sz) ==
  LET k == cfg.f2c[f] IN
  /\ cnt' = [cnt EXCEPT ![f] = @ + 1] /\ byt' = [byt EXCEPT ![f] = @ + sz]
  /\ IF cfg.policy = "WFQ" THEN
        LET act == Active
            V1 == IF act = {} THEN 0 ELSE V + Div(now - last, SumW(act))
            F0 == IF act = {} THEN ZeroC ELSE F
            st == Max(F0[k], V1) + Div(sz * cfg.K, cfg.w[k])
        IN /\ V' = V1 /\ F' = [F0 EXCEPT ![k] = st] /\ last' = now
           /\ pool' = Append(pool, [id |-> id, f |-> f, c |-> k, sz |-> sz, at |-> now, st |-> st])
           /\ UNCHANGED aux
     ELSE IF cfg.policy = "VC" THEN
        LET st == Max(now, aux[k]) + cfg.w[k] IN
        /\ aux' = [aux EXCEPT ![k] = st]
        /\ pool' = Append(pool, [id |-> id, f |-> f, c |-> k, sz |-> sz, at |-> now, st |-> st])
        /\ UNCHANGED <<V, last, F>>
     ELSE /\ pool' = Append(pool, [id |-> id, f |-> f, c |-> k, sz |-> sz, at |-> now, st |-> 0])
          /\ UNCHANGED <<V, last, F, aux>>
  /\ UNCHANGED <<now, srv, started, fin, pend, credit, ptr, phase, allow, deplog, cfg>>

(* ------------------------------------------------------------------ selection *)
Take(i) == /\ srv' = <<pool[i]>> /\ pool' = RemoveAt(pool, i) /\ started' = FALSE

\* per-flow FIFO: only the oldest waiting packet of a flow is eligible
HeadOfFlow(i) == \A j \in 1..(i - 1) : pool[j].f # pool[i].f
HeadOfClass(i) == \A j \in 1..(i - 1) : pool[j].c # pool[i].c
StampLess(a, b) == a.st < b.st \/ (a.st = b.st /\ a.at < b.at)

Eligible(i) ==
  CASE cfg.policy = "ANY" -> HeadOfFlow(i)
    [] cfg.policy = "SP"  -> HeadOfFlow(i) /\ \A j \in 1..Len(pool) : cfg.w[pool[j].f] <= cfg.w[pool[i].f]
    \* smallest stamp; on equal stamps the earlier arrival (the pool is kept in arrival order)
    [] cfg.policy \in {"WFQ", "VC"} -> /\ \A j \in 1..Len(pool) : ~StampLess(pool[j], pool[i])
                                       /\ \A j \in 1..(i - 1) : pool[j].st # pool[i].st
    [] OTHER -> FALSE

\* policies without scan state
Select ==
  /\ cfg.policy \notin RR3
  /\ srv = <<>> /\ pend = 0 /\ pool # <<>>
  /\ \E i \in 1..Len(pool) : Eligible(i) /\ Take(i)
  /\ UNCHANGED <<now, fin, cnt, byt, V, last, F, pend, aux, credit, ptr, phase, allow, deplog, cfg>>

Begin ==
  /\ srv # <<>> /\ ~started
  /\ started' = TRUE /\ fin' = now + cfg.K * srv[1].sz
  /\ UNCHANGED <<now, pool, srv, cnt, byt, V, last, F, pend, aux, credit, ptr, phase, allow, deplog, cfg>>

(* ------------------------------------------------------------------ round-robin family *)
Cur == cfg.order[ptr]                    \* class under the pointer
MinW == CHOOSE m \in {cfg.w[k] : k \in Classes} : \A k \in Classes : m <= cfg.w[k]
Quantum(k) == Div(cfg.unit * cfg.w[k], MinW)      \* cfg.unit * weight / min(weight)
\* idle -> scanning; where the scan resumes after an idle period is not fixed by the property
Wake == /\ cfg.policy \in RR3 /\ phase = "idle" /\ Total > 0
        /\ ptr' \in 1..Len(cfg.order) /\ phase' = "visit"
        /\ UNCHANGED <<now, pool, srv, started, fin, cnt, byt, V, last, F, pend, aux, credit, allow, deplog, cfg>>
\* arrive at a class: grant its per-visit allowance
Visit == /\ cfg.policy \in RR3 /\ phase = "visit"
         /\ credit' = IF cfg.policy = "DRR" /\ CountC(Cur) > 0 THEN [credit EXCEPT ![Cur] = @ + Quantum(Cur)] ELSE credit
         /\ allow' = IF cfg.policy = "WRR" THEN cfg.w[Cur] ELSE 1
         /\ phase' = "serve"
         /\ UNCHANGED <<now, pool, srv, started, fin, cnt, byt, V, last, F, pend, aux, ptr, deplog, cfg>>
\* send the head packet of the class if the allowance covers it, otherwise move on
Serve == /\ cfg.policy \in RR3 /\ phase = "serve" /\ srv = <<>>
         /\ LET S == WaitingOfClass(Cur)
                ok == /\ S # {}
                      /\ IF cfg.policy = "DRR" THEN credit[Cur] > 0 /\ pool[FirstOf(S)].sz <= credit[Cur]
                         ELSE allow > 0
            IN IF ok THEN /\ Take(FirstOf(S)) /\ phase' = "tx"
                          /\ allow' = IF cfg.policy = "DRR" THEN allow ELSE allow - 1
                     ELSE /\ phase' = "next" /\ UNCHANGED <<pool, srv, started, allow>>
         /\ UNCHANGED <<now, fin, cnt, byt, V, last, F, pend, aux, credit, ptr, deplog, cfg>>
\* after a transmission: DRR subtracts the size and forgets the credit when the class has emptied
Debit == /\ cfg.policy \in RR3 /\ phase = "debit"
         /\ credit' = IF cfg.policy # "DRR" THEN credit
                      ELSE [credit EXCEPT ![Cur] = IF CountC(Cur) = 0 THEN 0 ELSE @ - deplog[Len(deplog)].sz]
         /\ phase' = "serve"
         /\ UNCHANGED <<now, pool, srv, started, fin, cnt, byt, V, last, F, pend, aux, ptr, allow, deplog, cfg>>
NextC == /\ cfg.policy \in RR3 /\ phase = "next"
         /\ IF ptr < Len(cfg.order) THEN ptr' = ptr + 1 /\ phase' = "visit"
            ELSE /\ ptr' = 1 /\ phase' = IF Total > 0 THEN "visit" ELSE "idle"
         /\ UNCHANGED <<now, pool, srv, started, fin, cnt, byt, V, last, F, pend, aux, credit, allow, deplog, cfg>>

(* ------------------------------------------------------------------ departure *)
Depart ==
  /\ srv # <<>> /\ started /\ fin = now
  /\ LET p == srv[1] IN
     /\ cnt' = [cnt EXCEPT ![p.f] = @ - 1] /\ byt' = [byt EXCEPT ![p.f] = @ - p.sz]
     /\ deplog' = Append(deplog, [id |-> p.id, f |-> p.f, c |-> p.c, sz |-> p.sz, at |-> p.at, t |-> now])
     /\ pend' = IF cfg.policy = "WFQ" THEN p.c ELSE 0
  /\ srv' = <<>> /\ started' = FALSE
  /\ phase' = IF cfg.policy \in RR3 THEN "debit" ELSE phase
  /\ UNCHANGED <<now, pool, fin, V, last, F, aux, credit, ptr, allow, cfg>>

\* WFQ: bring V up to date after a departure; reset when the scheduler has emptied
PostDepart ==
  /\ cfg.policy = "WFQ" /\ pend # 0
  /\ LET V1 == V + Div(now - last, SumW(Active))
         left == {k \in Classes : CountC(k) > 0}
     IN IF left = {} THEN V' = 0 /\ F' = ZeroC ELSE V' = V1 /\ F' = F
  /\ last' = now /\ pend' = 0
  /\ UNCHANGED <<now, pool, srv, started, fin, cnt, byt, aux, credit, ptr, phase, allow, deplog, cfg>>

(* ------------------------------------------------------------------ time *)
Urgent ==
  \/ srv # <<>> /\ ~started
  \/ srv # <<>> /\ started /\ fin = now
  \/ pend # 0
  \/ cfg.policy \notin RR3 /\ srv = <<>> /\ pool # <<>>
  \/ cfg.policy \in RR3 /\ ~((phase = "idle" /\ Total = 0) \/ (phase = "tx" /\ srv # <<>>))
TickTo(t) == /\ t > now /\ ~Urgent /\ (srv # <<>> => t <= fin) /\ now' = t
             /\ UNCHANGED <<pool, srv, started, fin, cnt, byt, V, last, F, pend, aux, credit, ptr, phase, allow, deplog, cfg>>

Silent == Select \/ Begin \/ PostDepart \/ Wake \/ Visit \/ Serve \/ Debit \/ NextC

(* ------------------------------------------------------------------ monitor samples *)
\* a Monitor reports, per flow, the packets waiting or in transmission, with the packet in service
\* included or excluded as requested
SampleOK(f, incl, n, b) ==
  LET s == IF srv # <<>> /\ started /\ srv[1].f = f THEN 1 ELSE 0
      z == IF s = 1 THEN srv[1].sz ELSE 0
  IN IF incl = 1 THEN n = cnt[f] /\ b = byt[f] ELSE n = cnt[f] - s /\ b = byt[f] - z

(* ------------------------------------------------------------------ properties *)
CountersExact ==
  \A f \in Flows :
    /\ cnt[f] = Cardinality(WaitingOfFlow(f)) + (IF srv # <<>> /\ srv[1].f = f THEN 1 ELSE 0)
    /\ byt[f] = (LET RECURSIVE S(_) S(i) == IF i = 0 THEN 0 ELSE (IF pool[i].f = f THEN pool[i].sz ELSE 0) + S(i - 1) IN S(Len(pool)))
                + (IF srv # <<>> /\ srv[1].f = f THEN srv[1].sz ELSE 0)
PerFlowFifo == \A i, j \in 1..Len(deplog) : (i < j /\ deplog[i].f = deplog[j].f) => deplog[i].id < deplog[j].id
EachOnce == \A i, j \in 1..Len(deplog) : i # j => deplog[i].id # deplog[j].id
\* work conservation, non-preemption and the exact transmission time in one history law: the k-th transmission
\* starts when the (k-1)-th has ended and k packets have arrived, whichever is later, and lasts K*size
StartLaw(arrtimes) ==
  \A k \in 1..Len(deplog) :
    deplog[k].t = Max(IF k = 1 THEN 0 ELSE deplog[k - 1].t, arrtimes[k]) + cfg.K * deplog[k].sz
CreditRange(lmax) == cfg.policy = "DRR" => \A k \in Classes : credit[k] >= 0 /\ credit[k] < Quantum(k) + lmax
=============================================================================
