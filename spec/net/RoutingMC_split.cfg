SPECIFICATION FairSpec
CONSTANTS
  MaxFlow = 0
  MaxOuts = 3
  MaxPuts = 1
  MaxReconf = 0
  Tier = "split"
CONSTRAINT Emit
INVARIANT SplitOriginalFirst
INVARIANT SplitCopiesSeparate
INVARIANT SplitCopyFaithful
INVARIANT SplitAllConnected
INVARIANT Independent
PROPERTY OneAtATime
PROPERTY Completes
INVARIANT AllWellFormed
INVARIANT NeverRaisesUnprovoked
CHECK_DEADLOCK FALSE
