SPECIFICATION FairSpec
CONSTANTS
  MaxPk = 3
  MaxT = 1
  Delays = {0, 1, 2}
  Tier = "live"
  Early = TRUE
INVARIANT NotBefore
INVARIANT InOrder
INVARIANT DeliveryLaw
INVARIANT NothingOverdue
INVARIANT ExactlyOnce
INVARIANT Accounted
INVARIANT LostNeverDelivered
INVARIANT OneLossDrawPerPacket
INVARIANT OneDelayDrawPerDelivered
PROPERTY NoNeedlessDelay
PROPERTY LostDelaysNobody
PROPERTY ThresholdRule
PROPERTY Drains
CHECK_DEADLOCK FALSE
