------------------------------ MODULE Routing ------------------------------
(***************************************************************************)
(* Where a packet handed to a routing element has to go -- property C18.   *)
(*                                                                         *)
(* One untimed state machine for all element kinds.  A put() is a small    *)
(* transaction: PutIn fixes the set of outputs that are owed the packet    *)
(* (the output relation Route, written from the property text), Deliver    *)
(* hands it to one owed output (in any order -- the property does not order *)
(* them), Return closes the transaction when nothing is owed any more.     *)
(* The configuration (table, outputs, end devices, default, hub population) *)
(* is state: Reconfigure steps between puts change it, and PutIn routes by *)
(* the configuration in force at that moment -- nothing is remembered.     *)
(* A delivery outside the owed set, a second delivery, a missing delivery  *)
(* or an exception on a valid input is simply not a behaviour.             *)
(*                                                                         *)
(* Packets are objects on a small heap: heap[1] is the object handed in,   *)
(* a copy is a NEW heap cell initialised from the packet as handed in      *)
(* (orig).  Modify changes one header field of ONE cell; that is all the   *)
(* specification needs to say for "a separate copy whose header fields can *)
(* be changed independently".                                              *)
(*                                                                         *)
(* Outputs are named <<class, index>>:                                     *)
(*   <<"o", i>> i-th regular output / switch port / splitter output (1..)  *)
(*   <<"d", 0>> the default output                                         *)
(*   <<"e", f>> the end device registered for flow f                       *)
(*   <<"p", i>> the port device of hub endpoint i                          *)
(*   <<"n", i>> hub endpoint i itself (handed over by the hub)             *)
(*   <<"v", i>> hub endpoint i, reached through its port device            *)
(***************************************************************************)
EXTENDS Integers, Sequences, FiniteSets, TLC

VARIABLES cfg,     \* the configuration of the element IN FORCE NOW (see below); changed only by Reconfigure steps
          phase,   \* "idle" | "busy" | "done" (put returned) | "failed" (put raised)
          cur,     \* the put in progress / last put: [f |-> flow, s |-> sender endpoint (hub; 0 = not attached), n |-> serial]
          heap,    \* sequence of header-field vectors, one per packet object of the current put
          orig,    \* header fields of the packet as handed in
          owed,    \* outputs that still have to receive the packet
          dl,      \* history of the current put: deliveries [oc, oi, obj, fl]
          via,     \* hub: <<endpoint, object>> pairs sitting in a port device
          boomed   \* a downstream device raised while taking the packet
rvars == <<cfg, phase, cur, heap, orig, owed, dl, via, boomed>>

(* cfg = [kind  |-> "flow" | "fib" | "simple" | "fair" | "hub" | "split" | "nsplit",                 *)
(*        nouts |-> number of outputs / ports / endpoints,                                           *)
(*        dflt  |-> 1 iff a default output exists,                                                   *)
(*        table |-> forwarding table, a sequence of <<flow, port>> (one per flow; an entry naming a   *)
(*                  port that does not exist (yet) is no usable entry),                              *)
(*        ends  |-> sequence of the flows that have a registered end device,                         *)
(*        pdev  |-> hub: pdev[i] = 1 iff endpoint i was attached with a port device,                  *)
(*        conn  |-> splitter: conn[i] = 1 iff output i is connected,                                 *)
(*        dictk |-> indices of the header fields that are dictionaries (a write adds an entry),      *)
(*        boomc, boomi |-> class/index of a downstream device that raises after taking the packet    *)
(*                         ("" / 0: none)]                                                           *)

Range(s) == {s[i] : i \in DOMAIN s}
DemuxKinds == {"flow", "fib", "simple", "fair"}
SplitKinds == {"split", "nsplit"}

WellFormed(c) ==
  /\ c.nouts >= 0 /\ c.dflt \in {0, 1}
  /\ \A i \in DOMAIN c.table : c.table[i][2] >= 1
  /\ \A i, j \in DOMAIN c.table : c.table[i][1] = c.table[j][1] => i = j
  /\ c.kind = "simple" => c.dflt = 0
  /\ c.kind = "hub" => Len(c.pdev) = c.nouts
  /\ c.kind \in SplitKinds => Len(c.conn) = c.nouts
  /\ c.kind = "split" => c.nouts = 2
  /\ c.kind = "nsplit" => c.nouts >= 2

(* ---------------- the output relation ---------------- *)
Ports(c, f) == {e[2] : e \in {x \in Range(c.table) : x[1] = f /\ x[2] \in 1..c.nouts}}
Default(c) == IF c.dflt = 1 THEN {<<"d", 0>>} ELSE {}
\* FlowDemux, SimplePacketSwitch: flow f to output f (counted from 0), else default, else nowhere
RouteFlow(c, f) == IF f >= 0 /\ f + 1 <= c.nouts THEN {<<"o", f + 1>>} ELSE Default(c)
\* FIBDemux, FairPacketSwitch: end device first, then the table (an empty table is a table), then default
RouteFib(c, f) == IF f \in Range(c.ends) THEN {<<"e", f>>}
                  ELSE IF Ports(c, f) # {} THEN {<<"o", p>> : p \in Ports(c, f)}
                  ELSE Default(c)
\* Hub: every attached endpoint but the sender, through the port device where one was given
RouteHub(c, s) == {<<IF c.pdev[i] = 1 THEN "p" ELSE "n", i>> : i \in (1..c.nouts) \ {s}}
\* Splitter / NSplitter: every connected output
RouteSplit(c) == {<<"o", i>> : i \in {j \in 1..c.nouts : c.conn[j] = 1}}

Route(c, f, s) ==
  IF c.kind \in {"flow", "simple"} THEN RouteFlow(c, f)
  ELSE IF c.kind \in {"fib", "fair"} THEN RouteFib(c, f)
  ELSE IF c.kind = "hub" THEN RouteHub(c, s)
  ELSE RouteSplit(c)

\* which object an output must be given: the one handed in, a fresh copy, or either
Ident(c, out) ==
  IF c.kind \in DemuxKinds THEN "same"
  ELSE IF c.kind \in SplitKinds THEN (IF out = <<"o", 1>> THEN "same" ELSE "copy")
  ELSE "any"

(* ---------------- the state machine ---------------- *)
InitWith(c) ==
  /\ cfg = c /\ phase = "idle"
  /\ cur = [f |-> 0, s |-> 0, n |-> 0]
  /\ heap = <<>> /\ orig = <<>> /\ owed = {} /\ dl = <<>> /\ via = {} /\ boomed = FALSE

PutIn(f, s, fl) ==
  /\ phase # "busy"
  /\ phase' = "busy"
  /\ cur' = [f |-> f, s |-> s, n |-> cur.n + 1]
  /\ heap' = <<fl>> /\ orig' = fl
  /\ owed' = Route(cfg, f, s)
  /\ dl' = <<>> /\ via' = {} /\ boomed' = FALSE
  /\ UNCHANGED cfg

\* hand the packet (object o) to an owed output
Deliver(out, o) ==
  /\ phase = "busy" /\ out \in owed
  /\ LET id == Ident(cfg, out) IN
       \/ /\ id \in {"same", "any"} /\ o = 1 /\ heap' = heap
       \/ /\ id \in {"copy", "any"} /\ o = Len(heap) + 1 /\ heap' = Append(heap, orig)
  /\ owed' = owed \ {out}
  /\ dl' = Append(dl, [oc |-> out[1], oi |-> out[2], obj |-> o, fl |-> heap'[o]])
  /\ via' = IF out[1] = "p" THEN via \cup {<<out[2], o>>} ELSE via
  /\ boomed' = (boomed \/ (out[1] = cfg.boomc /\ out[2] = cfg.boomi))
  /\ UNCHANGED <<cfg, phase, cur, orig>>

\* a hub port device passes what it was given on to its endpoint (the hub wired it that way)
PortForward(i, o) ==
  /\ phase = "busy" /\ <<i, o>> \in via
  /\ via' = via \ {<<i, o>>}
  /\ dl' = Append(dl, [oc |-> "v", oi |-> i, obj |-> o, fl |-> heap[o]])
  /\ UNCHANGED <<cfg, phase, cur, heap, orig, owed, boomed>>

\* somebody downstream rewrites header field k of object o (scalar: new value w; dictionary: adds entry w)
Modify(o, k, w) ==
  /\ phase # "idle" /\ o \in 1..Len(heap) /\ k \in 1..Len(heap[o])
  /\ heap' = [heap EXCEPT ![o][k] = IF k \in Range(cfg.dictk) THEN @ + w ELSE w]
  /\ UNCHANGED <<cfg, phase, cur, orig, owed, dl, via, boomed>>

Return ==
  /\ phase = "busy" /\ owed = {} /\ via = {}
  /\ phase' = "done"
  /\ UNCHANGED <<cfg, cur, heap, orig, owed, dl, via, boomed>>

\* the element may let an exception of a downstream device escape (and only that)
Raise ==
  /\ phase = "busy" /\ boomed
  /\ phase' = "failed"
  /\ UNCHANGED <<cfg, cur, heap, orig, owed, dl, via, boomed>>

(* ---------------- reconfiguration while the element is in use ---------------- *)
(* Between two puts the user may change the configuration through the public API.  Every put is     *)
(* routed by the configuration in force at that moment: PutIn reads cfg, nothing else is remembered. *)
Reconf(c) ==
  /\ phase # "busy"
  /\ cfg' = c
  /\ phase' = "idle" /\ heap' = <<>> /\ orig' = <<>> /\ owed' = {} /\ dl' = <<>> /\ via' = {} /\ boomed' = FALSE
  /\ UNCHANGED cur
Without(t, f) == SelectSeq(t, LAMBDA e : e[1] # f)
IsFib == cfg.kind \in {"fib", "fair"}
\* table[f] = p on the table object in use / del table[f] / a new table through the `fib` setter
SetEntry(f, p) == IsFib /\ p >= 1 /\ Reconf([cfg EXCEPT !.table = Append(Without(@, f), <<f, p>>)])
DelEntry(f) == IsFib /\ (\E e \in Range(cfg.table) : e[1] = f) /\ Reconf([cfg EXCEPT !.table = Without(@, f)])
ReplaceTable(t) == IsFib /\ Reconf([cfg EXCEPT !.table = t])
\* outs.append(device)
AppendOut == cfg.kind \in {"flow", "fib"} /\ Reconf([cfg EXCEPT !.nouts = @ + 1])
\* ends[f] = device / del ends[f]
SetEnd(f) == IsFib /\ f \notin Range(cfg.ends) /\ Reconf([cfg EXCEPT !.ends = Append(@, f)])
DelEnd(f) == IsFib /\ f \in Range(cfg.ends) /\ Reconf([cfg EXCEPT !.ends = SelectSeq(@, LAMBDA x : x # f)])
\* default_out = device / None
SetDefault(d) == cfg.kind \in {"flow", "fib", "fair"} /\ d \in {0, 1} /\ Reconf([cfg EXCEPT !.dflt = d])
\* hub.add_endpoint(endpoint, port device or None)
AddEndpoint(pd) == cfg.kind = "hub" /\ pd \in {0, 1}
                   /\ Reconf([cfg EXCEPT !.nouts = @ + 1, !.pdev = Append(@, pd)])

(* ---------------- the clauses of C18, phrased on the delivery history ---------------- *)
Dls == Range(dl)
To(oc, oi) == {i \in DOMAIN dl : dl[i].oc = oc /\ dl[i].oi = oi}
NDl == Len(dl)
Done == phase = "done"
IsDemux == cfg.kind \in DemuxKinds
F == cur.f
InTable == \E e \in Range(cfg.table) : e[1] = F /\ e[2] \in 1..cfg.nouts     \* a usable entry
HasEnd == F \in Range(cfg.ends)

\* every packet reaches at most one output, and it is the packet itself
DemuxAtMostOne == IsDemux => NDl <= 1
DemuxSameObject == IsDemux => \A d \in Dls : d.obj = 1 /\ d.fl = orig
\* FlowDemux / SimplePacketSwitch
FlowRule == (Done /\ cfg.kind \in {"flow", "simple"}) =>
   IF F + 1 <= cfg.nouts THEN NDl = 1 /\ dl[1].oc = "o" /\ dl[1].oi = F + 1
   ELSE IF cfg.dflt = 1 THEN NDl = 1 /\ dl[1].oc = "d"
   ELSE NDl = 0
\* FIBDemux / FairPacketSwitch
EndPrecedence == (Done /\ cfg.kind \in {"fib", "fair"} /\ HasEnd) => NDl = 1 /\ dl[1].oc = "e" /\ dl[1].oi = F
TableRule == (Done /\ cfg.kind \in {"fib", "fair"} /\ ~HasEnd /\ InTable) =>
   NDl = 1 /\ dl[1].oc = "o" /\ <<F, dl[1].oi>> \in Range(cfg.table)
UnknownToDefault == (Done /\ cfg.kind \in {"fib", "fair"} /\ ~HasEnd /\ ~InTable /\ cfg.dflt = 1) =>
   NDl = 1 /\ dl[1].oc = "d"
NoneWithoutDefault == (Done /\ cfg.kind \in {"fib", "fair"} /\ ~HasEnd /\ ~InTable /\ cfg.dflt = 0) => NDl = 0
\* an empty table is a table like any other: the put completes
EmptyTableValid == (cfg.kind \in {"fib", "fair"} /\ cfg.table = <<>> /\ cfg.boomc = "") => phase # "failed"
NeverRaisesUnprovoked == phase = "failed" => boomed

\* Hub
HubAllButSender == (Done /\ cfg.kind = "hub") =>
   \A i \in 1..cfg.nouts :
      Cardinality(To("n", i)) + Cardinality(To("v", i)) = (IF i = cur.s THEN 0 ELSE 1)
HubThroughPort == cfg.kind = "hub" =>
   \A i \in 1..cfg.nouts :
      IF cfg.pdev[i] = 1
      THEN /\ To("n", i) = {}
           /\ Cardinality(To("p", i)) <= 1
           /\ \A j \in To("v", i) : \E h \in To("p", i) : h < j /\ dl[h].obj = dl[j].obj
      ELSE To("p", i) = {} /\ To("v", i) = {}
HubSamePacket == cfg.kind = "hub" => \A d \in Dls : d.fl = orig

\* Splitter / NSplitter
IsSplit == cfg.kind \in SplitKinds
SplitOriginalFirst == IsSplit => \A d \in Dls : (d.oi = 1) <=> (d.obj = 1)
SplitCopiesSeparate == IsSplit => \A i, j \in DOMAIN dl : dl[i].obj = dl[j].obj => i = j
SplitCopyFaithful == IsSplit => \A d \in Dls : d.obj # 1 => d.fl = orig
SplitAllConnected == (Done /\ IsSplit) =>
   \A i \in 1..cfg.nouts : Cardinality(To("o", i)) = cfg.conn[i]
=============================================================================
