------------------------------ MODULE FatTree ------------------------------
(***************************************************************************)
(* The k-ary fat tree, its flows and its forwarding tables -- property C18.*)
(*                                                                         *)
(* Part 1: structure predicates over an arbitrary labelled graph           *)
(*   G = [k, n, layer, typ, pod, edges, hosts] (nodes 1..n; layer 0 core,  *)
(*   1 aggregation, 2 edge, 3 leaf; typ 0 switch, 1 host; pod -1 = none).  *)
(*   IsFatTree(G) is the textbook definition (Al-Fares et al.), stated     *)
(*   without reference to node numbering.                                  *)
(* Part 2: flows = [fid, src, dst, path]; hop distance by breadth-first    *)
(*   search; a flow's path must be a shortest path between distinct hosts. *)
(* Part 3: the forwarding tables as a transition system: a packet of class *)
(*   c sitting at node u moves to port_to_nexthop[u][flow_to_port[u][c]].  *)
(*   Walk variables are declared here; FatTreeCheck supplies the data.     *)
(* (The simulated network as a transition system over packets is in        *)
(*  FatTreeNet.tla.)                                                       *)
(***************************************************************************)
EXTENDS Integers, Sequences, FiniteSets, TLC

Range(s) == {s[i] : i \in DOMAIN s}
Rev(s) == [i \in 1..Len(s) |-> s[Len(s) + 1 - i]]

(* ------------------------------ Part 1 ------------------------------ *)
Nodes(G) == 1..G.n
Adj(G) == {<<e[1], e[2]>> : e \in Range(G.edges)} \cup {<<e[2], e[1]>> : e \in Range(G.edges)}
NbrFn(G) == LET adj == Adj(G) IN [u \in Nodes(G) |-> {v \in Nodes(G) : <<u, v>> \in adj}]
Layer(G, x) == {u \in Nodes(G) : G.layer[u] = x}
Core(G) == Layer(G, 0)
Aggr(G) == Layer(G, 1)
Edge(G) == Layer(G, 2)
Leaf(G) == Layer(G, 3)
Half(G) == G.k \div 2
Pods(G) == {G.pod[u] : u \in Aggr(G) \cup Edge(G)}
InPod(G, S, p) == {u \in S : G.pod[u] = p}

GraphSane(G) ==
  /\ G.k >= 2 /\ G.k % 2 = 0
  /\ Len(G.layer) = G.n /\ Len(G.typ) = G.n /\ Len(G.pod) = G.n
  /\ \A e \in Range(G.edges) : e[1] \in Nodes(G) /\ e[2] \in Nodes(G) /\ e[1] # e[2]
  /\ \A i, j \in DOMAIN G.edges :
        ({G.edges[i][1], G.edges[i][2]} = {G.edges[j][1], G.edges[j][2]}) => i = j      \* no parallel links
  /\ \A u \in Nodes(G) : G.layer[u] \in 0..3 /\ (G.typ[u] = 1 <=> G.layer[u] = 3)
  /\ Range(G.hosts) = Leaf(G)
LayerSizes(G) ==
  /\ Cardinality(Core(G)) = Half(G) * Half(G)
  /\ Cardinality(Aggr(G)) = (G.k * G.k) \div 2
  /\ Cardinality(Edge(G)) = (G.k * G.k) \div 2
  /\ Cardinality(Leaf(G)) = (G.k * G.k * G.k) \div 4
SwitchDegree(G) == LET nb == NbrFn(G) IN
  /\ \A u \in Nodes(G) \ Leaf(G) : Cardinality(nb[u]) = G.k
  /\ \A h \in Leaf(G) : Cardinality(nb[h]) = 1
\* links only between adjacent layers
Layered(G) == \A e \in Range(G.edges) :
   {G.layer[e[1]], G.layer[e[2]]} \in {{0, 1}, {1, 2}, {2, 3}}
HostsPerEdge(G) == LET nb == NbrFn(G) IN
  /\ \A s \in Edge(G) : Cardinality(nb[s] \cap Leaf(G)) = Half(G)
  /\ \A h \in Leaf(G) : \A s \in nb[h] : G.pod[h] = G.pod[s]          \* a host carries the pod of its switch
\* k pods of k/2 aggregation and k/2 edge switches, complete bipartite inside a pod, nothing across pods
PodStructure(G) == LET nb == NbrFn(G) IN
  /\ Cardinality(Pods(G)) = G.k
  /\ \A p \in Pods(G) : /\ Cardinality(InPod(G, Aggr(G), p)) = Half(G)
                        /\ Cardinality(InPod(G, Edge(G), p)) = Half(G)
  /\ \A a \in Aggr(G) : nb[a] \cap Edge(G) = InPod(G, Edge(G), G.pod[a])
\* every core switch reaches every pod exactly once, and core switches that share an aggregation
\* switch in one pod share all of them (= "the same position in every pod")
CoreStructure(G) == LET nb == NbrFn(G) IN
  /\ \A c \in Core(G) : \A p \in Pods(G) : Cardinality(InPod(G, nb[c], p)) = 1
  /\ \A a \in Aggr(G) : Cardinality(nb[a] \cap Core(G)) = Half(G)
  /\ \A c1, c2 \in Core(G) : (nb[c1] \cap nb[c2] # {}) => nb[c1] = nb[c2]
IsFatTree(G) == /\ GraphSane(G) /\ LayerSizes(G) /\ SwitchDegree(G) /\ Layered(G)
                /\ HostsPerEdge(G) /\ PodStructure(G) /\ CoreStructure(G)

(* ------------------------------ Part 2 ------------------------------ *)
RECURSIVE Hop(_, _, _, _, _)
\* breadth-first search: number of hops from the frontier (at distance d) to t, -1 if unreachable
Hop(nb, frontier, seen, t, d) ==
  IF t \in frontier THEN d
  ELSE IF frontier = {} THEN -1
  ELSE LET nxt == (UNION {nb[u] : u \in frontier}) \ seen
       IN Hop(nb, nxt, seen \cup nxt, t, d + 1)
Dist(G, s, t) == Hop(NbrFn(G), {s}, {s}, t, 0)

IsPath(G, p) == LET adj == Adj(G) IN
  /\ Len(p) >= 1 /\ \A i \in DOMAIN p : p[i] \in Nodes(G)
  /\ \A i \in 1..(Len(p) - 1) : <<p[i], p[i + 1]>> \in adj
FlowOK(G, fw) ==
  /\ fw.src # fw.dst
  /\ fw.src \in Leaf(G) /\ fw.dst \in Leaf(G)
  /\ IsPath(G, fw.path) /\ fw.path[1] = fw.src /\ fw.path[Len(fw.path)] = fw.dst
  /\ Len(fw.path) - 1 = Dist(G, fw.src, fw.dst)
FlowsOK(G, fs) ==
  /\ \A i \in DOMAIN fs : FlowOK(G, fs[i])
  /\ \A i, j \in DOMAIN fs : fs[i].fid = fs[j].fid => i = j

(* ------------------------------ Part 3 ------------------------------ *)
(* T = [f2p |-> seq of <<node, class, port>>, f2n |-> seq of <<node, class, nexthop>>,                  *)
(*      p2n |-> seq of <<node, port, nexthop>>]  (ports counted from 0, as the switches do)           *)
AckOffset == 10000          \* class of the acknowledgements of flow f
PortsAt(T, u, c) == {e[3] : e \in {x \in Range(T.f2p) : x[1] = u /\ x[2] = c}}
NextVia(T, u, p) == {e[3] : e \in {x \in Range(T.p2n) : x[1] = u /\ x[2] = p}}
NextHopAt(T, u, c) == {e[3] : e \in {x \in Range(T.f2n) : x[1] = u /\ x[2] = c}}
\* the ports of a node number its neighbours: 0 .. degree-1, one port per neighbour
PortsOK(G, T) == LET nb == NbrFn(G) IN
  \A u \in Nodes(G) :
     LET mine == {x \in Range(T.p2n) : x[1] = u} IN
       /\ {x[2] : x \in mine} = 0..(Cardinality(nb[u]) - 1)
       /\ {x[3] : x \in mine} = nb[u]
       /\ Cardinality(mine) = Cardinality(nb[u])

VARIABLES cid,    \* which exported case
          fl,     \* which flow of the case (0: the state in which structure and flows are judged)
          dir,    \* "fwd" data class from source to destination, "rev" acknowledgement class back
          at,     \* node the packet sits at
          steps   \* hops made
wvars == <<cid, fl, dir, at, steps>>

WalkPath(fw, d) == IF d = "fwd" THEN fw.path ELSE Rev(fw.path)
WalkClass(fw, d) == IF d = "fwd" THEN fw.fid ELSE fw.fid + AckOffset
WalkStep(T, fw) ==
  /\ fl # 0
  /\ steps <= Len(fw.path)                         \* (a walk that left the path is not followed for ever)
  /\ at # WalkPath(fw, dir)[Len(fw.path)]
  /\ \E p \in PortsAt(T, at, WalkClass(fw, dir)) : \E nh \in NextVia(T, at, p) : at' = nh
  /\ steps' = steps + 1
  /\ UNCHANGED <<cid, fl, dir>>
\* hop by hop along exactly the flow's path
OnPathAt(fw) == steps + 1 <= Len(fw.path) /\ at = WalkPath(fw, dir)[steps + 1]
NotStuckAt(T, fw) == at # WalkPath(fw, dir)[Len(fw.path)] =>
   \E p \in PortsAt(T, at, WalkClass(fw, dir)) : NextVia(T, at, p) # {}
\* the recorded next hop is the neighbour behind the recorded port
NextHopAgreesAt(T, fw) == \A p \in PortsAt(T, at, WalkClass(fw, dir)) :
   NextHopAt(T, at, WalkClass(fw, dir)) = NextVia(T, at, p)
ArrivedAt(fw) == at = WalkPath(fw, dir)[Len(fw.path)]

=============================================================================
