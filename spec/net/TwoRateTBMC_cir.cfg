SPECIFICATION Spec
CONSTANTS
  MaxPk = 3
  MaxT = 5
  Sizes = {1, 2, 3, 5}
  Gaps = {1, 4}
  Tier = "cir"
CONSTRAINT Emit
INVARIANT ShapeConformance
INVARIANT GreenConformsToCIR
INVARIANT ColourRule
INVARIANT WaitRule
INVARIANT ShapeLaw
INVARIANT HeadLaw
INVARIANT Fifo
INVARIANT Lossless
INVARIANT NonNegative
INVARIANT Capped
PROPERTY TimeMonotone
PROPERTY EarliestRelease
PROPERTY NeverEarly
PROPERTY CommitNeverRaised
CHECK_DEADLOCK FALSE
