SPECIFICATION Spec
CONSTANTS
  MaxPk = 4
  MaxT = 4
  Sizes = {1, 2, 3}
  Tier = "tail"
CONSTRAINT Emit
INVARIANT ByteSizeIsHeld
INVARIANT OccupancyBound
INVARIANT CounterIdentity
INVARIANT NeverDropsUnlimited
INVARIANT Fifo
INVARIANT DepartureLaw
PROPERTY TimeMonotone
PROPERTY NoNeedlessDelay
CHECK_DEADLOCK FALSE
