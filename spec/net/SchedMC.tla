------------------------------ MODULE SchedMC ------------------------------
(* Closed system for exhaustive checking of Sched: an environment handing in up to MaxPk packets of    *)
(* arbitrary flows and sizes at arbitrary instants; every complete workload is emitted for replay on   *)
(* the real schedulers.  Each clause of C12-C15 is its own formula, phrased over histories (departure  *)
(* log, selection log) and therefore independently of the selection mechanism in Sched.tla.            *)
EXTENDS Sched, Json
CONSTANTS MaxPk, MaxT, Sizes, Gaps, Tier, Static
VARIABLES arrlog,     \* history: the workload [t, f, sz]
          sellog,     \* history: one record per service start
          dD, dlo, dhi, span,  \* DRR fairness tracker for classes 1 and 2 over the current joint-backlog period
          wasIdle     \* the round-robin scan has been idle since the last service start
vars == <<svars, arrlog, sellog, dD, dlo, dhi, span, wasIdle>>

C(pol, k, nf, nc, f2c, w, order, unit) ==
  [policy |-> pol, K |-> k, nf |-> nf, nc |-> nc, f2c |-> f2c, w |-> w, order |-> order, unit |-> unit]
Cfgs ==
  CASE Tier = "ANY" -> {C("ANY", k, 2, 2, <<1, 2>>, <<1, 1>>, <<1, 2>>, 1) : k \in {1, 2}}
    [] Tier = "SP"  -> {C("SP", 1, 2, 2, <<1, 2>>, w, <<1, 2>>, 1) : w \in {<<1, 2>>, <<2, 1>>, <<2, 2>>}}
                       \cup {C("SP", 1, 3, 3, <<1, 2, 3>>, <<2, 3, 1>>, <<1, 2, 3>>, 1)}
    [] Tier = "WFQ" -> {C("WFQ", 1, 2, 2, <<1, 2>>, <<1, 1>>, <<1, 2>>, 2),
                        C("WFQ", 1, 2, 2, <<1, 2>>, <<1, 2>>, <<1, 2>>, 6),
                        C("WFQ", 1, 3, 2, <<1, 1, 2>>, <<1, 1>>, <<1, 2>>, 2)}
    [] Tier = "VC"  -> {C("VC", 1, 2, 2, <<1, 2>>, w, <<1, 2>>, 1) : w \in {<<1, 2>>, <<2, 2>>, <<3, 1>>}}
                       \cup {C("VC", 1, 3, 2, <<1, 2, 2>>, <<1, 2>>, <<1, 2>>, 1)}
    [] Tier = "DRR" -> {C("DRR", 1, 2, 2, <<1, 2>>, w, o, 3) : w \in {<<1, 1>>, <<1, 2>>}, o \in {<<1, 2>>, <<2, 1>>}}
                       \cup {C("DRR", 1, 3, 2, <<1, 2, 2>>, <<1, 1>>, <<1, 2>>, 3)}
    [] Tier = "RR"  -> {C("RR", 1, 2, 2, <<1, 2>>, <<1, 1>>, o, 1) : o \in {<<1, 2>>, <<2, 1>>}}
                       \cup {C("RR", 1, 3, 3, <<1, 2, 3>>, <<1, 1, 1>>, <<2, 3, 1>>, 1)}
    [] Tier = "WRR" -> {C("WRR", 1, 2, 2, <<1, 2>>, w, <<1, 2>>, 1) : w \in {<<1, 2>>, <<2, 1>>, <<2, 2>>}}
                       \cup {C("WRR", 1, 3, 3, <<1, 2, 3>>, <<1, 2, 1>>, <<3, 1, 2>>, 1)}
Step == IF cfg.policy = "WFQ" THEN cfg.unit ELSE 1
Lmax == Step * (CHOOSE m \in Sizes : \A s \in Sizes : s <= m)

Init == /\ \E c \in Cfgs : InitWith(c)
        /\ arrlog = <<>> /\ sellog = <<>> /\ dD = 0 /\ dlo = 0 /\ dhi = 0 /\ span = 0 /\ wasIdle = TRUE

Hist == UNCHANGED <<arrlog, sellog, dD, dlo, dhi, span, wasIdle>>
Closed == Len(arrlog) = MaxPk
EnvArrive ==
  /\ ~Closed /\ now <= MaxT
  /\ \E f \in Flows, s \in Sizes :
       /\ Arrive(Len(arrlog) + 1, f, s * Step)
       /\ arrlog' = Append(arrlog, [t |-> now, f |-> f, sz |-> s * Step])
  /\ UNCHANGED <<sellog, dD, dlo, dhi, span, wasIdle>>
EnvTick ==
  /\ (now < MaxT \/ srv # <<>>)
  /\ \E t \in {now + g * Step * cfg.K : g \in Gaps} \cup {fin} : TickTo(t)
  /\ Hist
\* a service start: remember what was waiting
SelRec == [idle |-> wasIdle, t |-> now, id |-> srv'[1].id, f |-> srv'[1].f, c |-> srv'[1].c, st |-> srv'[1].st, at |-> srv'[1].at,
           wait |-> {[id |-> pool'[j].id, f |-> pool'[j].f, c |-> pool'[j].c, st |-> pool'[j].st, at |-> pool'[j].at] : j \in 1..Len(pool')}]
DoSelect == /\ (Static => Closed) /\ (Select \/ Serve)
            /\ IF srv' # <<>> /\ srv = <<>> THEN sellog' = Append(sellog, SelRec) /\ wasIdle' = FALSE
                                          ELSE UNCHANGED <<sellog, wasIdle>>
            /\ UNCHANGED <<arrlog, dD, dlo, dhi, span>>
DoBegin == Begin /\ Hist
DoScan == /\ (Wake \/ Visit \/ Debit \/ NextC \/ PostDepart) /\ (Static => Closed)
          /\ wasIdle' = (wasIdle \/ phase' = "idle")
          /\ UNCHANGED <<arrlog, sellog, dD, dlo, dhi, span>>
Q(k) == Quantum(k)
DoDepart ==
  /\ Depart
  /\ UNCHANGED <<arrlog, sellog, wasIdle>>
  /\ IF cfg.policy = "DRR" /\ cfg.nc >= 2 /\ CountC(1) > 0 /\ CountC(2) > 0 /\ srv[1].c \in {1, 2}
     THEN LET d == IF srv[1].c = 1 THEN dD + srv[1].sz * Q(2) ELSE dD - srv[1].sz * Q(1)
              lo == IF d < dlo THEN d ELSE dlo
              hi == IF d > dhi THEN d ELSE dhi
              over == (IF srv[1].c = 1 THEN WaitingOfClass(1) ELSE WaitingOfClass(2)) = {}
          IN /\ span' = IF hi - lo > span THEN hi - lo ELSE span
             /\ IF over THEN dD' = 0 /\ dlo' = 0 /\ dhi' = 0 ELSE dD' = d /\ dlo' = lo /\ dhi' = hi
     ELSE /\ UNCHANGED span /\ dD' = 0 /\ dlo' = 0 /\ dhi' = 0
Next == EnvArrive \/ EnvTick \/ DoSelect \/ DoBegin \/ DoScan \/ DoDepart
Spec == Init /\ [][Next]_vars

Quiescent == pool = <<>> /\ srv = <<>> /\ ~Urgent
Emit == (Quiescent /\ Len(arrlog) >= 1 /\ (Closed \/ now >= MaxT)) =>
          PrintT(<<"EMIT", ToJson([cfg |-> cfg, arr |-> arrlog])>>)

(* ---------------- C12 ---------------- *)
ArrTimes == [k \in 1..Len(arrlog) |-> arrlog[k].t]
WorkConservingRateExact == Static \/ StartLaw(ArrTimes)
TimeMonotone == [][now' >= now]_vars
NeverIdleWithBacklog == [][now' > now => ~Urgent]_vars
OneAtATime == Len(srv) <= 1
AllServed == Quiescent => Len(deplog) = Len(arrlog)

(* ---------------- C13 ---------------- *)
StrictAtStart == cfg.policy = "SP" =>
  \A k \in 1..Len(sellog) : \A p \in sellog[k].wait : cfg.w[p.f] <= cfg.w[sellog[k].f]

(* ---------------- C14 ---------------- *)
StampOrder == cfg.policy \in {"WFQ", "VC"} =>
  \A k \in 1..Len(sellog) : \A p \in sellog[k].wait :
     sellog[k].st < p.st \/ (sellog[k].st = p.st /\ sellog[k].id < p.id)
\* completed bytes per class
RECURSIVE SentUpTo(_, _)
SentUpTo(k, n) == IF n = 0 THEN 0 ELSE (IF deplog[n].c = k THEN deplog[n].sz ELSE 0) + SentUpTo(k, n - 1)
Sent(k) == SentUpTo(k, Len(deplog))
Abs(x) == IF x < 0 THEN -x ELSE x
\* static backlog: normalised service of two still-backlogged classes differs by at most one maximum packet each
WfqStaticFairness == (cfg.policy = "WFQ" /\ Static) =>
  \A i, j \in Classes : (i # j /\ WaitingOfClass(i) # {} /\ WaitingOfClass(j) # {}) =>
     Abs(Sent(i) * cfg.w[j] - Sent(j) * cfg.w[i]) <= Lmax * (cfg.w[i] + cfg.w[j])

(* ---------------- C15 ---------------- *)
DrrCreditRange == CreditRange(Lmax)
DrrFairness == (cfg.policy = "DRR" /\ cfg.nc >= 2) => span < 4 * Q(1) * Q(2) + 3 * Lmax * (Q(1) + Q(2))
\* RR: a class is served twice in a row only when nobody else was waiting at the second start (a packet that
\* arrives at the very instant of that start may have been missed by the pointer, which had already passed)
RrOnePerVisit == cfg.policy = "RR" =>
  \A k \in 1..(Len(sellog) - 1) :
     (sellog[k].c = sellog[k + 1].c /\ ~sellog[k + 1].idle) =>
        \A p \in sellog[k + 1].wait : p.c = sellog[k].c \/ p.at = sellog[k + 1].t
\* WRR: in any run of weight + 1 consecutive services of one class, one of the later services starts a new visit:
\* at its start no other class had a packet that had arrived before that instant (the pointer went round past empty
\* classes), or the scheduler had been idle
WrrAllowance == cfg.policy = "WRR" =>
  \A k \in 1..Len(sellog) :
    LET c == sellog[k].c  n == cfg.w[c] IN
      (k > n /\ \A m \in (k - n)..k : sellog[m].c = c) =>
         \E m \in (k - n + 1)..k :
            sellog[m].idle \/ \A p \in sellog[m].wait : p.c = c \/ p.at = sellog[m].t
\* cyclic order: between two consecutive services the pointer never skips a class that had a packet waiting
\* at the later start (checked for two-class configurations: serving c twice with the other class waiting is
\* only allowed within the visit's allowance, covered above)
=============================================================================
