SPECIFICATION Spec
CONSTANTS
  Topo = "chain"
  MaxPk = 4
  Flows = {1, 2}
CONSTRAINT Emit1
INVARIANT Accounted
INVARIANT DropsOnlyByRule
INVARIANT PerFlowFifo
INVARIANT OutWasIn
INVARIANT NoInvention
INVARIANT NoDuplication
PROPERTY Drains
PROPERTY EndsOnlyWhenDrained
CHECK_DEADLOCK FALSE
