------------------------------ MODULE Conserve ------------------------------
(***************************************************************************)
(* Packet conservation through network elements and pipelines -- C08.      *)
(*                                                                         *)
(* A network is a frozen directed graph of elements (cfg).  Every element  *)
(* has a bag `held` of the packets it has been handed and has neither      *)
(* passed on nor discarded, kept in entry order.  A packet is an identity  *)
(* `o` (one per object; only a splitter may create new ones, for its       *)
(* outputs >= 2) together with the snapshot `fl` of its identifying fields *)
(* <<id, flow, source, size, creation time, payload>> (fl[2] is the flow). *)
(*                                                                         *)
(* What may happen to a held packet is exactly what the property lists:    *)
(*   Forward  -- handed to a downstream neighbour: the very same identity, *)
(*               fields unchanged, and only if no packet of the same flow  *)
(*               that entered this element earlier is still held (packets  *)
(*               of one flow leave in the order they entered);             *)
(*   SplitOut -- a splitter gives the original to its first output and a   *)
(*               fresh identity with equal fields to every other output;   *)
(*   ArrivalDrop -- tail / RED drop of the packet that has just arrived,   *)
(*               only at a port, RED port or switch, and it is counted;    *)
(*   LossDrop -- loss on a wire that has a loss rate (ForwardPastLost and  *)
(*               LoseRest are LossDrops folded into the step that reveals  *)
(*               them, for trace validation);                              *)
(*   RouteDrop -- a demultiplexer / switch that has no route for the flow. *)
(* Nothing else removes a packet and nothing else creates one (Emit, by a  *)
(* source).  The model is untimed: C08 says nothing about when.            *)
(*                                                                         *)
(* cfg = [kind |-> sequence of element kinds,                              *)
(*        succ |-> per element the sequence of downstream elements (for a  *)
(*                 splitter the order of its outputs),                     *)
(*        nor  |-> per element the sequence of flows it has no route for,  *)
(*        loss |-> per element <<pn, pd>>: loss rate pn/pd of a wire]      *)
(* kinds: "src" "sink" "port" "red" "wire" "tb" "trtb" "sched" "switch"     *)
(*        "demux" "split"                                                  *)
(***************************************************************************)
EXTENDS Naturals, Integers, Sequences, FiniteSets, TLC

VARIABLES held,     \* element -> sequence of [o, fl, was, pend] in entry order (a sink keeps what it was given)
          nin,      \* element -> packets handed in so far
          nout,     \* element -> packets passed on so far (a splitter: packets completely served)
          ndrop,    \* element -> packets discarded so far
          ncnt,     \* element -> discards the element counts in its public drop counter (tail / RED drops)
          seen,     \* identities that exist
          done,     \* the run has ended
          cfg       \* frozen topology
cvars == <<held, nin, nout, ndrop, ncnt, seen, done, cfg>>

N == Len(cfg.kind)
Els == 1..N
Kind(e) == cfg.kind[e]
SuccSeq(e) == cfg.succ[e]
Succ(e) == {SuccSeq(e)[i] : i \in 1..Len(SuccSeq(e))}
IsSrc(e) == Kind(e) = "src"
IsSink(e) == Kind(e) = "sink"
Copies(e) == Kind(e) = "split"
\* kinds that may keep a packet after the put() that handed it in has returned
MayHold(e) == Kind(e) \in {"port", "red", "wire", "tb", "trtb", "sched", "switch", "sink"}
\* kinds whose documented rule allows a discard
CountedDrop(e) == Kind(e) \in {"port", "red", "switch"}
LossyWire(e) == Kind(e) = "wire" /\ cfg.loss[e][1] > 0
NoRoute(e, f) == Kind(e) \in {"demux", "switch"} /\ \E i \in 1..Len(cfg.nor[e]) : cfg.nor[e][i] = f

Flow(fl) == fl[2]
RemoveAt(s, i) == SubSeq(s, 1, i - 1) \o SubSeq(s, i + 1, Len(s))
Idx(e, o) == {i \in 1..Len(held[e]) : held[e][i].o = o}
Holds(e, o) == Idx(e, o) # {}
\* no packet of the same flow that entered e earlier is still held by e
Oldest(e, i) == \A j \in 1..(i - 1) : Flow(held[e][j].fl) # Flow(held[e][i].fl)
\* was = the identity that entered (o becomes 0 in a splitter once the original has gone to output 1)
Entry(b, o, fl) == [o |-> o, fl |-> fl, was |-> o, pend |-> IF Copies(b) THEN 1..Len(SuccSeq(b)) ELSE {}]

\* a pass-through element (demultiplexer, splitter) deals with a packet inside the put() that hands it in,
\* so it never has two at a time
Room(b) == MayHold(b) \/ held[b] = <<>>

InitWith(c) ==
  /\ cfg = c
  /\ held = [e \in 1..Len(c.kind) |-> <<>>]
  /\ nin = [e \in 1..Len(c.kind) |-> 0]
  /\ nout = [e \in 1..Len(c.kind) |-> 0]
  /\ ndrop = [e \in 1..Len(c.kind) |-> 0]
  /\ ncnt = [e \in 1..Len(c.kind) |-> 0]
  /\ seen = {} /\ done = FALSE

(* ---- a source creates packet o and hands it to its neighbour b ---- *)
Emit(s, b, o, fl) ==
  /\ ~done /\ IsSrc(s) /\ b \in Succ(s) /\ o \notin seen /\ Room(b)
  /\ seen' = seen \cup {o}
  /\ held' = [held EXCEPT ![b] = Append(@, Entry(b, o, fl))]
  /\ nin' = [nin EXCEPT ![b] = @ + 1]
  /\ nout' = [nout EXCEPT ![s] = @ + 1]
  /\ UNCHANGED <<ndrop, ncnt, done, cfg>>

(* ---- Out(a, p, b) and In(b, p): the very same packet goes downstream ---- *)
Forward(a, b, o, fl) ==
  /\ ~done /\ ~IsSrc(a) /\ ~IsSink(a) /\ ~Copies(a) /\ b \in Succ(a) /\ b # a /\ Room(b)
  /\ \E i \in Idx(a, o) :
       /\ Oldest(a, i)
       /\ held[a][i].fl = fl
       /\ held' = [held EXCEPT ![a] = RemoveAt(@, i), ![b] = Append(@, Entry(b, o, fl))]
  /\ nout' = [nout EXCEPT ![a] = @ + 1]
  /\ nin' = [nin EXCEPT ![b] = @ + 1]
  /\ UNCHANGED <<ndrop, ncnt, seen, done, cfg>>

(* ---- splitter a serves its k-th output with identity o2 ---- *)
SplitOut(a, k, o2, fl) ==
  /\ ~done /\ Copies(a) /\ k \in 1..Len(SuccSeq(a)) /\ SuccSeq(a)[k] # a /\ Room(SuccSeq(a)[k])
  /\ \E i \in 1..Len(held[a]) :
       LET ent == held[a][i]
           rest == ent.pend \ {k}
           b == SuccSeq(a)[k]
           \* once the original has gone to output 1 what the splitter still holds are the copies it owes (identity 0)
           ha == IF rest = {} THEN RemoveAt(held[a], i)
                 ELSE [held[a] EXCEPT ![i] = [ent EXCEPT !.o = IF k = 1 THEN 0 ELSE @, !.pend = rest]]
       IN /\ k \in ent.pend /\ ent.fl = fl
          /\ IF k = 1 THEN o2 = ent.o /\ o2 # 0 /\ seen' = seen
                      ELSE o2 \notin seen /\ seen' = seen \cup {o2}
          /\ held' = [held EXCEPT ![a] = ha, ![b] = Append(@, Entry(b, o2, fl))]
          /\ nout' = [nout EXCEPT ![a] = IF rest = {} THEN @ + 1 ELSE @]
          /\ nin' = [nin EXCEPT ![b] = @ + 1]
  /\ UNCHANGED <<ndrop, ncnt, done, cfg>>

(* ---- discards ---- *)
Discard(a, i, counted) ==
  /\ held' = [held EXCEPT ![a] = RemoveAt(@, i)]
  /\ ndrop' = [ndrop EXCEPT ![a] = @ + 1]
  /\ ncnt' = [ncnt EXCEPT ![a] = IF counted THEN @ + 1 ELSE @]
  /\ UNCHANGED <<nin, nout, seen, done, cfg>>
\* tail / RED drop: the packet refused is the one that has just been handed in
ArrivalDrop(a, o) == /\ ~done /\ CountedDrop(a) /\ Len(held[a]) > 0 /\ held[a][Len(held[a])].o = o
                     /\ Discard(a, Len(held[a]), TRUE)
LossDrop(a, o) == ~done /\ LossyWire(a) /\ \E i \in Idx(a, o) : Discard(a, i, FALSE)
RouteDrop(a, o) == ~done /\ \E i \in Idx(a, o) : NoRoute(a, Flow(held[a][i].fl)) /\ Discard(a, i, FALSE)

(* ---- a lossy wire hands on packet o although older packets of its flow are still held: those were lost ---- *)
\* (Forward preceded by the LossDrop of every older packet of the flow, as one step.  Wire loss has no tap and no
\*  counter; a packet that is overtaken inside the wire by a later one of its own flow can only have been lost.)
OlderOfFlow(a, i) == {j \in 1..(i - 1) : Flow(held[a][j].fl) = Flow(held[a][i].fl)}
RECURSIVE Without(_, _, _)
Without(s, D, n) == IF n = 0 THEN <<>>
                    ELSE IF n \in D THEN Without(s, D, n - 1) ELSE Append(Without(s, D, n - 1), s[n])
ForwardPastLost(a, b, o, fl) ==
  /\ ~done /\ LossyWire(a) /\ b \in Succ(a) /\ b # a /\ Room(b)
  /\ \E i \in Idx(a, o) :
       LET D == OlderOfFlow(a, i) IN
       /\ D # {}
       /\ held[a][i].fl = fl
       /\ held' = [held EXCEPT ![a] = Without(@, D \cup {i}, Len(@)), ![b] = Append(@, Entry(b, o, fl))]
       /\ ndrop' = [ndrop EXCEPT ![a] = @ + Cardinality(D)]
  /\ nout' = [nout EXCEPT ![a] = @ + 1]
  /\ nin' = [nin EXCEPT ![b] = @ + 1]
  /\ UNCHANGED <<ncnt, seen, done, cfg>>
\* whatever a lossy wire still holds when it has nothing more to do was lost
LoseRest(a) ==
  /\ ~done /\ LossyWire(a) /\ held[a] # <<>>
  /\ held' = [held EXCEPT ![a] = <<>>]
  /\ ndrop' = [ndrop EXCEPT ![a] = @ + Len(held[a])]
  /\ UNCHANGED <<nin, nout, ncnt, seen, done, cfg>>

(* ---- the simulation has run out of events ---- *)
Quiescent == \A e \in Els : IsSink(e) \/ held[e] = <<>>
Quiesce == /\ ~done /\ Quiescent /\ done' = TRUE
           /\ UNCHANGED <<held, nin, nout, ndrop, ncnt, seen, cfg>>

(* ---- per-element accounting, true by construction and re-checked from histories in ConserveMC ---- *)
Balance == \A e \in Els : ~IsSrc(e) => nin[e] = nout[e] + ndrop[e] + Len(held[e])
CountedAreDrops == \A e \in Els : ncnt[e] <= ndrop[e] /\ (ncnt[e] > 0 => CountedDrop(e))
OnlyAllowedDrops == \A e \in Els : ndrop[e] > 0 => (CountedDrop(e) \/ LossyWire(e) \/ Kind(e) \in {"demux", "switch"})
=============================================================================
