SPECIFICATION Spec
CONSTANTS
  MaxPk = 3
  MaxT = 4
  Sizes = {1, 2, 3, 5}
  Gaps = {1, 4}
  Tier = "pir"
CONSTRAINT Emit
INVARIANT ShapeConformance
INVARIANT GreenConformsToCIR
INVARIANT ColourRule
INVARIANT WaitRule
INVARIANT ShapeLaw
INVARIANT HeadLaw
INVARIANT Fifo
INVARIANT Lossless
INVARIANT NonNegative
INVARIANT Capped
PROPERTY TimeMonotone
PROPERTY EarliestRelease
PROPERTY NeverEarly
PROPERTY CommitNeverRaised
CHECK_DEADLOCK FALSE
