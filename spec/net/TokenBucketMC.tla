--------------------------- MODULE TokenBucketMC ---------------------------
(* Closed system for exhaustive checking of TokenBucket: an environment that hands in up to MaxPk   *)
(* packets at arbitrary instants (bursts, long idle gaps, arrivals exactly at a debit or release    *)
(* instant) and lets time pass; every complete workload is emitted.                                  *)
EXTENDS TokenBucket, Json
CONSTANTS MaxPk, MaxT, Sizes, Gaps, Tier
VARIABLE arrlog          \* history: the workload so far [t, sz]
vars == <<tvars, arrlog>>

\* u = lattice unit: sizes are u * Sizes (u a multiple of R and of P)
TbCfg(r, b, p, u) == [R |-> r, B |-> b, P |-> p, u |-> u]
Cfgs ==
  IF Tier = "plain" THEN {TbCfg(1, b, 0, 1) : b \in {1, 2, 4}} \cup {TbCfg(2, 4, 0, 2), TbCfg(3, 6, 0, 3)}
  ELSE {TbCfg(1, 1, 1, 1), TbCfg(1, 4, 1, 1), TbCfg(1, 2, 2, 2), TbCfg(1, 4, 2, 2), TbCfg(2, 8, 4, 4), TbCfg(2, 4, 1, 2)}

Init == /\ \E c \in Cfgs : InitWith(c)
        /\ arrlog = <<>>

EnvArrive ==
  /\ nrecv < MaxPk /\ now <= MaxT
  /\ \E k \in Sizes :
       /\ Arrive(nrecv + 1, cfg.u * k)
       /\ arrlog' = Append(arrlog, [t |-> now, sz |-> cfg.u * k])
\* time passes: by one of the gaps while arrivals may still come, or straight to the pending deadline
EnvTick ==
  /\ \/ nrecv < MaxPk /\ \E g \in Gaps : now + g <= MaxT /\ TickTo(now + g)
     \/ hd # <<>> /\ TickTo(due)
  /\ UNCHANGED arrlog
DoTake == Take /\ UNCHANGED arrlog
\* the two cases of the debit are named separately so that coverage shows both occur (vacuity)
DoDebitAtOnce == hd # <<>> /\ hd[1].h = now /\ Debit /\ UNCHANGED arrlog
DoDebitAfterWait == hd # <<>> /\ hd[1].h < now /\ Debit /\ UNCHANGED arrlog
DoRelease == Release /\ UNCHANGED arrlog
Next == EnvArrive \/ EnvTick \/ DoTake \/ DoDebitAtOnce \/ DoDebitAfterWait \/ DoRelease
Spec == Init /\ [][Next]_vars

Quiescent == q = <<>> /\ hd = <<>>
Complete == nrecv = MaxPk \/ \A g \in Gaps : now + g > MaxT
Emit == (Quiescent /\ nrecv >= 1 /\ Complete) =>
          PrintT(<<"EMIT", ToJson([cfg |-> cfg, arr |-> arrlog])>>)

TimeMonotone == [][now' >= now]_vars
\* each packet is debited and released at the EARLIEST possible instant: the clock never advances
\* while the packet at the head could be taken, debited or released
EarliestRelease == [][now' > now => ~CouldAct]_vars
\* ... and never earlier: a debit happens only when the tokens are there
NeverEarly == [][Len(deblog') > Len(deblog) => Acc(now) >= hd[1].sz /\ lvl' >= 0]_vars
\* the bucket never holds more than its size while nobody waits for an oversize packet
Capped == Tokens(now) <= cfg.B
=============================================================================
