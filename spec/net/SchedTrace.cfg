INIT Init
NEXT Next
CONSTRAINT Mark
POSTCONDITION Post
CHECK_DEADLOCK FALSE
INVARIANT CountersExact
INVARIANT EachOnce
