SPECIFICATION Spec
CONSTANTS
  MaxPk = 3
  MaxT = 2
  Sizes = {1, 2}
  Gaps = {1}
  Tier = "VC"
  Static = FALSE
CONSTRAINT Emit
INVARIANT CountersExact
INVARIANT PerFlowFifo
INVARIANT EachOnce
INVARIANT WorkConservingRateExact
INVARIANT OneAtATime
INVARIANT AllServed
INVARIANT StrictAtStart
INVARIANT StampOrder
INVARIANT DrrCreditRange
INVARIANT DrrFairness
INVARIANT RrOnePerVisit
INVARIANT WrrAllowance
PROPERTY TimeMonotone
PROPERTY NeverIdleWithBacklog
CHECK_DEADLOCK FALSE
