---------------------------- MODULE FatTreeNetMC ----------------------------
(* Closed system for FatTreeNet: generators hand in packets of the classes that have sinks, the network *)
(* delivers them in any order.  History variable arr records every arrival <<packet, sink, carried id>>. *)
EXTENDS FatTreeNet
CONSTANTS Classes, MaxPk
VARIABLE arr
vars == <<nvars, arr>>
Init == NetInit(Classes) /\ arr = <<>>
EnvSend == \E p \in 1..MaxPk, c \in Classes : Send(p, c) /\ UNCHANGED arr
NetArrive == \E p \in open, s \in Classes, carried \in Classes :
               Arrive(p, s, carried) /\ arr' = Append(arr, <<p, s, carried>>)
RunDry == Quiet /\ UNCHANGED arr
Next == EnvSend \/ NetArrive \/ RunDry
Spec == Init /\ [][Next]_vars /\ WF_vars(NetArrive)

ClassOf(p) == (CHOOSE x \in sent : x[1] = p)[2]
\* every packet arrives at its own flow's sink and at no other, carrying its flow id, at most once
OwnSinkOnly == \A i \in DOMAIN arr : arr[i][2] = ClassOf(arr[i][1]) /\ arr[i][3] = arr[i][2]
AtMostOnce == \A i, j \in DOMAIN arr : arr[i][1] = arr[j][1] => i = j
OnlySentPackets == \A i \in DOMAIN arr : \E x \in sent : x[1] = arr[i][1]
\* and it does arrive
EveryPacketArrives == \A p \in 1..MaxPk : (p \in open) ~> (p \notin open)
=============================================================================
