----------------------------- MODULE FatTreeNet -----------------------------
(* "In a simulated fat tree every packet arrives at its own flow's sink and at no other" (C18):       *)
(* the network as a transition system over packets.  Nothing is said about order or timing; a packet  *)
(* may be in flight for as long as it likes, but when the simulation has run dry nothing is in flight. *)
EXTENDS Integers, Sequences, FiniteSets, TLC
VARIABLES sinks,   \* classes (flow ids, acknowledgement classes) that have a sink
          sent,    \* <<packet, class>> pairs handed to the network so far
          open     \* packets handed in and not yet arrived
nvars == <<sinks, sent, open>>

NetInit(S) == sinks = S /\ sent = {} /\ open = {}
Send(p, c) == /\ c \in sinks /\ ~\E x \in sent : x[1] = p
              /\ sent' = sent \cup {<<p, c>>} /\ open' = open \cup {p}
              /\ UNCHANGED sinks
\* a packet arrives once, at the sink of its own flow, still carrying that flow's id
Arrive(p, sink, carried) == /\ p \in open /\ <<p, sink>> \in sent /\ carried = sink
                            /\ open' = open \ {p}
                            /\ UNCHANGED <<sinks, sent>>
Quiet == open = {} /\ UNCHANGED nvars

=============================================================================
