------------------------------ MODULE GenSink ------------------------------
(***************************************************************************)
(* Book-keeping of a packet generator and of a packet sink -- the last two *)
(* sentences of C08.                                                       *)
(*                                                                         *)
(* Generator.  Its inputs are the initial delay d0, the sequence of        *)
(* inter-arrival draws `gaps`, the sequence of size draws `sizes`, and an  *)
(* optional finish time.  Packet n (ids 1, 2, ...) is emitted exactly at   *)
(*     T(n) = d0 + gaps[1] + ... + gaps[n]                                 *)
(* with size sizes[n], creation time T(n), the generator's flow and source *)
(* name.  The property does not say what `finish` does to a packet whose   *)
(* predecessor was emitted before the finish time but which is itself due  *)
(* at or after it: such a packet may or may not be emitted.  A packet due  *)
(* before the finish time must be emitted, and nothing is emitted once an  *)
(* emission instant (or the initial delay) has reached the finish time.    *)
(*                                                                         *)
(* Sink.  For every key (flow id, or source when so configured) the packet *)
(* count, the byte count, the recorded arrival times (absolute, or the gap *)
(* since the previous packet of that key -- for the first packet of a key  *)
(* the property fixes no predecessor: the gap from time 0 or 0) and the    *)
(* recorded waits (arrival - creation) are exactly those of the packets    *)
(* delivered; a list that is switched off stays empty.                     *)
(*                                                                         *)
(* cfg = [d0, gaps, sizes, fin (-1: none), flow, eid, recarr, abs,         *)
(*        recwait, byflow, nk (number of keys), role]                      *)
(***************************************************************************)
EXTENDS Naturals, Integers, Sequences, FiniteSets, TLC

VARIABLES now,      \* current instant
          gn,       \* packets emitted so far
          cnt,      \* key -> packets counted by the sink
          byt,      \* key -> bytes counted
          arrs,     \* key -> recorded arrival times / gaps
          wts,      \* key -> recorded waits
          last,     \* key -> instant of the latest delivery (-1: none)
          cfg
gvars == <<now, gn, cnt, byt, arrs, wts, last, cfg>>

RECURSIVE SumTo(_, _)
SumTo(s, n) == IF n = 0 THEN 0 ELSE s[n] + SumTo(s, n - 1)
T(n) == cfg.d0 + SumTo(cfg.gaps, n)
NGaps == Len(cfg.gaps)
NoFin == cfg.fin = -1
\* packet n is due before the finish time: it has to be emitted
MustEmit(n) == n <= NGaps /\ (NoFin \/ T(n) < cfg.fin)
\* its predecessor (or the initial delay) lies before the finish time: it may be emitted
MayEmit(n) == n >= 1 /\ n <= NGaps /\ n <= Len(cfg.sizes) /\ (NoFin \/ T(n - 1) < cfg.fin)

InitWith(c) ==
  /\ cfg = c /\ now = 0 /\ gn = 0
  /\ cnt = [k \in 1..c.nk |-> 0] /\ byt = [k \in 1..c.nk |-> 0]
  /\ arrs = [k \in 1..c.nk |-> <<>>] /\ wts = [k \in 1..c.nk |-> <<>>]
  /\ last = [k \in 1..c.nk |-> -1]

(* ---- the generator emits a packet with these header fields ---- *)
GenEmit(id, sz, f, src, ct) ==
  /\ id = gn + 1 /\ MayEmit(id) /\ now = T(id)
  /\ sz = cfg.sizes[id] /\ f = cfg.flow /\ src = cfg.eid /\ ct = now
  /\ gn' = id
  /\ UNCHANGED <<now, cnt, byt, arrs, wts, last, cfg>>

\* the clock may not pass the instant at which the next packet has to be emitted
GenTickOK(t) == MustEmit(gn + 1) => t <= T(gn + 1)
\* nothing more will come
GenDone == ~MayEmit(gn + 1) \/ (now > T(gn + 1))

(* ---- a packet (flow f, source src, size sz, created at ct) is delivered to the sink ---- *)
Key(f, src) == IF cfg.byflow = 1 THEN f + 1 ELSE src
SinkDeliver(f, src, sz, ct) ==
  LET k == Key(f, src) IN
  /\ k \in 1..cfg.nk
  /\ cnt' = [cnt EXCEPT ![k] = @ + 1]
  /\ byt' = [byt EXCEPT ![k] = @ + sz]
  /\ \E a \in (IF cfg.abs = 1 THEN {now} ELSE IF last[k] = -1 THEN {now, 0} ELSE {now - last[k]}) :
       arrs' = IF cfg.recarr = 1 THEN [arrs EXCEPT ![k] = Append(@, a)] ELSE arrs
  /\ wts' = IF cfg.recwait = 1 THEN [wts EXCEPT ![k] = Append(@, now - ct)] ELSE wts
  /\ last' = [last EXCEPT ![k] = now]
  /\ UNCHANGED <<now, gn, cfg>>

TickTo(t) == /\ t > now /\ GenTickOK(t) /\ now' = t
             /\ UNCHANGED <<gn, cnt, byt, arrs, wts, last, cfg>>
=============================================================================
