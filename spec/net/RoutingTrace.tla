---------------------------- MODULE RoutingTrace ----------------------------
(* Batch validation of put-level traces recorded from the real FlowDemux / FIBDemux / SimplePacketSwitch /  *)
(* FairPacketSwitch / Hub / Splitter / NSplitter against Routing.tla.  Every logged event must be an         *)
(* enabled step of the specification; logged header-field snapshots must equal the specification's heap.     *)
(* Events (uniform records [e, oc, oi, obj, f, s, k, w, v, fl, x, tb]):                                      *)
(*   C  the user changed the configuration through the public API: x = "set" (table[f] = oi on the table in *)
(*      use), "del" (del table[f]), "table" (new table tb through the fib setter), "out" (outs.append),     *)
(*      "end" / "unend" (ends[f] = device / del ends[f]), "dflt" (default_out = device if oi = 1 else None),*)
(*      "join" (hub.add_endpoint, with a port device iff oi = 1)                                            *)
(*   I  packet handed in (flow f, sender endpoint s, header fields fl)                                       *)
(*   D  a recording device on output <<oc, oi>> received object obj whose header fields read fl              *)
(*   M  the holder of object obj rewrote header field k (wrote w), the field then read v                     *)
(*   F  after the put: header fields of object obj read fl                                                   *)
(*   R  put returned     X  put (or the construction of the element, or the simulation) raised x             *)
EXTENDS Routing, Json
VARIABLES tid, l
Traces == JsonDeserialize("traces.json")
vars == <<rvars, tid, l>>
Tr == Traces[tid].ev
Ev == Tr[l]

Init == /\ tid \in 1..Len(Traces) /\ l = 1 /\ TLCSet(tid, 1)
        /\ InitWith(Traces[tid].cfg)
More == l <= Len(Tr)
Consume == l' = l + 1 /\ UNCHANGED tid

PutEv == /\ More /\ Ev.e = "I"
         /\ WellFormed(cfg)
         /\ PutIn(Ev.f, Ev.s, Ev.fl) /\ Consume
DeliverEv == /\ More /\ Ev.e = "D" /\ Ev.oc # "v"
             /\ Deliver(<<Ev.oc, Ev.oi>>, Ev.obj)
             /\ heap'[Ev.obj] = Ev.fl
             /\ Consume
ForwardEv == /\ More /\ Ev.e = "D" /\ Ev.oc = "v"
             /\ PortForward(Ev.oi, Ev.obj)
             /\ heap[Ev.obj] = Ev.fl
             /\ Consume
ModifyEv == /\ More /\ Ev.e = "M"
            /\ Modify(Ev.obj, Ev.k, Ev.w)
            /\ heap'[Ev.obj][Ev.k] = Ev.v
            /\ Consume
FinalEv == /\ More /\ Ev.e = "F"
           /\ phase # "busy" /\ Ev.obj \in 1..Len(heap) /\ heap[Ev.obj] = Ev.fl
           /\ UNCHANGED rvars /\ Consume
ReconfEv == /\ More /\ Ev.e = "C"
            /\ \/ Ev.x = "set" /\ SetEntry(Ev.f, Ev.oi)
               \/ Ev.x = "del" /\ DelEntry(Ev.f)
               \/ Ev.x = "table" /\ ReplaceTable(Ev.tb)
               \/ Ev.x = "out" /\ AppendOut
               \/ Ev.x = "end" /\ SetEnd(Ev.f)
               \/ Ev.x = "unend" /\ DelEnd(Ev.f)
               \/ Ev.x = "dflt" /\ SetDefault(Ev.oi)
               \/ Ev.x = "join" /\ AddEndpoint(Ev.oi)
            /\ Consume
ReturnEv == /\ More /\ Ev.e = "R" /\ Return /\ Consume
RaiseEv == /\ More /\ Ev.e = "X" /\ Raise /\ Consume
Next == PutEv \/ DeliverEv \/ ForwardEv \/ ModifyEv \/ FinalEv \/ ReturnEv \/ RaiseEv \/ ReconfEv
Spec == Init /\ [][Next]_vars

Mark == TLCSet(tid, IF l > TLCGet(tid) THEN l ELSE TLCGet(tid))
Post == /\ \A i \in 1..Len(Traces) :
             TLCGet(i) = Len(Traces[i].ev) + 1 \/ PrintT(<<"STUCK", i, TLCGet(i)>>)
        /\ PrintT(<<"DONE", Len(Traces)>>)
=============================================================================
