SPECIFICATION Spec
CONSTRAINT Report
CHECK_DEADLOCK FALSE
