SPECIFICATION FairSpec
CONSTANTS
  MaxFlow = 0
  MaxOuts = 3
  MaxPuts = 1
  MaxReconf = 0
  Tier = "hub"
CONSTRAINT Emit
INVARIANT HubAllButSender
INVARIANT HubThroughPort
INVARIANT HubSamePacket
PROPERTY Completes
INVARIANT AllWellFormed
INVARIANT NeverRaisesUnprovoked
CHECK_DEADLOCK FALSE
