SPECIFICATION Spec
CONSTANTS
  MaxPk = 2
  MaxT = 1
  Delays = {0, 1, 2}
INVARIANT Law1
INVARIANT Law2
INVARIANT SameRate
PROPERTY Separate
PROPERTY NoNeedlessDelay
CHECK_DEADLOCK FALSE
