----------------------------- MODULE WireTrace -----------------------------
(* Batch validation of traces recorded from the real Wire (and from each direction of a Cable, one   *)
(* trace per direction) against Wire.tla.  Every logged event -- arrival, loss draw, delay draw,      *)
(* delivery, quiescence -- must be an enabled step of the specification; Wire has no silent steps.    *)
EXTENDS Wire, Json
VARIABLES tid, l
Traces == JsonDeserialize("traces.json")
vars == <<wvars, tid, l>>
Tr == Traces[tid].ev
Ev == Tr[l]
Objs == Traces[tid].objs      \* identity (object number) of the packet object handed in by the k-th entry

Init == /\ tid \in 1..Len(Traces) /\ l = 1 /\ TLCSet(tid, 1)
        /\ InitWith(Traces[tid].cfg)
More == l <= Len(Tr)
Here == More /\ Ev.t = now
Consume == l' = l + 1 /\ UNCHANGED tid
Keep == UNCHANGED <<tid, l>>
\* public attributes after the step: packets_rec is the number handed in; the store holds only packets in flight
Bound == nrecv' = Ev.nrecv /\ Ev.items >= 0 /\ Ev.items <= Len(fl')

\* tap after Wire.put returned (the entry stamp the implementation leaves on the packet, Ev.at, is recorded for the
\* reader of a replay file but not compared: the property does not speak about it)
ArriveEv == /\ Here /\ Ev.e = "A"
            /\ Ev.id = nrecv + 1 /\ Objs[Ev.id] = Ev.obj
            /\ Arrive(Ev.id) /\ Bound /\ Consume
\* scripted uniform draw (call number n of this wire)
LossEv == /\ Here /\ Ev.e = "U" /\ Ev.n = nu + 1
          /\ \E lose \in BOOLEAN : LossDraw(Ev.un, Ev.ud, lose)
          /\ Consume
\* scripted delay draw (call number n of this wire)
DelayEv == /\ Here /\ Ev.e = "W" /\ Ev.n = nw + 1
           /\ DelayDraw(Ev.d)
           /\ Consume
\* tap inside the downstream put(): the object delivered is the one the head-of-line entry handed in
DeliverEv == /\ Here /\ Ev.e = "D"
             /\ fl # <<>> /\ Objs[Head(fl).id] = Ev.obj
             /\ Deliver /\ Bound /\ Consume
\* env.run() returned with an empty agenda: nothing may be left in flight
QuietEv == /\ Here /\ Ev.e = "Q"
           /\ fl = <<>> /\ Ev.items = 0 /\ Ev.nrecv = nrecv
           /\ UNCHANGED wvars /\ Consume
TickEv == More /\ TickTo(Ev.t) /\ Keep
Next == ArriveEv \/ LossEv \/ DelayEv \/ DeliverEv \/ QuietEv \/ TickEv
Spec == Init /\ [][Next]_vars

Mark == TLCSet(tid, IF l > TLCGet(tid) THEN l ELSE TLCGet(tid))
Post == /\ \A i \in 1..Len(Traces) :
             TLCGet(i) = Len(Traces[i].ev) + 1 \/ PrintT(<<"STUCK", i, TLCGet(i)>>)
        /\ PrintT(<<"DONE", Len(Traces)>>)
=============================================================================
