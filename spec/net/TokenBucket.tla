---------------------------- MODULE TokenBucket ----------------------------
(***************************************************************************)
(* Token-bucket shaper -- property C11, first half.                        *)
(*                                                                         *)
(* Time is an integer number of ticks.  The bucket gains cfg.R bytes of    *)
(* tokens per tick (rate = 8*R bit/s), holds at most cfg.B bytes and is    *)
(* full at instant 0.  Packets are served first in first out, one at a     *)
(* time.  A packet that reaches the head of the queue (Take) is debited    *)
(* (Debit) at the earliest instant at which the bucket holds its size: at  *)
(* once when the tokens are there, otherwise after exactly                 *)
(* (size - tokens)/R ticks -- the missing tokens are waited for regardless *)
(* of the cap, so a packet larger than the bucket passes too.  With a peak *)
(* rate of cfg.P bytes per tick (0 = none) the packet is handed on         *)
(* (Release) size/P ticks after the debit, otherwise in the debit instant. *)
(* The next packet reaches the head only when the previous one has been    *)
(* released.                                                               *)
(*                                                                         *)
(* (lvl, upd) denote the function  t |-> Min(B, lvl + R*(t - upd)):  the   *)
(* bucket content at t as long as nothing is debited.  Take and Debit are  *)
(* silent urgent steps; urgency (TickTo may not pass an enabled step or    *)
(* the pending deadline) is what makes "earliest" checkable.               *)
(* Lattice: sizes, B multiples of R (and sizes multiples of P) so that all *)
(* waits are whole ticks.                                                  *)
(***************************************************************************)
EXTENDS Naturals, Integers, Sequences, FiniteSets, TLC

VARIABLES now,     \* current instant (ticks)
          q,       \* packets not yet at the head (FIFO): [id, sz, at]
          hd,      \* <<>> or <<packet>>: the packet being served [id, sz, at, h] (h = instant it reached the head)
          phase,   \* "idle" | "tok" (waiting for / about to take its tokens) | "peak" (debited, not yet released)
          due,     \* instant of the pending Debit ("tok") or Release ("peak")
          lvl,     \* tokens in the bucket at instant upd
          upd,     \* instant lvl refers to
          nrecv,   \* packets handed in so far
          deblog,  \* history of debits   [id, sz, h, t]
          rellog,  \* history of releases [id, sz, at, t]
          cfg      \* frozen parameters [R, B, P]
tvars == <<now, q, hd, phase, due, lvl, upd, nrecv, deblog, rellog, cfg>>

Min(a, b) == IF a < b THEN a ELSE b
Max(a, b) == IF a > b THEN a ELSE b

InitWith(c) ==
  /\ now = 0 /\ q = <<>> /\ hd = <<>> /\ phase = "idle" /\ due = 0
  /\ lvl = c.B /\ upd = 0 /\ nrecv = 0 /\ deblog = <<>> /\ rellog = <<>>
  /\ cfg = c

Acc(t) == lvl + cfg.R * (t - upd)      \* tokens gathered up to t, cap disregarded
Tokens(t) == Min(cfg.B, Acc(t))        \* bucket content at t

Arrive(id, sz) ==
  /\ q' = Append(q, [id |-> id, sz |-> sz, at |-> now])
  /\ nrecv' = nrecv + 1
  /\ UNCHANGED <<now, hd, phase, due, lvl, upd, deblog, rellog, cfg>>

\* the next packet reaches the head of the queue; what it is short of fixes the debit instant
Take ==
  /\ hd = <<>> /\ q # <<>>
  /\ LET p == Head(q)
         have == Tokens(now)
         miss == Max(0, p.sz - have)
     IN /\ miss % cfg.R = 0
        /\ hd' = <<[id |-> p.id, sz |-> p.sz, at |-> p.at, h |-> now]>>
        /\ q' = Tail(q)
        /\ lvl' = have /\ upd' = now
        /\ phase' = "tok" /\ due' = now + miss \div cfg.R
  /\ UNCHANGED <<now, nrecv, deblog, rellog, cfg>>

Debit ==
  /\ hd # <<>> /\ phase = "tok" /\ now = due
  /\ lvl' = Acc(now) - hd[1].sz /\ upd' = now
  /\ phase' = "peak"
  /\ due' = now + (IF cfg.P > 0 THEN hd[1].sz \div cfg.P ELSE 0)
  /\ (cfg.P > 0 => hd[1].sz % cfg.P = 0)
  /\ deblog' = Append(deblog, [id |-> hd[1].id, sz |-> hd[1].sz, h |-> hd[1].h, t |-> now])
  /\ UNCHANGED <<now, q, hd, nrecv, rellog, cfg>>

Release ==
  /\ hd # <<>> /\ phase = "peak" /\ now = due
  /\ rellog' = Append(rellog, [id |-> hd[1].id, sz |-> hd[1].sz, at |-> hd[1].at, t |-> now])
  /\ hd' = <<>> /\ phase' = "idle"
  /\ UNCHANGED <<now, q, due, lvl, upd, nrecv, deblog, cfg>>

Urgent == (hd = <<>> /\ q # <<>>) \/ (hd # <<>> /\ now = due)
TickTo(t) == /\ t > now /\ ~Urgent /\ (hd # <<>> => t <= due) /\ now' = t
             /\ UNCHANGED <<q, hd, phase, due, lvl, upd, nrecv, deblog, rellog, cfg>>

(* ---------------- properties: state invariants over the histories ---------------- *)
(* Every prefix of a history is the history of an earlier reachable state, so each formula only    *)
(* needs to speak about the newest entry together with all earlier ones.                            *)
RECURSIVE SumSz(_, _, _)
SumSz(log, i, j) == IF i > j THEN 0 ELSE log[j].sz + SumSz(log, i, j - 1)

\* the (rate, bucket) conformance inequality over every pair of debit instants
Conformance ==
  LET j == Len(deblog) IN
  \A i \in 1..j :
    SumSz(deblog, i, j) <= Max(cfg.B, deblog[i].sz) + cfg.R * (deblog[j].t - deblog[i].t)

\* released size/P after the debit, hence consecutive departures at least size/P apart
ReleaseLaw ==
  LET k == Len(rellog) IN k > 0 =>
    /\ rellog[k].id = deblog[k].id
    /\ IF cfg.P > 0 THEN cfg.P * (rellog[k].t - deblog[k].t) = rellog[k].sz ELSE rellog[k].t = deblog[k].t
PeakSpacing ==
  LET k == Len(rellog) IN (cfg.P > 0 /\ k >= 2) => cfg.P * (rellog[k].t - rellog[k - 1].t) >= rellog[k].sz

Fifo == \A k \in 1..Len(rellog) : rellog[k].id = k
Lossless == /\ nrecv = Len(rellog) + Len(hd) + Len(q)
            /\ Len(deblog) = Len(rellog) + (IF phase = "peak" THEN 1 ELSE 0)
NonNegative == lvl >= 0 /\ Tokens(now) >= 0

\* a packet reaches the head when it has arrived and its predecessor has been released
HeadLaw ==
  LET k == Len(rellog) IN k > 0 =>
    deblog[k].h = Max(rellog[k].at, IF k = 1 THEN 0 ELSE rellog[k - 1].t)

\* closed form of "earliest instant the bucket holds the size": bucket content recomputed from the history alone
RECURSIVE LevelAfter(_)     \* content just after the k-th debit
LevelBefore(k) ==           \* content when the k-th packet reached the head
  IF k = 1 THEN cfg.B
  ELSE Min(cfg.B, LevelAfter(k - 1) + cfg.R * (deblog[k].h - deblog[k - 1].t))
LevelAfter(k) == Max(0, LevelBefore(k) - deblog[k].sz)
DebitLaw ==
  LET k == Len(deblog) IN k > 0 =>
    cfg.R * (deblog[k].t - deblog[k].h) = Max(0, deblog[k].sz - LevelBefore(k))

\* used by the action property EarliestRelease of the MC module:
\* the packet at the head could be debited / released / taken now
CouldAct ==
  \/ hd = <<>> /\ q # <<>>
  \/ hd # <<>> /\ phase = "tok" /\ Acc(now) >= hd[1].sz
  \/ hd # <<>> /\ phase = "peak" /\ (cfg.P = 0 \/ cfg.P * (now - deblog[Len(deblog)].t) >= hd[1].sz)
=============================================================================
