-------------------------- MODULE FatTreeNetTrace --------------------------
(* Batch validation of end-to-end traces of simulated fat trees (real FatTree + switches + generators). *)
(* Events [e, p, c, c2, x]:  G generator handed packet object p of class c to the source host            *)
(*   V the sink of class c received packet object p carrying flow id c2                                  *)
(*   L packet object p (flow id c2) fell out of the network at node c (no table entry: default output)   *)
(*   X the simulation raised x     Q the simulation ran dry                                              *)
EXTENDS FatTreeNet, Json
VARIABLES tid, l
Traces == JsonDeserialize("traces.json")
vars == <<nvars, tid, l>>
Tr == Traces[tid].ev
Ev == Tr[l]
RangeOf(s) == {s[i] : i \in DOMAIN s}

Init == /\ tid \in 1..Len(Traces) /\ l = 1 /\ TLCSet(tid, 1)
        /\ NetInit(RangeOf(Traces[tid].sinks))
More == l <= Len(Tr)
Consume == l' = l + 1 /\ UNCHANGED tid
SendEv == More /\ Ev.e = "G" /\ Send(Ev.p, Ev.c) /\ Consume
ArriveEv == More /\ Ev.e = "V" /\ Arrive(Ev.p, Ev.c, Ev.c2) /\ Consume
QuietEv == More /\ Ev.e = "Q" /\ Quiet /\ Consume
Next == SendEv \/ ArriveEv \/ QuietEv
Spec == Init /\ [][Next]_vars

Mark == TLCSet(tid, IF l > TLCGet(tid) THEN l ELSE TLCGet(tid))
Post == /\ \A i \in 1..Len(Traces) :
             TLCGet(i) = Len(Traces[i].ev) + 1 \/ PrintT(<<"STUCK", i, TLCGet(i)>>)
        /\ PrintT(<<"DONE", Len(Traces)>>)
=============================================================================
