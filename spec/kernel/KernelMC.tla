------------------------------ MODULE KernelMC ------------------------------
(* All programs up to a bound, each with its unique run: while a process (or the top level) is     *)
(* executing, TLC chooses its next API call from the configured alphabet.  Every complete program   *)
(* is emitted together with the log the specification predicts, for replay on the real kernel.      *)
EXTENDS SimKernel, Json
CONSTANTS MaxProc, MaxEv, MaxOps, MaxPlan, Delays, Kinds, PlanKinds, UntilTimes, Catches, MaxKids

UserEvs == {e \in 1..Len(evs) : evs[e].kind \in UserKinds}
Z == <<>>
KidSeqs == {<<>>} \cup {<<x>> : x \in UserEvs}
           \cup (IF MaxKids >= 2 THEN {s \in UserEvs \X UserEvs : s[1] # s[2]} ELSE {})
           \cup (IF MaxKids >= 3 THEN {s \in UserEvs \X UserEvs \X UserEvs : s[1] # s[2] /\ s[1] # s[3] /\ s[2] # s[3]} ELSE {})

Room(n) == Len(evs) + n <= MaxEv
OpSpace ==
  (IF "sleep" \in Kinds /\ Room(1) THEN {Op("sleep", d, 0, c, Z) : d \in Delays, c \in Catches} ELSE {})
  \cup (IF "timeout" \in Kinds /\ Room(1) THEN {Op("timeout", d, 0, 0, Z) : d \in Delays} ELSE {})
  \cup (IF "event" \in Kinds /\ Room(1) THEN {Op("event", 0, 0, 0, Z)} ELSE {})
  \cup (IF "succeed" \in Kinds THEN {Op("succeed", e, 0, 0, Z) : e \in {x \in UserEvs : evs[x].kind = "ev"}} ELSE {})
  \cup (IF "fail" \in Kinds THEN {Op("fail", e, 0, 0, Z) : e \in {x \in UserEvs : evs[x].kind = "ev"}} ELSE {})
  \cup (IF "trigger" \in Kinds
        THEN {o \in {Op("trigger", e, b, 0, Z) : e \in {x \in UserEvs : evs[x].kind = "ev"}, b \in {x \in UserEvs : evs[x].st # "pending"}} : o.a # o.b}
        ELSE {})
  \cup (IF "spawn" \in Kinds /\ Len(procs) < MaxProc /\ Room(2) THEN {Op("spawn", 0, 0, 0, Z)} ELSE {})
  \cup (IF "spawnnp" \in Kinds /\ Len(procs) < MaxProc /\ Room(2) THEN {Op("spawn", 0, 1, 0, Z)} ELSE {})
  \cup (IF "interrupt" \in Kinds /\ Room(1) THEN {Op("interrupt", q, 0, 0, Z) : q \in 1..Len(procs)} ELSE {})
  \cup (IF "interruptn" \in Kinds /\ Room(1) THEN {Op("interrupt", q, 1, 0, Z) : q \in 1..Len(procs)} ELSE {})
  \cup (IF "cbintr" \in Kinds /\ Room(1) THEN {Op("cbintr", e, q, 0, Z) : e \in {x \in UserEvs : evs[x].st # "processed"}, q \in 1..Len(procs)} ELSE {})
  \cup (IF "cond" \in Kinds /\ Room(1) THEN {Op("cond", a, 1, 0, s) : a \in {0, 1}, s \in KidSeqs} ELSE {})
  \* the same event listed twice (ev & ev, overlapping operand lists): counted per listing
  \cup (IF "conddup" \in Kinds /\ Room(1) THEN {Op("cond", a, 1, 0, <<x, x>>) : a \in {0, 1}, x \in UserEvs}
                                                \cup {Op("cond", a, 1, 0, <<x, y, x>>) : a \in {0, 1}, x \in UserEvs, y \in UserEvs} ELSE {})
  \cup (IF "condnoprobe" \in Kinds /\ Room(1) THEN {Op("cond", a, 0, 0, s) : a \in {0, 1}, s \in KidSeqs} ELSE {})
  \cup (IF "baddelay" \in Kinds THEN {Op("baddelay", 0, 0, 0, Z), Op("baddelay", 0, 1, 0, Z)} ELSE {})
  \cup (IF "condforeign" \in Kinds THEN {Op("condforeign", 0, 0, 0, Z)} ELSE {})
ProcOps ==
  (IF procs[P].n < MaxOps THEN
      OpSpace \cup (IF "yield" \in Kinds THEN {Op("yield", e, 0, c, Z) : e \in UserEvs \ {procs[P].pe}, c \in Catches} ELSE {})
   ELSE {})
  \cup {Op("return", 0, 0, 0, Z)}
  \cup (IF "raise" \in Kinds THEN {Op("raise", 0, 0, 0, Z)} ELSE {})
PlanOps ==
  IF top.n >= MaxPlan THEN {} ELSE
  (IF "run" \in PlanKinds THEN {Op("run", 0, 0, 0, Z)} ELSE {})
  \cup (IF "step" \in PlanKinds THEN {Op("step", 0, 0, 0, Z)} ELSE {})
  \cup (IF "rununtil" \in PlanKinds /\ Room(1) THEN {Op("rununtil", t, 0, 0, Z) : t \in UntilTimes} ELSE {})
  \cup (IF "runev" \in PlanKinds THEN {Op("runev", e, 0, 0, Z) : e \in UserEvs} ELSE {})
  \cup (IF "topop" \in PlanKinds THEN {o \in OpSpace : o.k \in {"event", "succeed", "fail", "interrupt", "timeout"}} ELSE {})

\* the top level has already created process 1
Init ==
  /\ now = 0 /\ seq = 2
  /\ evs = << NewEv("proc", "pending", TRUE, None, FALSE, <<Cb("probe", 1)>>, 1, <<>>, FALSE),
              NewEv("init", "triggered", TRUE, Val("init", 0, <<>>), FALSE, <<Cb("resume", 1)>>, 1, <<>>, FALSE) >>
  /\ agenda = {[t |-> 0, prio |-> URG, k |-> 1, e |-> 2]}
  /\ procs = << [pe |-> 1, tgt |-> 2, alive |-> TRUE, n |-> 0, catch |-> 0] >>
  /\ cur = NoCur /\ run = NoRun
  /\ top = [mode |-> "top", uk |-> "none", ue |-> 0, ut |-> 0, n |-> 1]
  /\ log = <<>> /\ script = << <<Op("spawn", 0, 0, 0, Z)>>, <<>> >> /\ res = <<>> /\ ftab = IntTimes

ProcStep == CanAct /\ \E o \in ProcOps : Do(o)
TopStep == TopCanAct /\ \E o \in PlanOps : Do(o)
Next == (Pop \/ NextCb \/ EndStep \/ RunDry \/ StepDry \/ Uncaught \/ ProcStep \/ TopStep) /\ UNCHANGED ftab
Spec == Init /\ [][Next]_kvars

Done == TopCanAct /\ run.p = 0 /\ top.n >= 2 /\ (top.n = MaxPlan \/ agenda = {})
\* every run()/step() call returns (or raises): with finitely many operations the kernel cannot spin or stall
LiveSpec == Spec /\ WF_kvars(Next)
Returns == [](Stepping => <>(top.mode = "top"))
PlanCompletes == <>[](TopCanAct /\ run.p = 0)
Emit == Done => PrintT(<<"EMIT", ToJson([script |-> script, log |-> log, final |-> FinalState])>>)

(* ---------------- property monitors over the observable log ---------------- *)
\* C01: effects appear in non-decreasing time order
LogTimeOrdered == \A i \in 1..(Len(log) - 1) : log[i].t <= log[i + 1].t
\* C01: a timeout's probe fires exactly at creation time + delay: recorded in the event value's id; checked through
\* the agenda: nothing is ever processed at a time other than its agenda time (Pop sets now = a.t) and never late:
NothingOverdue == \A a \in agenda : a.t >= now
\* C02: every probe fires at most once per event; every event processed has fired its probe by the end of its step
ProbeOnce == \A i, j \in 1..Len(log) : (i # j /\ log[i].k = "P" /\ log[j].k = "P") => log[i].p # log[j].p
\* C02: an outcome delivered to a process equals the outcome of some event (value or failure) -- deliveries carry the
\* event's own record, so it suffices that every R entry matches an event's (ok, val) or an interrupt cause
DeliveredIsEventOutcome ==
  \A i \in 1..Len(log) : log[i].k = "R" =>
     \E e \in 1..Len(evs) : evs[e].st # "pending" /\ evs[e].ok = log[i].ok /\ evs[e].val = log[i].v
\* C03: a run() call that returns normally has reached exactly its stop: run(until=t) ends with now = t, nothing
\* stamped t in the log before the return (nothing due at t has taken effect), and -- AgendaNotPast -- nothing
\* due before t is still waiting; run(until=event) ends in the step that processes that event, with its value;
\* run() ends on an empty schedule
RunReturnsAtItsStop ==
  [][(top.mode = "run" /\ top'.mode = "top" /\ Len(log') = Len(log) + 1 /\ log'[Len(log')].k = "RET") =>
        CASE top.uk = "time" -> /\ now' = top.ut /\ cur.e = top.ue
                                /\ \A i \in 1..Len(log) : log[i].t < top.ut
          [] top.uk = "ev"   -> cur.e = top.ue /\ log'[Len(log')].v = evs[top.ue].val
          [] OTHER           -> agenda = {}]_kvars
\* C04: interrupts never reach a process that has not started: the first R of every process is the init outcome
FirstResumeIsInit ==
  \A p \in 1..Len(procs) :
     LET idx == {i \in 1..Len(log) : log[i].k = "R" /\ log[i].p = p}
     IN idx # {} => log[CHOOSE i \in idx : \A j \in idx : i <= j].v.k = "init"
=============================================================================
