----------------------------- MODULE AgendaTrace -----------------------------
(***************************************************************************)
(* The agenda law of C01 on whatever programs the repository's own tests   *)
(* and demo applications execute (no knowledge of the programs needed):    *)
(* every step() processes the scheduled occurrence that is minimal in      *)
(* (due instant, urgent before normal, order of scheduling), the clock     *)
(* jumps to exactly its due instant and never backwards, nothing is        *)
(* processed that was not scheduled, and nothing twice.  Instants are      *)
(* ranks of the exact sums now + delay computed by the recorder.           *)
(***************************************************************************)
EXTENDS Naturals, Integers, Sequences, FiniteSets, TLC, Json
VARIABLES now, agenda, k, tid, l
Traces == JsonDeserialize("traces.json")
vars == <<now, agenda, k, tid, l>>
Tr == Traces[tid].ev
Ev == Tr[l]

Init == /\ tid \in 1..Len(Traces) /\ l = 1 /\ TLCSet(tid, 1)
        /\ now = Tr[1].now /\ agenda = {} /\ k = 1
More == l <= Len(Tr)
Less(a, b) == \/ a.due < b.due
              \/ a.due = b.due /\ a.prio < b.prio
              \/ a.due = b.due /\ a.prio = b.prio /\ a.k < b.k
\* schedule(event, priority, delay): due = now + delay, never in the past
ScheduleEv == /\ More /\ Ev.e = "S" /\ Ev.now = now /\ Ev.due >= now
              /\ agenda' = agenda \cup {[due |-> Ev.due, prio |-> Ev.prio, k |-> k, id |-> Ev.id]}
              /\ k' = k + 1 /\ l' = l + 1 /\ UNCHANGED <<now, tid>>
\* step(): the minimal entry, at exactly its due instant
PopEv == /\ More /\ Ev.e = "P" /\ Ev.id # 0
         /\ \E a \in agenda : /\ \A b \in agenda \ {a} : Less(a, b)
                              /\ a.id = Ev.id /\ a.prio = Ev.prio /\ a.due = Ev.due
                              /\ agenda' = agenda \ {a}
                              /\ now' = a.due /\ a.due >= now
         /\ l' = l + 1 /\ UNCHANGED <<k, tid>>
\* step() processes an occurrence that was not put on the agenda through schedule() (the stop event of
\* run(until=number) is placed there by the kernel itself): its priority is not known to the recorder, so all that is
\* required is that nothing scheduled was due strictly earlier and that the clock does not run backwards
StopPopEv == /\ More /\ Ev.e = "U" /\ Ev.due >= now
             /\ \A b \in agenda : ~(b.due < Ev.due)
             /\ now' = Ev.due /\ l' = l + 1 /\ UNCHANGED <<agenda, k, tid>>
\* step() on an empty agenda
EmptyEv == /\ More /\ Ev.e = "P" /\ Ev.id = 0 /\ agenda = {}
           /\ l' = l + 1 /\ UNCHANGED <<now, agenda, k, tid>>
\* step() returned or raised: the clock shows the instant of the occurrence just processed
EndEv == /\ More /\ Ev.e = "E" /\ Ev.now = now
         /\ l' = l + 1 /\ UNCHANGED <<now, agenda, k, tid>>
Next == ScheduleEv \/ PopEv \/ StopPopEv \/ EmptyEv \/ EndEv
Spec == Init /\ [][Next]_vars

Mark == TLCSet(tid, IF l > TLCGet(tid) THEN l ELSE TLCGet(tid))
Post == /\ \A i \in 1..Len(Traces) :
             TLCGet(i) = Len(Traces[i].ev) + 1 \/ PrintT(<<"STUCK", i, TLCGet(i)>>)
        /\ PrintT(<<"DONE", Len(Traces)>>)
=============================================================================
