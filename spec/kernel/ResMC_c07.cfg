SPECIFICATION Spec
CONSTANTS
  OrphanNested = FALSE
  NProc = 2
  MaxEv = 11
  MaxOps = 3
  Delays = {1}
  Kinds = {"sleep", "put", "get", "cancel", "yield"}
  ResName = "cont"
  Prios = {0}
  Amounts = {1, 2}
  ItemPrios = {0, 1}
CONSTRAINT Emit
INVARIANT LevelBounds
INVARIANT LevelConservation
INVARIANT StoreBound
INVARIANT ItemsOnce
INVARIANT NoStranded
INVARIANT SingleWait
INVARIANT LifeCycle
PROPERTY StoreOrder
PROPERTY QueueFifo
CHECK_DEADLOCK FALSE
