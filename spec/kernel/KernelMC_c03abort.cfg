SPECIFICATION Spec
CONSTANTS
  OrphanNested = FALSE
  MaxProc = 1
  MaxEv = 8
  MaxOps = 2
  MaxPlan = 4
  Delays = {0, 1}
  Kinds = {"sleep", "event", "succeed", "fail", "yield", "raise"}
  PlanKinds = {"run", "rununtil", "runev", "topop"}
  UntilTimes = {2, 3}
  Catches = {0, 1}
  MaxKids = 0
CONSTRAINT Emit
INVARIANT SingleWait
INVARIANT AgendaNotPast
INVARIANT LifeCycle
INVARIANT LogTimeOrdered
INVARIANT ProbeOnce
INVARIANT DeliveredIsEventOutcome
INVARIANT FirstResumeIsInit
PROPERTY TimeMonotone
PROPERTY RunReturnsAtItsStop
CHECK_DEADLOCK FALSE
