------------------------------- MODULE ResMC -------------------------------
(* All histories of resource operations up to a bound: NProc processes, created by the top level,   *)
(* choose request / release / cancel / with-exit / put / get / sleep / yield operations; the run is  *)
(* driven step by step and the resources are observed after every kernel step (properties C06, C07). *)
EXTENDS SimKernel, Json
CONSTANTS NProc, MaxEv, MaxOps, Delays, Kinds, ResName, Prios, Amounts, ItemPrios
Z == <<>>
ResSpec ==
  CASE ResName = "res1" -> <<<<1, 1, 0>>>>
    [] ResName = "res2" -> <<<<1, 2, 0>>>>
    [] ResName = "prio1" -> <<<<2, 1, 0>>>>
    [] ResName = "preempt1" -> <<<<3, 1, 0>>>>
    [] ResName = "preempt2" -> <<<<3, 2, 0>>>>
    [] ResName = "cont" -> <<<<4, 3, 2>>>>
    [] ResName = "contbig" -> <<<<4, 4, 1>>>>
    [] ResName = "store1" -> <<<<5, 1, 0>>>>
    [] ResName = "store2" -> <<<<5, 2, 0>>>>
    [] ResName = "pstore2" -> <<<<6, 2, 0>>>>
    [] ResName = "fstore2" -> <<<<7, 2, 0>>>>
    [] ResName = "storeinf" -> <<<<5, 1000000, 0>>>>
\* ResSpec: sequence of <<kind code, capacity, initial level>>
MkOps == [i \in 1..Len(ResSpec) |-> Op("mkres", ResSpec[i][2], ResSpec[i][3], 0, <<ResSpec[i][1]>>)]
SpawnOps == [i \in 1..NProc |-> Op("spawn", 0, 0, 0, Z)]

Init ==
  /\ now = 0 /\ seq = NProc + 1
  /\ evs = [i \in 1..(2 * NProc) |->
              IF i % 2 = 1 THEN NewEv("proc", "pending", TRUE, None, FALSE, <<Cb("probe", i)>>, (i + 1) \div 2, <<>>, FALSE)
              ELSE NewEv("init", "triggered", TRUE, Val("init", 0, <<>>), FALSE, <<Cb("resume", i \div 2)>>, i \div 2, <<>>, FALSE)]
  /\ agenda = {[t |-> 0, prio |-> URG, k |-> p, e |-> 2 * p] : p \in 1..NProc}
  /\ procs = [p \in 1..NProc |-> [pe |-> 2 * p - 1, tgt |-> 2 * p, alive |-> TRUE, n |-> 0, catch |-> 0]]
  /\ cur = NoCur /\ run = NoRun
  /\ top = [mode |-> "top", uk |-> "none", ue |-> 0, ut |-> 0, n |-> Len(ResSpec) + NProc]
  /\ log = <<>>
  /\ script = <<MkOps \o SpawnOps>> \o [p \in 1..NProc |-> <<>>]
  /\ res = [i \in 1..Len(ResSpec) |->
              [kind |-> ResKind[ResSpec[i][1]], cap |-> ResSpec[i][2], users |-> <<>>, putq |-> <<>>, getq |-> <<>>,
               level |-> ResSpec[i][3], items |-> <<>>, init |-> ResSpec[i][3]]]
  /\ ftab = IntTimes

IsResKind(r) == res[r].kind \in {"res", "prio", "preempt"}
Mine(kinds) == {e \in 1..Len(evs) : evs[e].kind \in kinds /\ evs[e].pr = P}
InQ(q, e) == \E i \in 1..Len(q) : q[i] = e
\* process P holds or awaits a request on r
Outstanding(r) == \E e \in Mine({"req"}) : evs[e].kids[1] = r /\ (InQ(res[r].putq, e) \/ InQ(res[r].users, e))
HoldsAny == \E r \in 1..Len(res) : IsResKind(r) /\ Outstanding(r)
Room(n) == Len(evs) + n <= MaxEv
OpSpace ==
  (IF "sleep" \in Kinds /\ Room(1) THEN {Op("sleep", d, 0, 1, Z) : d \in Delays} ELSE {})
  \cup (IF "request" \in Kinds /\ Room(2)
        THEN {Op("request", r, pr, pre, Z) : r \in {x \in 1..Len(res) : IsResKind(x) /\ ~Outstanding(x)}, pr \in Prios, pre \in {0, 1}}
        ELSE {})
  \cup (IF "release" \in Kinds /\ Room(1) THEN {Op("release", e, 0, 0, Z) : e \in Mine({"req"})} ELSE {})
  \cup (IF "cancel" \in Kinds THEN {Op("cancel", e, 0, 0, Z) : e \in {x \in Mine({"req", "put", "get"}) : QueuedOrDone(x)}} ELSE {})
  \cup (IF "withexit" \in Kinds /\ Room(1) THEN {Op("withexit", e, 0, 0, Z) : e \in {x \in Mine({"req"}) : QueuedOrDone(x)}} ELSE {})
  \cup (IF "put" \in Kinds /\ Room(1)
        THEN {Op("put", r, a, 0, Z) : r \in {x \in 1..Len(res) : res[x].kind = "cont"}, a \in Amounts}
             \cup {Op("put", r, 100 * ip + Len(evs) + 1, 0, Z) : r \in {x \in 1..Len(res) : res[x].kind \in {"store", "pstore", "fstore"}}, ip \in ItemPrios}
        ELSE {})
  \cup (IF "get" \in Kinds /\ Room(1)
        THEN {Op("get", r, a, 0, Z) : r \in {x \in 1..Len(res) : res[x].kind = "cont"}, a \in Amounts}
             \cup {Op("get", r, 0, 0, Z) : r \in {x \in 1..Len(res) : res[x].kind \in {"store", "pstore", "fstore"}}}
             \cup UNION {{Op("get", r, f, 0, Z) : f \in {res[r].items[i] : i \in 1..Len(res[r].items)}} : r \in {x \in 1..Len(res) : res[x].kind = "fstore"}}
        ELSE {})
  \cup (IF "yield" \in Kinds THEN {Op("yield", e, 0, 1, Z) : e \in Mine({"req", "put", "get", "rel"})} ELSE {})
ProcOps == (IF procs[P].n < MaxOps THEN OpSpace ELSE {})
           \cup (IF ~HoldsAny THEN {Op("return", 0, 0, 0, Z)} ELSE {})
           \* a process at its op limit that still holds a request leaves its with-block
           \cup (IF procs[P].n >= MaxOps /\ HoldsAny
                 THEN {Op("withexit", e, 0, 0, Z) : e \in {x \in Mine({"req"}) : QueuedOrDone(x) /\ Outstanding(evs[x].kids[1])
                                                              /\ (InQ(res[evs[x].kids[1]].putq, x) \/ InQ(res[evs[x].kids[1]].users, x))}}
                 ELSE {})
ProcStep == CanAct /\ \E o \in ProcOps : Do(o)
TopStep == TopCanAct /\ top.n = Len(ResSpec) + NProc /\ Do(Op("steps", 0, 0, 0, Z))
Next == (Pop \/ NextCb \/ EndStep \/ RunDry \/ StepDry \/ Uncaught \/ ProcStep \/ TopStep) /\ UNCHANGED ftab
Spec == Init /\ [][Next]_kvars

Done == TopCanAct /\ run.p = 0 /\ top.n > Len(ResSpec) + NProc
Emit == Done => PrintT(<<"EMIT", ToJson([script |-> script, log |-> log, final |-> FinalState])>>)

(* ------------------------------ C06 ------------------------------ *)
AboutToAdvance == Idle /\ top.mode = "steps" /\ (agenda = {} \/ MinEntry(agenda).t > now)
Capacity == \A r \in 1..Len(res) : Len(res[r].users) <= res[r].cap
NoIdleSlot == AboutToAdvance => \A r \in 1..Len(res) : (IsResKind(r) /\ res[r].putq # <<>>) => Len(res[r].users) >= res[r].cap
QueueSorted == \A r \in 1..Len(res) : res[r].kind \in {"prio", "preempt"} =>
                 \A i, j \in 1..Len(res[r].putq) : i < j => ~KeyLess(evs, res[r].putq[j], res[r].putq[i])
UsersDistinct == \A r \in 1..Len(res) : \A i, j \in 1..Len(res[r].users) : i # j => res[r].users[i] # res[r].users[j]
Pos(q, x) == CHOOSE i \in 1..Len(q) : q[i] = x
\* a request is never granted ahead of one that was already waiting and ranks before it
GrantOrder ==
  [][\A r \in 1..Len(res) : IsResKind(r) =>
       \A e \in {x \in 1..Len(evs') : InQ(res'[r].users, x) /\ ~InQ(res[r].users, x)} :
         \A f \in {x \in 1..Len(evs) : InQ(res[r].putq, x) /\ InQ(res'[r].putq, x)} :
            LET Q == IF InQ(res[r].putq, e) THEN res[r].putq ELSE InsertPut(evs', res[r].putq, e, res[r].kind)
            IN Pos(Q, e) < Pos(Q, f)]_kvars
\* preemption: the evicted user ranks strictly worse than the preemptor and no user ranks worse than it; the cause names
\* the preemptor's process, the victim's usage_since and the resource; the slot goes to the preemptor
PreemptRule ==
  [][\A i \in (Len(evs) + 1)..Len(evs') : evs'[i].val.k = "preempted" =>
       LET r == evs'[i].val.s[2]
           gone == {x \in 1..Len(evs) : InQ(res[r].users, x) /\ ~InQ(res'[r].users, x)}
           new == {x \in 1..Len(evs') : InQ(res'[r].users, x) /\ ~InQ(res[r].users, x)}
       IN /\ Cardinality(gone) = 1 /\ Cardinality(new) = 1
          /\ LET v == CHOOSE x \in gone : TRUE  e == CHOOSE x \in new : TRUE IN
             /\ KeyLess(evs', e, v) /\ evs'[e].kids[3] = 1
             /\ \A u \in 1..Len(res[r].users) : ~KeyLess(evs, v, res[r].users[u])
             /\ evs'[i].pr = evs[v].pr /\ evs'[i].val.a = evs'[e].pr /\ evs'[i].val.s[1] = evs[v].kids[5]]_kvars
NoEvictionWithoutPreempt ==
  [][\A r \in 1..Len(res) : (IsResKind(r) /\ res[r].kind # "preempt") =>
       \A x \in 1..Len(evs) : (InQ(res[r].users, x) /\ ~InQ(res'[r].users, x)) =>
          \E g \in 1..Len(evs') : evs'[g].kind \in {"rel", "relx"} /\ evs'[g].kids[2] = x /\ evs'[g].st # "pending" /\ (g > Len(evs) \/ evs[g].st = "pending")]_kvars

(* ------------------------------ C07 ------------------------------ *)
IsCont(r) == res[r].kind = "cont"
IsStore(r) == res[r].kind \in {"store", "pstore", "fstore"}
RECURSIVE SumAmt(_, _, _)
SumAmt(kind, r, n) == IF n = 0 THEN 0
                      ELSE (IF evs[n].kind = kind /\ evs[n].kids[1] = r /\ evs[n].st # "pending" THEN evs[n].kids[2] ELSE 0) + SumAmt(kind, r, n - 1)
LevelBounds == \A r \in 1..Len(res) : IsCont(r) => res[r].level >= 0 /\ res[r].level <= res[r].cap
LevelConservation == \A r \in 1..Len(res) : IsCont(r) =>
                        res[r].level = res[r].init + SumAmt("put", r, Len(evs)) - SumAmt("get", r, Len(evs))
StoreBound == \A r \in 1..Len(res) : IsStore(r) => Len(res[r].items) <= res[r].cap
\* every accepted item is in the store or has been handed to exactly one getter
Granted(kind, r) == {e \in 1..Len(evs) : evs[e].kind = kind /\ evs[e].kids[1] = r /\ evs[e].st # "pending"}
ItemsOnce == \A r \in 1..Len(res) : IsStore(r) =>
   LET putItems == {evs[e].kids[2] : e \in Granted("put", r)}
       gotItems == {evs[e].val.a : e \in Granted("get", r)}
       inStore == {res[r].items[i] : i \in 1..Len(res[r].items)}
   IN /\ putItems = gotItems \cup inStore /\ gotItems \cap inStore = {}
      /\ Cardinality(gotItems) = Cardinality(Granted("get", r))
      /\ Cardinality(inStore) = Len(res[r].items)
\* a getter served in this step received the right item: oldest (Store), smallest (PriorityStore), first match (FilterStore)
StoreOrder ==
  [][\A r \in 1..Len(res) : IsStore(r) =>
       \A g \in {x \in 1..Len(evs') : evs'[x].kind = "get" /\ evs'[x].kids[1] = r /\ evs'[x].st # "pending"
                                      /\ (x > Len(evs) \/ evs[x].st = "pending")} :
          LET x == evs'[g].val.a
              \* items the getter could choose from: those in the store before the step plus those put during it
              avail == {res[r].items[i] : i \in 1..Len(res[r].items)}
          IN (x \in avail /\ Cardinality({y \in 1..Len(evs') : evs'[y].kind = "get" /\ evs'[y].kids[1] = r /\ evs'[y].st # "pending"
                                                         /\ (y > Len(evs) \/ evs[y].st = "pending")}) = 1) =>
             CASE res[r].kind = "store" -> x = res[r].items[1]
               [] res[r].kind = "pstore" -> \A y \in avail : x <= y
               [] OTHER -> \A i \in 1..Len(res[r].items) : (res[r].items[i] # x /\ Match(evs'[g].kids[2], res[r].items[i])) =>
                              \E j \in 1..Len(res[r].items) : j < i /\ res[r].items[j] = x]_kvars
\* puts and gets are served first come first served (FilterStore getters excepted)
QueueFifo ==
  [][\A r \in 1..Len(res) : (IsCont(r) \/ IsStore(r)) =>
       /\ \A e \in {x \in 1..Len(evs) : InQ(res[r].putq, x) /\ ~InQ(res'[r].putq, x) /\ evs'[x].st # "pending"} :
            \A f \in {x \in 1..Len(evs) : InQ(res[r].putq, x) /\ InQ(res'[r].putq, x)} : Pos(res[r].putq, e) < Pos(res[r].putq, f)
       /\ res[r].kind # "fstore" =>
          \A e \in {x \in 1..Len(evs) : InQ(res[r].getq, x) /\ ~InQ(res'[r].getq, x) /\ evs'[x].st # "pending"} :
            \A f \in {x \in 1..Len(evs) : InQ(res[r].getq, x) /\ InQ(res'[r].getq, x)} : Pos(res[r].getq, e) < Pos(res[r].getq, f)]_kvars
NoStranded == AboutToAdvance => \A r \in 1..Len(res) :
   /\ (IsCont(r) /\ res[r].putq # <<>>) => evs[res[r].putq[1]].kids[2] > res[r].cap - res[r].level
   /\ (IsCont(r) /\ res[r].getq # <<>>) => evs[res[r].getq[1]].kids[2] > res[r].level
   /\ (IsStore(r) /\ res[r].putq # <<>>) => Len(res[r].items) >= res[r].cap
   /\ (res[r].kind \in {"store", "pstore"} /\ res[r].getq # <<>>) => res[r].items = <<>>
   /\ (res[r].kind = "fstore") => \A i \in 1..Len(res[r].getq) : \A j \in 1..Len(res[r].items) :
                                        ~Match(evs[res[r].getq[i]].kids[2], res[r].items[j])
=============================================================================
