------------------------------ MODULE SimKernel ------------------------------
(***************************************************************************)
(* Implementation-shaped specification of the discrete-event kernel        *)
(* (onl/sim/core.py, events.py): agenda, event life cycle, ordered         *)
(* callback lists, generator processes, interrupts, condition events,      *)
(* run(until)/step() -- properties C01-C05 (C06, C07, C20 build on it).    *)
(*                                                                         *)
(* One action per critical section of the code: Pop (heappop + detach the  *)
(* callbacks), one NextCb disjunct per callback kind, EndStep (re-raise an *)
(* undefused failure), one Do(op) case per API call of the running         *)
(* process or of the top level, and the run()/step() entry and exit        *)
(* points.  Programs are not fixed: Do(o) is parameterised by the op       *)
(* record o; KernelMC lets TLC choose every o (all programs up to a bound, *)
(* each with its unique run), KernelTrace reads o from a recorded program. *)
(* `log` is the observable trace (what harness-owned process bodies and    *)
(* probe callbacks see); `script` the choices made (= the program).        *)
(***************************************************************************)
EXTENDS Naturals, Integers, Sequences, FiniteSets, TLC

CONSTANTS OrphanNested    \* deviation F19 (DESIGN 4.6): a nested condition nobody else depends on is detached
                          \* from its operands when the outer condition is processed (what the code does)

VARIABLES now,      \* simulated time
          agenda,   \* set of [t, prio, k, e]: scheduled events; k = global trigger order
          seq,      \* next k
          evs,      \* events by id: [kind, st, ok, val, def, cbs, pr, kids, all, cnt, orph]
          procs,    \* processes by id: [pe, tgt, alive, n, catch]
          cur,      \* [e, cbs]: event being processed and the callbacks still to invoke
          run,      \* [p, ok, val]: process currently executing and the outcome just delivered to it
          top,      \* top level: [mode, uk, ue, n]: "top" | "run" | "step", kind of until, until event, plan position
          log,      \* observable trace
          script    \* choices made: script[p + 1] = ops executed by process p (p = 0: the top-level plan)
kvars == <<now, agenda, seq, evs, procs, cur, run, top, log, script>>

URG == 0
NRM == 1
Val(k, a, s) == [k |-> k, a |-> a, s |-> s]
None == Val("none", 0, <<>>)
NoCur == [e |-> 0, cbs |-> <<>>]
NoRun == [p |-> 0, ok |-> TRUE, val |-> None]
Cb(t, x) == [t |-> t, x |-> x]
Op(k, a, b, c, s) == [k |-> k, a |-> a, b |-> b, c |-> c, s |-> s]

NewEv(kind, st, ok, val, def, cbs, pr, kids, all) ==
  [kind |-> kind, st |-> st, ok |-> ok, val |-> val, def |-> def, cbs |-> cbs, pr |-> pr,
   kids |-> kids, all |-> all, cnt |-> 0, orph |-> FALSE]

Entry(e, prio, d, k) == [t |-> now + d, prio |-> prio, k |-> k, e |-> e]
Less(a, b) == \/ a.t < b.t
              \/ a.t = b.t /\ a.prio < b.prio
              \/ a.t = b.t /\ a.prio = b.prio /\ a.k < b.k
MinEntry(ag) == CHOOSE a \in ag : \A b \in ag \ {a} : Less(a, b)
Peek(ag) == IF ag = {} THEN -1 ELSE MinEntry(ag).t

L(k, p, ok, v) == [k |-> k, p |-> p, t |-> now, ok |-> ok, v |-> v]

KInit ==
  /\ now = 0 /\ agenda = {} /\ seq = 1 /\ evs = <<>> /\ procs = <<>>
  /\ cur = NoCur /\ run = NoRun
  /\ top = [mode |-> "top", uk |-> "none", ue |-> 0, n |-> 0]
  /\ log = <<>> /\ script = <<<<>>>>

Stepping == top.mode \in {"run", "step"}
Idle == cur.e = 0 /\ run.p = 0

RemoveOne(s, x) ==
  IF \E j \in 1..Len(s) : s[j] = x
  THEN LET i == CHOOSE j \in 1..Len(s) : s[j] = x /\ \A m \in 1..(j - 1) : s[m] # x
       IN SubSeq(s, 1, i - 1) \o SubSeq(s, i + 1, Len(s))
  ELSE s
Has(s, x) == \E j \in 1..Len(s) : s[j] = x
SelectSeq2(s, Test(_)) == SelectSeq(s, Test)

(* ------------------------------------------------------------------------ *)
(* Kernel step                                                               *)
(* ------------------------------------------------------------------------ *)
\* run(until=event) registers its stop callback when run() is called; waiters that register later must still be
\* resumed, so the stop callback is invoked after the others (repaired behaviour, finding F20)
StopLast(cbs) == SelectSeq(cbs, LAMBDA c : c.t # "stop") \o SelectSeq(cbs, LAMBDA c : c.t = "stop")

Pop ==
  /\ Stepping /\ Idle /\ agenda # {}
  /\ LET a == MinEntry(agenda) IN
     /\ agenda' = agenda \ {a}
     /\ now' = a.t
     /\ cur' = [e |-> a.e, cbs |-> StopLast(evs[a.e].cbs)]
     /\ evs' = [evs EXCEPT ![a.e].st = "processed", ![a.e].cbs = <<>>]
  /\ UNCHANGED <<seq, procs, run, top, log, script>>

\* hand an outcome to process p: it becomes the running process
Deliver(p, ok, val, lg) ==
  /\ run' = [p |-> p, ok |-> ok, val |-> val]
  /\ log' = Append(lg, L("R", p, ok, val))

\* leaves of a condition that have been processed, in operand order, nested conditions flattened
RECURSIVE Leaves(_, _)
Leaves(E, c) ==
  LET RECURSIVE Go(_)
      Go(i) == IF i > Len(E[c].kids) THEN <<>>
               ELSE LET k == E[c].kids[i]
                    IN (IF E[k].kind = "cond" THEN Leaves(E, k)
                        ELSE IF E[k].st = "processed" THEN <<k>> ELSE <<>>) \o Go(i + 1)
  IN Go(1)

\* _remove_check_callbacks of condition c on event table E
RECURSIVE Detach(_, _)
Detach(E, c) ==
  LET RECURSIVE Go(_, _)
      Go(EE, i) ==
        IF i > Len(EE[c].kids) THEN EE
        ELSE LET k == EE[c].kids[i]
                 E1 == [EE EXCEPT ![k].cbs = RemoveOne(@, Cb("check", c))]
                 free == \A j \in 1..Len(E1[k].cbs) : E1[k].cbs[j] = Cb("build", k)
                 E2 == IF E1[k].kind = "cond" /\ OrphanNested /\ free
                       THEN [Detach(E1, k) EXCEPT ![k].orph = (E1[k].st = "pending")]
                       ELSE E1
             IN Go(E2, i + 1)
  IN Go(E, 1)

Pred(E, c, n) == IF E[c].all THEN n = Len(E[c].kids) ELSE (n > 0 \/ Len(E[c].kids) = 0)

\* Condition._check(ev) for condition c; returns <<E', agenda', seq'>>
CheckStep(E, ag, sq, c, ev) ==
  IF E[c].st # "pending" THEN <<E, ag, sq>>
  ELSE LET n == E[c].cnt + 1 IN
       IF ~E[ev].ok
       THEN <<[E EXCEPT ![c].cnt = n, ![ev].def = TRUE, ![c].st = "triggered", ![c].ok = FALSE, ![c].val = E[ev].val],
              ag \cup {Entry(c, NRM, 0, sq)}, sq + 1>>
       ELSE IF Pred(E, c, n)
       THEN <<[E EXCEPT ![c].cnt = n, ![c].st = "triggered", ![c].ok = TRUE, ![c].val = None],
              ag \cup {Entry(c, NRM, 0, sq)}, sq + 1>>
       ELSE <<[E EXCEPT ![c].cnt = n], ag, sq>>

\* what run()/step() do when they return or raise
Return(kind, v, lg) ==
  /\ top' = [top EXCEPT !.mode = "top", !.uk = "none", !.ue = 0]
  /\ log' = Append(lg, L(kind, 0, kind = "RET", v))

NextCb ==
  /\ cur.e # 0 /\ run.p = 0 /\ cur.cbs # <<>>
  /\ LET cb == Head(cur.cbs)  e == cur.e  rest == Tail(cur.cbs) IN
     CASE cb.t = "resume" ->
            /\ cur' = [cur EXCEPT !.cbs = rest]
            /\ Deliver(cb.x, evs[e].ok, evs[e].val, log)
            /\ evs' = IF evs[e].ok THEN evs ELSE [evs EXCEPT ![e].def = TRUE]
            /\ UNCHANGED <<agenda, seq, procs, top>>
       [] cb.t = "intr" ->
            LET p == evs[e].pr IN
            /\ cur' = [cur EXCEPT !.cbs = rest]
            /\ IF ~procs[p].alive THEN UNCHANGED <<run, log, evs>>
               ELSE /\ evs' = [evs EXCEPT ![procs[p].tgt].cbs = RemoveOne(@, Cb("resume", p))]
                    /\ Deliver(p, FALSE, evs[e].val, log)
            /\ UNCHANGED <<agenda, seq, procs, top>>
       [] cb.t = "check" ->
            LET r == CheckStep(evs, agenda, seq, cb.x, e) IN
            /\ cur' = [cur EXCEPT !.cbs = rest]
            /\ evs' = r[1] /\ agenda' = r[2] /\ seq' = r[3]
            /\ UNCHANGED <<procs, run, top, log>>
       [] cb.t = "build" ->
            LET E1 == Detach(evs, e) IN
            /\ cur' = [cur EXCEPT !.cbs = rest]
            /\ evs' = IF evs[e].ok THEN [E1 EXCEPT ![e].val = Val("cv", 0, Leaves(E1, e))] ELSE E1
            /\ UNCHANGED <<agenda, seq, procs, run, top, log>>
       [] cb.t = "probe" ->
            /\ cur' = [cur EXCEPT !.cbs = rest]
            /\ log' = Append(log, L("P", e, evs[e].ok, evs[e].val))
            /\ UNCHANGED <<agenda, seq, evs, procs, run, top>>
       [] cb.t = "stop" ->
            \* StopSimulation.callback: run() returns the value, or re-raises the failure; the step is abandoned
            /\ cur' = NoCur
            /\ IF top.mode = "step" /\ evs[e].ok
               THEN Return("X", Val("StopSimulation", 0, <<>>), log)   \* a stale stop callback fires under step()
               ELSE Return(IF evs[e].ok THEN "RET" ELSE "X", evs[e].val, log)
            /\ UNCHANGED <<agenda, seq, evs, procs, run>>
  /\ UNCHANGED <<now, script>>

EndStep ==
  /\ cur.e # 0 /\ run.p = 0 /\ cur.cbs = <<>>
  /\ cur' = NoCur
  /\ IF ~evs[cur.e].ok /\ ~evs[cur.e].def
     THEN Return("X", evs[cur.e].val, log)                        \* an unhandled failure escapes step()/run()
     ELSE IF top.mode = "step"
     THEN /\ top' = [top EXCEPT !.mode = "top"]
          /\ log' = Append(log, L("T", 0, TRUE, Val("peek", Peek(agenda), <<>>)))
     ELSE UNCHANGED <<top, log>>
  /\ UNCHANGED <<now, agenda, seq, evs, procs, run, script>>

\* run(): no events left
RunDry ==
  /\ top.mode = "run" /\ Idle /\ agenda = {}
  /\ IF top.uk = "none" THEN Return("RET", None, log)
     ELSE Return("X", Val("RuntimeError", 0, <<>>), log)          \* until-event never triggered
  /\ UNCHANGED <<now, agenda, seq, evs, procs, cur, run, script>>
\* step() on an empty schedule
StepDry ==
  /\ top.mode = "step" /\ Idle /\ agenda = {}
  /\ Return("X", Val("EmptySchedule", 0, <<>>), log)
  /\ UNCHANGED <<now, agenda, seq, evs, procs, cur, run, script>>

(* ------------------------------------------------------------------------ *)
(* API calls: Do(o) executed by the running process P (or by the top level,  *)
(* P = 0, between run()/step() calls)                                        *)
(* ------------------------------------------------------------------------ *)
P == run.p
Bump(pr) == IF P = 0 THEN pr ELSE [pr EXCEPT ![P].n = @ + 1]
NOps == IF P = 0 THEN top.n ELSE procs[P].n
Exists(e) == e \in 1..Len(evs)
Noted(o) == script' = IF o.k = "spawn" THEN [script EXCEPT ![P + 1] = Append(@, o)] \o <<<<>>>>
                                       ELSE [script EXCEPT ![P + 1] = Append(@, o)]
TopOnly == {"run", "step", "rununtil", "runev"}
UserKinds == {"to", "ev", "proc", "cond"}
\* an op that names something that does not exist (yet) has no effect (logged as Skip)
Valid(o) ==
  CASE o.k = "yield" -> P # 0 /\ Exists(o.a) /\ evs[o.a].kind \in UserKinds /\ o.a # procs[P].pe
    [] o.k \in {"succeed", "fail"} -> Exists(o.a) /\ evs[o.a].kind = "ev"
    [] o.k = "interrupt" -> o.a \in 1..Len(procs)
    [] o.k = "cond" -> /\ \A i \in 1..Len(o.s) : Exists(o.s[i]) /\ evs[o.s[i]].kind \in UserKinds
                       /\ \A i, j \in 1..Len(o.s) : i # j => o.s[i] # o.s[j]
    [] o.k = "runev" -> Exists(o.a) /\ evs[o.a].kind \in UserKinds
    [] OTHER -> TRUE
Refused(type) == Append(log, L("E", P, FALSE, Val(type, 0, <<>>)))

\* the process event terminates: schedule it
ProcEnd(p, ok, val, E, pr) ==
  LET pe == pr[p].pe IN
  /\ evs' = [E EXCEPT ![pe].st = "triggered", ![pe].ok = ok, ![pe].val = val]
  /\ agenda' = agenda \cup {Entry(pe, NRM, 0, seq)} /\ seq' = seq + 1
  /\ procs' = [pr EXCEPT ![p].alive = FALSE, ![p].tgt = 0]
  /\ run' = NoRun

\* `yield e` by process P with catch flag c, on event table E / process table pr / agenda ag / counter sq / log lg
YieldOn(e, c, E, pr, ag, sq, lg) ==
  IF E[e].st = "processed"
  THEN /\ Deliver(P, E[e].ok, E[e].val, lg)                       \* continues at once with that outcome
       /\ evs' = IF E[e].ok THEN E ELSE [E EXCEPT ![e].def = TRUE]
       /\ procs' = [pr EXCEPT ![P].catch = c] /\ agenda' = ag /\ seq' = sq
  ELSE /\ evs' = [E EXCEPT ![e].cbs = Append(@, Cb("resume", P))]
       /\ procs' = [pr EXCEPT ![P].tgt = e, ![P].catch = c]
       /\ run' = NoRun /\ log' = lg /\ agenda' = ag /\ seq' = sq

Do(o) ==
  /\ Noted(o)
  /\ UNCHANGED <<now, cur>>
  /\ (o.k \notin TopOnly => top' = IF P = 0 THEN [top EXCEPT !.n = @ + 1] ELSE top)
  /\ CASE o.k = "timeout" ->                       \* env.timeout(d, value) + probe; not yielded
            LET e == Len(evs) + 1 IN
            /\ o.a >= 0
            /\ evs' = Append(evs, NewEv("to", "triggered", TRUE, Val("v", e, <<>>), FALSE, <<Cb("probe", e)>>, 0, <<>>, FALSE))
            /\ agenda' = agenda \cup {Entry(e, NRM, o.a, seq)} /\ seq' = seq + 1
            /\ procs' = Bump(procs) /\ UNCHANGED <<run, log>>
       [] o.k = "sleep" ->                         \* yield env.timeout(d, value)
            LET e == Len(evs) + 1
                E1 == Append(evs, NewEv("to", "triggered", TRUE, Val("v", e, <<>>), FALSE, <<Cb("probe", e)>>, 0, <<>>, FALSE))
            IN /\ P # 0 /\ o.a >= 0
               /\ YieldOn(e, o.c, E1, Bump(procs), agenda \cup {Entry(e, NRM, o.a, seq)}, seq + 1, log)
       [] o.k = "baddelay" ->                      \* env.timeout(-1): ValueError, nothing created
            /\ log' = Refused("ValueError") /\ procs' = Bump(procs)
            /\ UNCHANGED <<agenda, seq, evs, run>>
       [] o.k = "event" ->
            LET e == Len(evs) + 1 IN
            /\ evs' = Append(evs, NewEv("ev", "pending", TRUE, None, FALSE, <<Cb("probe", e)>>, 0, <<>>, FALSE))
            /\ procs' = Bump(procs) /\ UNCHANGED <<agenda, seq, run, log>>
       [] o.k \in {"succeed", "fail"} ->
            /\ Exists(o.a) /\ evs[o.a].kind = "ev"
            /\ IF evs[o.a].st = "pending"
               THEN /\ evs' = [evs EXCEPT ![o.a].st = "triggered", ![o.a].ok = (o.k = "succeed"),
                                          ![o.a].val = Val(IF o.k = "succeed" THEN "v" ELSE "x", o.a, <<>>)]
                    /\ agenda' = agenda \cup {Entry(o.a, NRM, 0, seq)} /\ seq' = seq + 1 /\ log' = log
               ELSE /\ log' = Refused("RuntimeError") /\ UNCHANGED <<evs, agenda, seq>>
            /\ procs' = Bump(procs) /\ UNCHANGED run
       [] o.k = "spawn" ->
            LET q == Len(procs) + 1  pe == Len(evs) + 1  ie == Len(evs) + 2 IN
            /\ evs' = evs \o << NewEv("proc", "pending", TRUE, None, FALSE, <<Cb("probe", pe)>>, q, <<>>, FALSE),
                                NewEv("init", "triggered", TRUE, Val("init", 0, <<>>), FALSE, <<Cb("resume", q)>>, q, <<>>, FALSE) >>
            /\ procs' = Append(Bump(procs), [pe |-> pe, tgt |-> ie, alive |-> TRUE, n |-> 0, catch |-> 0])
            /\ agenda' = agenda \cup {Entry(ie, URG, 0, seq)} /\ seq' = seq + 1
            /\ UNCHANGED <<run, log>>
       [] o.k = "interrupt" ->
            /\ IF o.a \notin 1..Len(procs) \/ ~procs[o.a].alive \/ o.a = P
               THEN /\ log' = Refused("RuntimeError") /\ UNCHANGED <<evs, agenda, seq>>
               ELSE LET ie == Len(evs) + 1 IN
                    /\ evs' = Append(evs, NewEv("intr", "triggered", FALSE, Val("intr", P, <<NOps>>), TRUE, <<Cb("intr", 0)>>, o.a, <<>>, FALSE))
                    /\ agenda' = agenda \cup {Entry(ie, URG, 0, seq)} /\ seq' = seq + 1 /\ log' = log
            /\ procs' = Bump(procs) /\ UNCHANGED run
       [] o.k = "cond" ->                          \* a = 1: all_of, 0: any_of; s = operands; b = 1: with probe
            LET c == Len(evs) + 1
                probe == IF o.b = 1 THEN <<Cb("probe", c)>> ELSE <<>>
                E0 == Append(evs, NewEv("cond", "pending", TRUE, None, FALSE, <<>>, 0, o.s, o.a = 1))
                RECURSIVE Attach(_, _)
                Attach(r, i) ==
                  IF i > Len(o.s) THEN r
                  ELSE LET k == o.s[i] IN
                       IF r[1][k].st = "processed" THEN Attach(CheckStep(r[1], r[2], r[3], c, k), i + 1)
                       ELSE Attach(<<[r[1] EXCEPT ![k].cbs = Append(@, Cb("check", c))], r[2], r[3]>>, i + 1)
            IN /\ \A i \in 1..Len(o.s) : Exists(o.s[i])
               /\ IF o.s = <<>>
                  THEN /\ evs' = [E0 EXCEPT ![c].st = "triggered", ![c].val = Val("cv", 0, <<>>), ![c].cbs = probe]
                       /\ agenda' = agenda \cup {Entry(c, NRM, 0, seq)} /\ seq' = seq + 1
                  ELSE LET r == Attach(<<E0, agenda, seq>>, 1) IN
                       /\ evs' = [r[1] EXCEPT ![c].cbs = <<Cb("build", c)>> \o probe]
                       /\ agenda' = r[2] /\ seq' = r[3]
               /\ procs' = Bump(procs) /\ UNCHANGED <<run, log>>
       [] o.k = "condforeign" ->                   \* operands from another environment: ValueError, no effect
            /\ log' = Refused("ValueError") /\ procs' = Bump(procs)
            /\ UNCHANGED <<agenda, seq, evs, run>>
       [] o.k = "yield" ->
            /\ P # 0 /\ Exists(o.a) /\ o.a # procs[P].pe
            /\ YieldOn(o.a, o.c, evs, Bump(procs), agenda, seq, log)
       [] o.k \in {"return", "raise"} ->
            /\ P # 0
            /\ ProcEnd(P, o.k = "return", Val(IF o.k = "return" THEN "ret" ELSE "exc", P, <<>>), evs, Bump(procs))
            /\ UNCHANGED log
       [] o.k = "skip" ->                          \* an op naming something that does not exist (yet): no effect
            /\ log' = Refused("Skip") /\ procs' = Bump(procs)
            /\ UNCHANGED <<agenda, seq, evs, run>>
       (* ---- top level only ---- *)
       [] o.k = "run" ->
            /\ P = 0
            /\ top' = [top EXCEPT !.mode = "run", !.uk = "none", !.ue = 0, !.n = @ + 1]
            /\ UNCHANGED <<agenda, seq, evs, procs, run, log>>
       [] o.k = "step" ->
            /\ P = 0
            /\ top' = [top EXCEPT !.mode = "step", !.n = @ + 1]
            /\ UNCHANGED <<agenda, seq, evs, procs, run, log>>
       [] o.k = "rununtil" ->                      \* run(until = number a)
            /\ P = 0
            /\ IF o.a <= now
               THEN /\ log' = Append(log, L("X", 0, FALSE, Val("ValueError", 0, <<>>)))
                    /\ top' = [top EXCEPT !.n = @ + 1]
                    /\ UNCHANGED <<evs, agenda, seq>>
               ELSE LET u == Len(evs) + 1 IN
                    /\ evs' = Append(evs, NewEv("until", "triggered", TRUE, None, FALSE, <<Cb("stop", 0)>>, 0, <<>>, FALSE))
                    /\ agenda' = agenda \cup {Entry(u, URG, o.a - now, seq)} /\ seq' = seq + 1
                    /\ top' = [top EXCEPT !.mode = "run", !.uk = "time", !.ue = u, !.n = @ + 1]
                    /\ log' = log
            /\ UNCHANGED <<procs, run>>
       [] o.k = "runev" ->                         \* run(until = event a)
            /\ P = 0 /\ Exists(o.a)
            /\ IF evs[o.a].st = "processed"
               THEN /\ log' = Append(log, L("RET", 0, TRUE, evs[o.a].val))       \* returns its value at once
                    /\ top' = [top EXCEPT !.n = @ + 1] /\ UNCHANGED evs
               ELSE /\ evs' = [evs EXCEPT ![o.a].cbs = Append(@, Cb("stop", 0))]
                    /\ top' = [top EXCEPT !.mode = "run", !.uk = "ev", !.ue = o.a, !.n = @ + 1]
                    /\ log' = log
            /\ UNCHANGED <<agenda, seq, procs, run>>

\* a failure thrown at a yield whose handler does not catch it: the process fails with that exception
Uncaught ==
  /\ P # 0 /\ ~run.ok /\ procs[P].catch = 0
  /\ ProcEnd(P, FALSE, run.val, evs, procs)
  /\ UNCHANGED <<now, cur, top, log, script>>
CanAct == P # 0 /\ (run.ok \/ procs[P].catch = 1)
TopCanAct == P = 0 /\ top.mode = "top" /\ cur.e = 0

Kernel == Pop \/ NextCb \/ EndStep \/ RunDry \/ StepDry \/ Uncaught

(* ------------------------------------------------------------------------ *)
(* Properties (state predicates over the state and the observable log)       *)
(* ------------------------------------------------------------------------ *)
Cnt(s, x) == Cardinality({i \in 1..Len(s) : s[i] = x})
\* C02/C04: a live process that is not running is registered exactly once, on its target, and nowhere else
SingleWait ==
  \A p \in 1..Len(procs) :
    (procs[p].alive /\ run.p # p) =>
      \A e \in 1..Len(evs) :
        LET c == Cnt(evs[e].cbs, Cb("resume", p)) + (IF cur.e = e THEN Cnt(cur.cbs, Cb("resume", p)) ELSE 0)
        IN IF e = procs[p].tgt THEN c = 1 ELSE c = 0
\* C01: the clock never runs backwards, nothing is processed before or after its due time
TimeMonotone == [][now' >= now]_kvars
AgendaNotPast == \A a \in agenda : a.t >= now
\* C02: processed events carry no callbacks any more; an event is in the agenda iff triggered and not processed
LifeCycle ==
  \A e \in 1..Len(evs) :
    /\ (evs[e].st = "processed" /\ cur.e # e) => evs[e].cbs = <<>>
    /\ (evs[e].st = "triggered") <=> (\E a \in agenda : a.e = e)
    /\ Cardinality({a \in agenda : a.e = e}) <= 1
\* C05: a pending (not orphaned) condition has not met its predicate on the operands processed so far
CondPendingMeansUnmet ==
  \A c \in 1..Len(evs) :
    (evs[c].kind = "cond" /\ evs[c].st = "pending" /\ ~evs[c].orph) =>
       ~Pred(evs, c, Cardinality({i \in 1..Len(evs[c].kids) : evs[evs[c].kids[i]].st = "processed" /\ cur.e # evs[c].kids[i]}))
=============================================================================
