------------------------------ MODULE SimKernel ------------------------------
(***************************************************************************)
(* Implementation-shaped specification of the discrete-event kernel        *)
(* (onl/sim/core.py, events.py): agenda, event life cycle, ordered         *)
(* callback lists, generator processes, interrupts, condition events,      *)
(* run(until)/step() -- properties C01-C05 (C06, C07, C20 build on it).    *)
(*                                                                         *)
(* One action per critical section of the code: Pop (heappop + detach the  *)
(* callbacks), one NextCb disjunct per callback kind, EndStep (re-raise an *)
(* undefused failure), one Do(op) case per API call of the running         *)
(* process or of the top level, and the run()/step() entry and exit        *)
(* points.  Programs are not fixed: Do(o) is parameterised by the op       *)
(* record o; KernelMC lets TLC choose every o (all programs up to a bound, *)
(* each with its unique run), KernelTrace reads o from a recorded program. *)
(* `log` is the observable trace (what harness-owned process bodies and    *)
(* probe callbacks see); `script` the choices made (= the program).        *)
(***************************************************************************)
EXTENDS Naturals, Integers, Sequences, FiniteSets, TLC

CONSTANTS OrphanNested    \* deviation F19 (DESIGN 4.6): a nested condition nobody else depends on is detached
                          \* from its operands when the outer condition is processed (what the code does)

VARIABLES now,      \* simulated time
          agenda,   \* set of [t, prio, k, e]: scheduled events; k = global trigger order
          seq,      \* next k
          evs,      \* events by id: [kind, st, ok, val, def, cbs, pr, kids, all, cnt, orph]
          procs,    \* processes by id: [pe, tgt, alive, n, catch]
          cur,      \* [e, cbs]: event being processed and the callbacks still to invoke
          run,      \* [p, ok, val]: process currently executing and the outcome just delivered to it
          top,      \* top level: [mode, uk, ue, n]: "top" | "run" | "step", kind of until, until event, plan position
          log,      \* observable trace
          script,   \* choices made: script[p + 1] = ops executed by process p (p = 0: the top-level plan)
          res,      \* shared resources by id: [kind, cap, users, putq, getq, level, items] (C06, C07)
          ftab      \* frozen: float-instant table [on, plus, unt] (see Add); on = FALSE means integer instants
kvars == <<now, agenda, seq, evs, procs, cur, run, top, log, script, res, ftab>>

URG == 0
NRM == 1
Val(k, a, s) == [k |-> k, a |-> a, s |-> s]
None == Val("none", 0, <<>>)
NoCur == [e |-> 0, cbs |-> <<>>]
NoRun == [p |-> 0, ok |-> TRUE, val |-> None]
Cb(t, x) == [t |-> t, x |-> x]
Op(k, a, b, c, s) == [k |-> k, a |-> a, b |-> b, c |-> c, s |-> s]

NewEv(kind, st, ok, val, def, cbs, pr, kids, all) ==
  [kind |-> kind, st |-> st, ok |-> ok, val |-> val, def |-> def, cbs |-> cbs, pr |-> pr,
   kids |-> kids, all |-> all, cnt |-> 0, orph |-> FALSE]

(* Instants.  With integer delays an instant is a number and t + d is addition.  For programs with float delays the   *)
(* harness replaces every instant by its rank among all float sums occurring in the run (order and equality of floats  *)
(* are all the kernel uses) and supplies ftab.plus[rank of t + 1][delay index] = rank of the float sum t + d and       *)
(* ftab.unt[i] = rank of the i-th until instant; delay index 0 means "this instant".                                   *)
IntTimes == [on |-> FALSE, plus |-> <<>>, unt |-> <<>>, neg |-> <<>>]
\* a delay is refused (ValueError) when it is negative: a negative number, or a delay index flagged negative
NegDelay(d) == IF ftab.on THEN ftab.neg[d] = 1 ELSE d < 0
Add(t, d) == IF ftab.on THEN (IF d = 0 THEN t ELSE ftab.plus[t + 1][d]) ELSE t + d
UntilAt(a) == IF ftab.on THEN ftab.unt[a] ELSE a
Entry(e, prio, d, k) == [t |-> Add(now, d), prio |-> prio, k |-> k, e |-> e]
Less(a, b) == \/ a.t < b.t
              \/ a.t = b.t /\ a.prio < b.prio
              \/ a.t = b.t /\ a.prio = b.prio /\ a.k < b.k
MinEntry(ag) == CHOOSE a \in ag : \A b \in ag \ {a} : Less(a, b)
Peek(ag) == IF ag = {} THEN -1 ELSE MinEntry(ag).t

L(k, p, ok, v) == [k |-> k, p |-> p, t |-> now, ok |-> ok, v |-> v]

KInit ==
  /\ now = 0 /\ agenda = {} /\ seq = 1 /\ evs = <<>> /\ procs = <<>>
  /\ cur = NoCur /\ run = NoRun
  /\ top = [mode |-> "top", uk |-> "none", ue |-> 0, ut |-> 0, n |-> 0]
  /\ log = <<>> /\ script = <<<<>>>> /\ res = <<>> /\ ftab = IntTimes

Stepping == top.mode \in {"run", "step", "steps"}
Idle == cur.e = 0 /\ run.p = 0

RemoveOne(s, x) ==
  IF \E j \in 1..Len(s) : s[j] = x
  THEN LET i == CHOOSE j \in 1..Len(s) : s[j] = x /\ \A m \in 1..(j - 1) : s[m] # x
       IN SubSeq(s, 1, i - 1) \o SubSeq(s, i + 1, Len(s))
  ELSE s
Has(s, x) == \E j \in 1..Len(s) : s[j] = x
SelectSeq2(s, Test(_)) == SelectSeq(s, Test)

(* ------------------------------------------------------------------------ *)
(* Kernel step                                                               *)
(* ------------------------------------------------------------------------ *)
\* run(until=event) registers its stop callback when run() is called; waiters that register later must still be
\* resumed, so the stop callback is invoked after the others (repaired behaviour, finding F20)
StopLast(cbs) == SelectSeq(cbs, LAMBDA c : c.t # "stop") \o SelectSeq(cbs, LAMBDA c : c.t = "stop")

Pop ==
  /\ Stepping /\ Idle /\ agenda # {}
  /\ LET a == MinEntry(agenda) IN
     /\ agenda' = agenda \ {a}
     /\ now' = a.t
     /\ cur' = [e |-> a.e, cbs |-> StopLast(evs[a.e].cbs)]
     /\ evs' = [evs EXCEPT ![a.e].st = "processed", ![a.e].cbs = <<>>]
  /\ UNCHANGED <<seq, procs, run, top, log, script, res>>

\* hand an outcome to process p: it becomes the running process
Deliver(p, ok, val, lg) ==
  /\ run' = [p |-> p, ok |-> ok, val |-> val]
  /\ log' = Append(lg, L("R", p, ok, val))

\* leaves of a condition that have been processed, in operand order, nested conditions flattened
RECURSIVE Leaves(_, _)
Leaves(E, c) ==
  LET RECURSIVE Go(_)
      Go(i) == IF i > Len(E[c].kids) THEN <<>>
               ELSE LET k == E[c].kids[i]
                    IN (IF E[k].kind = "cond" THEN Leaves(E, k)
                        ELSE IF E[k].st = "processed" THEN <<k>> ELSE <<>>) \o Go(i + 1)
  IN Go(1)

\* _remove_check_callbacks of condition c on event table E
RECURSIVE Detach(_, _)
Detach(E, c) ==
  LET RECURSIVE Go(_, _)
      Go(EE, i) ==
        IF i > Len(EE[c].kids) THEN EE
        ELSE LET k == EE[c].kids[i]
                 E1 == [EE EXCEPT ![k].cbs = RemoveOne(@, Cb("check", c))]
                 free == \A j \in 1..Len(E1[k].cbs) : E1[k].cbs[j] = Cb("build", k)
                 E2 == IF E1[k].kind = "cond" /\ OrphanNested /\ free
                       THEN [Detach(E1, k) EXCEPT ![k].orph = (E1[k].st = "pending")]
                       ELSE E1
             IN Go(E2, i + 1)
  IN Go(E, 1)

Pred(E, c, n) == IF E[c].all THEN n = Len(E[c].kids) ELSE (n > 0 \/ Len(E[c].kids) = 0)

\* Condition._check(ev) for condition c; returns <<E', agenda', seq'>>
CheckStep(E, ag, sq, c, ev) ==
  IF E[c].st # "pending" THEN <<E, ag, sq>>
  ELSE LET n == E[c].cnt + 1 IN
       IF ~E[ev].ok
       THEN <<[E EXCEPT ![c].cnt = n, ![ev].def = TRUE, ![c].st = "triggered", ![c].ok = FALSE, ![c].val = E[ev].val],
              ag \cup {Entry(c, NRM, 0, sq)}, sq + 1>>
       ELSE IF Pred(E, c, n)
       THEN <<[E EXCEPT ![c].cnt = n, ![c].st = "triggered", ![c].ok = TRUE, ![c].val = None],
              ag \cup {Entry(c, NRM, 0, sq)}, sq + 1>>
       ELSE <<[E EXCEPT ![c].cnt = n], ag, sq>>


(* ------------------------------------------------------------------------ *)
(* Shared resources (onl/sim/resources): request events are ordinary events  *)
(* whose `kids` field holds <<resource, amount|item|priority|request, preempt,*)
(* request time, usage_since, ->>; S = [E, ag, sq, R] is the part of the      *)
(* state the queue scans rewrite.                                             *)
(* ------------------------------------------------------------------------ *)
ResKind == <<"res", "prio", "preempt", "cont", "store", "pstore", "fstore">>
RemoveAt(q, i) == SubSeq(q, 1, i - 1) \o SubSeq(q, i + 1, Len(q))
RemoveVal(q, x) == IF \E i \in 1..Len(q) : q[i] = x
                   THEN RemoveAt(q, CHOOSE i \in 1..Len(q) : q[i] = x /\ \A j \in 1..(i - 1) : q[j] # x) ELSE q
\* (priority, request time, preempting first)
KeyLess(E, a, b) ==
  LET ka == E[a].kids  kb == E[b].kids IN
  \/ ka[2] < kb[2]
  \/ ka[2] = kb[2] /\ ka[4] < kb[4]
  \/ ka[2] = kb[2] /\ ka[4] = kb[4] /\ ka[3] > kb[3]
\* queue insertion: arrival order, or stably sorted by key for priority resources
InsertPut(E, q, e, kind) ==
  IF kind \in {"prio", "preempt"}
  THEN LET n == Cardinality({i \in 1..Len(q) : ~KeyLess(E, e, q[i])})      \* entries not ranked after e stay in front
       IN SubSeq(q, 1, n) \o <<e>> \o SubSeq(q, n + 1, Len(q))
  ELSE Append(q, e)
Succeed(S, e, v) ==
  [S EXCEPT !.E[e].st = "triggered", !.E[e].ok = TRUE, !.E[e].val = v,
            !.ag = @ \cup {Entry(e, NRM, 0, S.sq)}, !.sq = @ + 1]
\* sorted insertion for PriorityStore (smallest first; equal items are indistinguishable)
InsertSorted(items, x) ==
  LET n == Cardinality({i \in 1..Len(items) : items[i] <= x}) IN SubSeq(items, 1, n) \o <<x>> \o SubSeq(items, n + 1, Len(items))

\* _do_put: <<S', proceed>>
DoPut(S, r, e) ==
  LET R == S.R[r]  k == S.E[e].kids IN
  CASE R.kind \in {"res", "prio", "preempt"} ->
         LET \* PreemptiveResource: evict the worst-ranked user if it ranks strictly worse than a preempting request
             full == Len(R.users) >= R.cap
             worst == IF R.users = <<>> THEN 0 ELSE
                      CHOOSE i \in 1..Len(R.users) :
                        \A j \in 1..Len(R.users) : j # i =>
                           (KeyLess(S.E, R.users[j], R.users[i]) \/ (~KeyLess(S.E, R.users[i], R.users[j]) /\ j < i))
             evict == R.kind = "preempt" /\ full /\ k[3] = 1 /\ worst # 0 /\ KeyLess(S.E, e, R.users[worst])
             v == IF evict THEN R.users[worst] ELSE 0
             ie == Len(S.E) + 1
             S1 == IF evict
                   THEN [S EXCEPT !.R[r].users = RemoveAt(@, worst),
                                  !.E = Append(@, NewEv("intr", "triggered", FALSE,
                                                        Val("preempted", S.E[e].pr, <<S.E[v].kids[5], r>>), TRUE,
                                                        <<Cb("intr", 0)>>, S.E[v].pr, <<>>, FALSE)),
                                  !.ag = @ \cup {Entry(ie, URG, 0, S.sq)}, !.sq = @ + 1]
                   ELSE S
         IN IF Len(S1.R[r].users) < R.cap
            THEN <<Succeed([S1 EXCEPT !.R[r].users = Append(@, e), !.E[e].kids[5] = now], e, None), TRUE>>
            ELSE <<S1, FALSE>>
    [] R.kind = "cont" ->
         IF R.cap - R.level >= k[2] THEN <<Succeed([S EXCEPT !.R[r].level = @ + k[2]], e, None), TRUE>> ELSE <<S, FALSE>>
    [] R.kind \in {"store", "fstore"} ->
         IF Len(R.items) < R.cap THEN <<Succeed([S EXCEPT !.R[r].items = Append(@, k[2])], e, None), TRUE>> ELSE <<S, FALSE>>
    [] R.kind = "pstore" ->
         IF Len(R.items) < R.cap THEN <<Succeed([S EXCEPT !.R[r].items = InsertSorted(@, k[2])], e, None), TRUE>> ELSE <<S, FALSE>>

\* FilterStore filter f: 0 matches everything, f > 0 matches the item equal to f
Match(f, x) == f = 0 \/ f = x
DoGet(S, r, e) ==
  LET R == S.R[r]  k == S.E[e].kids IN
  CASE S.E[e].kind \in {"rel", "relx"} -> <<Succeed([S EXCEPT !.R[r].users = RemoveVal(@, k[2])], e, None), TRUE>>
    [] R.kind = "cont" ->
         IF R.level >= k[2] THEN <<Succeed([S EXCEPT !.R[r].level = @ - k[2]], e, None), TRUE>> ELSE <<S, FALSE>>
    [] R.kind \in {"store", "pstore"} ->
         IF R.items # <<>> THEN <<Succeed([S EXCEPT !.R[r].items = Tail(@)], e, Val("item", Head(R.items), <<>>)), TRUE>>
         ELSE <<S, FALSE>>
    [] R.kind = "fstore" ->
         IF \E i \in 1..Len(R.items) : Match(k[2], R.items[i])
         THEN LET i == CHOOSE j \in 1..Len(R.items) : Match(k[2], R.items[j]) /\ \A m \in 1..(j - 1) : ~Match(k[2], R.items[m])
              IN <<Succeed([S EXCEPT !.R[r].items = RemoveAt(@, i)], e, Val("item", R.items[i], <<>>)), TRUE>>
         ELSE <<S, TRUE>>                           \* a getter whose filter matches nothing does not block later ones
    [] OTHER -> <<S, FALSE>>

\* _trigger_put / _trigger_get: serve the queue from its head, stop at the first request that cannot be served
RECURSIVE ScanPut(_, _, _)
ScanPut(S, r, idx) ==
  IF idx > Len(S.R[r].putq) THEN S
  ELSE LET e == S.R[r].putq[idx]
           d == DoPut(S, r, e)
           trig == d[1].E[e].st # "pending"
           S2 == IF trig THEN [d[1] EXCEPT !.R[r].putq = RemoveAt(@, idx)] ELSE d[1]
       IN IF d[2] THEN ScanPut(S2, r, IF trig THEN idx ELSE idx + 1) ELSE S2
TriggerPut(S, r) == ScanPut(S, r, 1)
RECURSIVE ScanGet(_, _, _)
ScanGet(S, r, idx) ==
  IF idx > Len(S.R[r].getq) THEN S
  ELSE LET e == S.R[r].getq[idx]
           d == DoGet(S, r, e)
           trig == d[1].E[e].st # "pending"
           S2 == IF trig THEN [d[1] EXCEPT !.R[r].getq = RemoveAt(@, idx)] ELSE d[1]
       IN IF d[2] THEN ScanGet(S2, r, IF trig THEN idx ELSE idx + 1) ELSE S2
TriggerGet(S, r) == ScanGet(S, r, 1)

\* cancel(): a request that is still pending leaves its queue; the queue is then examined again, because the
\* request behind it may be servable now (repaired behaviour, finding F1)
CancelReq(S, e) ==
  IF S.E[e].st # "pending" THEN S
  ELSE LET r == S.E[e].kids[1] IN
       IF S.E[e].kind = "get"
       THEN TriggerGet([S EXCEPT !.R[r].getq = RemoveVal(@, e)], r)
       ELSE TriggerPut([S EXCEPT !.R[r].putq = RemoveVal(@, e)], r)

\* what a harness sees of the resources after a kernel step: per resource
\* <<#users, users..., #queue, queue..., level, #items, items..., #get queue>>
RECURSIVE ResStateFrom(_)
ResStateFrom(i) ==
  IF i > Len(res) THEN <<>>
  ELSE LET R == res[i] IN
       (<<Len(R.users)>> \o R.users \o <<Len(R.putq)>> \o R.putq \o <<R.level, Len(R.items)>> \o R.items \o <<Len(R.getq)>>)
       \o ResStateFrom(i + 1)
ResState == ResStateFrom(1)

\* what run()/step() do when they return or raise
Return(kind, v, lg) ==
  /\ top' = [top EXCEPT !.mode = "top", !.uk = "none", !.ue = 0, !.ut = 0]
  /\ log' = Append(lg, L(kind, 0, kind = "RET", v))
\* A run(until=...) that ends without reaching its stop (a failure escapes, or the schedule runs dry) takes its stop
\* back: the stop callback leaves the until-event, the stop occurrence of a numeric until leaves the agenda.  A stop
\* left behind would end a LATER run early -- run(until=t') returning with now < t' (repaired behaviour, finding F25).
AbortEvs == IF top.mode = "run" /\ top.uk = "ev" THEN [evs EXCEPT ![top.ue].cbs = RemoveOne(@, Cb("stop", 0))]
            ELSE IF top.mode = "run" /\ top.uk = "time" THEN [evs EXCEPT ![top.ue].st = "withdrawn", ![top.ue].cbs = <<>>]
            ELSE evs
AbortAgenda == IF top.mode = "run" /\ top.uk = "time" THEN {a \in agenda : a.e # top.ue} ELSE agenda

NextCb ==
  /\ cur.e # 0 /\ run.p = 0 /\ cur.cbs # <<>>
  /\ LET cb == Head(cur.cbs)  e == cur.e  rest == Tail(cur.cbs) IN
     CASE cb.t = "resume" ->
            /\ cur' = [cur EXCEPT !.cbs = rest]
            /\ Deliver(cb.x, evs[e].ok, evs[e].val, log)
            /\ evs' = IF evs[e].ok THEN evs ELSE [evs EXCEPT ![e].def = TRUE]
            /\ UNCHANGED <<agenda, seq, procs, top>>
       [] cb.t = "intr" ->
            LET p == evs[e].pr IN
            /\ cur' = [cur EXCEPT !.cbs = rest]
            /\ IF ~procs[p].alive THEN UNCHANGED <<run, log, evs>>
               ELSE /\ evs' = [evs EXCEPT ![procs[p].tgt].cbs = RemoveOne(@, Cb("resume", p))]
                    /\ Deliver(p, FALSE, evs[e].val, log)
            /\ UNCHANGED <<agenda, seq, procs, top>>
       [] cb.t = "check" ->
            LET r == CheckStep(evs, agenda, seq, cb.x, e) IN
            /\ cur' = [cur EXCEPT !.cbs = rest]
            /\ evs' = r[1] /\ agenda' = r[2] /\ seq' = r[3]
            /\ UNCHANGED <<procs, run, top, log>>
       [] cb.t = "build" ->
            LET E1 == Detach(evs, e) IN
            /\ cur' = [cur EXCEPT !.cbs = rest]
            /\ evs' = IF evs[e].ok THEN [E1 EXCEPT ![e].val = Val("cv", 0, Leaves(E1, e))] ELSE E1
            /\ UNCHANGED <<agenda, seq, procs, run, top, log>>
       [] cb.t = "probe" ->
            /\ cur' = [cur EXCEPT !.cbs = rest]
            /\ log' = Append(log, L("P", e, evs[e].ok, evs[e].val))
            /\ UNCHANGED <<agenda, seq, evs, procs, run, top>>
       [] cb.t = "cbintr" ->
            \* a plain callback (no process is active while it runs) interrupts process p with cause (from, n);
            \* cb.x = p * 10^6 + from * 10^3 + n
            LET p == cb.x \div 1000000  from == (cb.x \div 1000) % 1000  n == cb.x % 1000  ie == Len(evs) + 1 IN
            IF procs[p].alive
            THEN /\ cur' = [cur EXCEPT !.cbs = rest]
                 /\ evs' = Append(evs, NewEv("intr", "triggered", FALSE, Val("intr", from, <<n>>), TRUE, <<Cb("intr", 0)>>, p, <<>>, FALSE))
                 /\ agenda' = agenda \cup {Entry(ie, URG, 0, seq)} /\ seq' = seq + 1
                 /\ UNCHANGED <<procs, run, top, log>>
            ELSE \* the victim has ended: interrupt() raises RuntimeError (caught and logged by the callback) and has no other effect
                 /\ cur' = [cur EXCEPT !.cbs = rest]
                 /\ log' = Append(log, L("E", 0, FALSE, Val("RuntimeError", 0, <<>>)))
                 /\ UNCHANGED <<agenda, seq, evs, procs, run, top>>
       [] cb.t \in {"tget", "tput"} ->            \* BaseResource._trigger_get / _trigger_put on resource cb.x
            LET S0 == [E |-> evs, ag |-> agenda, sq |-> seq, R |-> res]
                S1 == IF cb.t = "tget" THEN TriggerGet(S0, cb.x) ELSE TriggerPut(S0, cb.x)
            IN /\ cur' = [cur EXCEPT !.cbs = rest]
               /\ evs' = S1.E /\ agenda' = S1.ag /\ seq' = S1.sq /\ res' = S1.R
               /\ UNCHANGED <<procs, run, top, log>>
       [] cb.t = "stop" ->
            \* StopSimulation.callback: run() returns the value, or re-raises the failure; the step is abandoned
            /\ cur' = NoCur
            /\ IF top.mode \in {"step", "steps"} /\ evs[e].ok
               THEN Return("X", Val("StopSimulation", 0, <<>>), log)   \* a stale stop callback fires under step()
               ELSE Return(IF evs[e].ok THEN "RET" ELSE "X", evs[e].val, log)
            /\ UNCHANGED <<agenda, seq, evs, procs, run>>
  /\ (Head(cur.cbs).t \notin {"tget", "tput"} => res' = res)
  /\ UNCHANGED <<now, script>>

EndStep ==
  /\ cur.e # 0 /\ run.p = 0 /\ cur.cbs = <<>>
  /\ cur' = NoCur
  /\ IF ~evs[cur.e].ok /\ ~evs[cur.e].def
     THEN /\ Return("X", evs[cur.e].val, log)                     \* an unhandled failure escapes step()/run()
          /\ evs' = AbortEvs /\ agenda' = AbortAgenda
     ELSE /\ UNCHANGED <<evs, agenda>>
          /\ IF top.mode = "step"
             THEN /\ top' = [top EXCEPT !.mode = "top"]
                  /\ log' = Append(log, L("T", 0, TRUE, Val("peek", Peek(agenda), <<>>)))
             ELSE IF top.mode = "steps"            \* run by single steps, observing the resources after each
             THEN /\ log' = Append(log, L("T", 0, TRUE, Val("peek", Peek(agenda), ResState)))
                  /\ UNCHANGED top
             ELSE UNCHANGED <<top, log>>
  /\ UNCHANGED <<now, seq, procs, run, script, res>>

\* run(): no events left
RunDry ==
  /\ top.mode \in {"run", "steps"} /\ Idle /\ agenda = {}
  /\ IF top.uk = "none" THEN Return("RET", None, log) /\ UNCHANGED evs
     ELSE Return("X", Val("RuntimeError", 0, <<>>), log) /\ evs' = AbortEvs    \* until-event never triggered
  /\ UNCHANGED <<now, agenda, seq, procs, cur, run, script, res>>
\* step() on an empty schedule
StepDry ==
  /\ top.mode = "step" /\ Idle /\ agenda = {}
  /\ Return("X", Val("EmptySchedule", 0, <<>>), log)
  /\ UNCHANGED <<now, agenda, seq, evs, procs, cur, run, script, res>>

(* ------------------------------------------------------------------------ *)
(* API calls: Do(o) executed by the running process P (or by the top level,  *)
(* P = 0, between run()/step() calls)                                        *)
(* ------------------------------------------------------------------------ *)
P == run.p
Bump(pr) == IF P = 0 THEN pr ELSE [pr EXCEPT ![P].n = @ + 1]
NOps == IF P = 0 THEN top.n ELSE procs[P].n
Exists(e) == e \in 1..Len(evs)
Noted(o) == script' = IF o.k = "spawn" THEN [script EXCEPT ![P + 1] = Append(@, o)] \o <<<<>>>>
                                       ELSE [script EXCEPT ![P + 1] = Append(@, o)]
TopOnly == {"run", "step", "steps", "rununtil", "runev"}
ResOps == {"mkres", "request", "release", "cancel", "withexit", "put", "get"}
UserKinds == {"to", "ev", "proc", "cond", "req", "rel", "put", "get"}
InSeq(q, x) == \E i \in 1..Len(q) : q[i] = x
\* a request can be cancelled once: afterwards it is neither queued nor triggered (cancelling it again raises in the
\* implementation; no property speaks about that, so scripts never do it)
QueuedOrDone(e) == \/ evs[e].st # "pending"
                   \/ LET r == evs[e].kids[1] IN InSeq(res[r].putq, e) \/ InSeq(res[r].getq, e)
\* an op that names something that does not exist (yet) has no effect (logged as Skip)
Valid(o) ==
  CASE o.k = "yield" -> P # 0 /\ Exists(o.a) /\ evs[o.a].kind \in UserKinds /\ o.a # procs[P].pe
    [] o.k \in {"succeed", "fail"} -> Exists(o.a) /\ evs[o.a].kind = "ev"
    [] o.k = "trigger" -> /\ Exists(o.a) /\ evs[o.a].kind = "ev"
                          /\ Exists(o.b) /\ evs[o.b].kind \in UserKinds /\ evs[o.b].st # "pending" /\ o.b # o.a
    [] o.k = "interrupt" -> o.a \in 1..Len(procs)
    [] o.k = "cbintr" -> Exists(o.a) /\ evs[o.a].kind \in UserKinds /\ evs[o.a].st # "processed" /\ o.b \in 1..Len(procs)
    [] o.k = "cond" -> \A i \in 1..Len(o.s) : Exists(o.s[i]) /\ evs[o.s[i]].kind \in UserKinds   \* the same event may be listed twice
    [] o.k = "runev" -> Exists(o.a) /\ evs[o.a].kind \in UserKinds
    [] o.k \in {"request", "put", "get"} -> o.a \in 1..Len(res)
    [] o.k = "release" -> Exists(o.a) /\ evs[o.a].kind = "req"
    [] o.k = "withexit" -> Exists(o.a) /\ evs[o.a].kind = "req" /\ QueuedOrDone(o.a)
    [] o.k = "cancel" -> Exists(o.a) /\ evs[o.a].kind \in {"req", "put", "get"} /\ QueuedOrDone(o.a)
    [] OTHER -> TRUE
Refused(type) == Append(log, L("E", P, FALSE, Val(type, 0, <<>>)))

\* the process event terminates: schedule it
ProcEnd(p, ok, val, E, pr) ==
  LET pe == pr[p].pe IN
  /\ evs' = [E EXCEPT ![pe].st = "triggered", ![pe].ok = ok, ![pe].val = val]
  /\ agenda' = agenda \cup {Entry(pe, NRM, 0, seq)} /\ seq' = seq + 1
  /\ procs' = [pr EXCEPT ![p].alive = FALSE, ![p].tgt = 0]
  /\ run' = NoRun

\* `yield e` by process P with catch flag c, on event table E / process table pr / agenda ag / counter sq / log lg
YieldOn(e, c, E, pr, ag, sq, lg) ==
  IF E[e].st = "processed"
  THEN /\ Deliver(P, E[e].ok, E[e].val, lg)                       \* continues at once with that outcome
       /\ evs' = IF E[e].ok THEN E ELSE [E EXCEPT ![e].def = TRUE]
       /\ procs' = [pr EXCEPT ![P].catch = c] /\ agenda' = ag /\ seq' = sq
  ELSE /\ evs' = [E EXCEPT ![e].cbs = Append(@, Cb("resume", P))]
       /\ procs' = [pr EXCEPT ![P].tgt = e, ![P].catch = c]
       /\ run' = NoRun /\ log' = lg /\ agenda' = ag /\ seq' = sq

Do(o) ==
  /\ Noted(o)
  /\ UNCHANGED <<now, cur>>
  /\ (o.k \notin ResOps => res' = res)
  /\ (o.k \notin TopOnly => top' = IF P = 0 THEN [top EXCEPT !.n = @ + 1] ELSE top)
  /\ CASE o.k = "timeout" ->                       \* env.timeout(d, value) + probe; not yielded
            LET e == Len(evs) + 1 IN
            IF NegDelay(o.a)
            THEN /\ log' = Refused("ValueError") /\ procs' = Bump(procs) /\ UNCHANGED <<agenda, seq, evs, run>>
            ELSE /\ evs' = Append(evs, NewEv("to", "triggered", TRUE, Val("v", e, <<>>), FALSE, <<Cb("probe", e)>>, 0, <<>>, FALSE))
                 /\ agenda' = agenda \cup {Entry(e, NRM, o.a, seq)} /\ seq' = seq + 1
                 /\ procs' = Bump(procs) /\ UNCHANGED <<run, log>>
       [] o.k = "sleep" ->                         \* yield env.timeout(d, value)
            LET e == Len(evs) + 1
                E1 == Append(evs, NewEv("to", "triggered", TRUE, Val("v", e, <<>>), FALSE, <<Cb("probe", e)>>, 0, <<>>, FALSE))
            IN /\ P # 0
               /\ IF NegDelay(o.a)
                  THEN /\ log' = Refused("ValueError") /\ procs' = Bump(procs) /\ UNCHANGED <<agenda, seq, evs, run>>
                  ELSE YieldOn(e, o.c, E1, Bump(procs), agenda \cup {Entry(e, NRM, o.a, seq)}, seq + 1, log)
       [] o.k = "baddelay" ->                      \* env.timeout(-1) / b = 1: env.schedule(event, delay=-1): ValueError, nothing created
            /\ log' = Refused("ValueError") /\ procs' = Bump(procs)
            /\ UNCHANGED <<agenda, seq, evs, run>>
       [] o.k = "event" ->
            LET e == Len(evs) + 1 IN
            /\ evs' = Append(evs, NewEv("ev", "pending", TRUE, None, FALSE, <<Cb("probe", e)>>, 0, <<>>, FALSE))
            /\ procs' = Bump(procs) /\ UNCHANGED <<agenda, seq, run, log>>
       [] o.k \in {"succeed", "fail"} ->
            /\ Exists(o.a) /\ evs[o.a].kind = "ev"
            /\ IF evs[o.a].st = "pending"
               THEN /\ evs' = [evs EXCEPT ![o.a].st = "triggered", ![o.a].ok = (o.k = "succeed"),
                                          ![o.a].val = Val(IF o.k = "succeed" THEN "v" ELSE "x", o.a, <<>>)]
                    /\ agenda' = agenda \cup {Entry(o.a, NRM, 0, seq)} /\ seq' = seq + 1 /\ log' = log
               ELSE /\ log' = Refused("RuntimeError") /\ UNCHANGED <<evs, agenda, seq>>
            /\ procs' = Bump(procs) /\ UNCHANGED run
       [] o.k = "trigger" ->                       \* Event.trigger: event a takes over the outcome of the triggered event b
            /\ IF evs[o.a].st = "pending"
               THEN /\ evs' = [evs EXCEPT ![o.a].st = "triggered", ![o.a].ok = evs[o.b].ok, ![o.a].val = evs[o.b].val]
                    /\ agenda' = agenda \cup {Entry(o.a, NRM, 0, seq)} /\ seq' = seq + 1 /\ log' = log
               ELSE \* an event can be triggered only once -- by whichever of succeed / fail / trigger
                    /\ log' = Refused("RuntimeError") /\ UNCHANGED <<evs, agenda, seq>>
            /\ procs' = Bump(procs) /\ UNCHANGED run
       [] o.k = "spawn" ->
            LET q == Len(procs) + 1  pe == Len(evs) + 1  ie == Len(evs) + 2 IN
            /\ evs' = evs \o << NewEv("proc", "pending", TRUE, None, FALSE, IF o.b = 1 THEN <<>> ELSE <<Cb("probe", pe)>>, q, <<>>, FALSE),
                                NewEv("init", "triggered", TRUE, Val("init", 0, <<>>), FALSE, <<Cb("resume", q)>>, q, <<>>, FALSE) >>
            /\ procs' = Append(Bump(procs), [pe |-> pe, tgt |-> ie, alive |-> TRUE, n |-> 0, catch |-> 0])
            /\ agenda' = agenda \cup {Entry(ie, URG, 0, seq)} /\ seq' = seq + 1
            /\ UNCHANGED <<run, log>>
       [] o.k = "interrupt" ->
            /\ IF o.a \notin 1..Len(procs) \/ ~procs[o.a].alive \/ o.a = P
               THEN /\ log' = Refused("RuntimeError") /\ UNCHANGED <<evs, agenda, seq>>
               ELSE LET ie == Len(evs) + 1 IN
                    \* cause: (caller, op index), or with b = 1 the bare op index (a number, possibly 0)
                    /\ evs' = Append(evs, NewEv("intr", "triggered", FALSE,
                                                IF o.b = 1 THEN Val("intrn", NOps, <<>>) ELSE Val("intr", P, <<NOps>>),
                                                TRUE, <<Cb("intr", 0)>>, o.a, <<>>, FALSE))
                    /\ agenda' = agenda \cup {Entry(ie, URG, 0, seq)} /\ seq' = seq + 1 /\ log' = log
            /\ procs' = Bump(procs) /\ UNCHANGED run
       [] o.k = "cbintr" ->                        \* event a gets a plain callback that will interrupt process b
            /\ evs' = [evs EXCEPT ![o.a].cbs = Append(@, Cb("cbintr", o.b * 1000000 + P * 1000 + NOps))]
            /\ procs' = Bump(procs) /\ UNCHANGED <<agenda, seq, run, log>>
       [] o.k = "cond" ->                          \* a = 1: all_of, 0: any_of; s = operands; b = 1: with probe
            LET c == Len(evs) + 1
                probe == IF o.b = 1 THEN <<Cb("probe", c)>> ELSE <<>>
                E0 == Append(evs, NewEv("cond", "pending", TRUE, None, FALSE, <<>>, 0, o.s, o.a = 1))
                RECURSIVE Attach(_, _)
                Attach(r, i) ==
                  IF i > Len(o.s) THEN r
                  ELSE LET k == o.s[i] IN
                       IF r[1][k].st = "processed" THEN Attach(CheckStep(r[1], r[2], r[3], c, k), i + 1)
                       ELSE Attach(<<[r[1] EXCEPT ![k].cbs = Append(@, Cb("check", c))], r[2], r[3]>>, i + 1)
            IN /\ \A i \in 1..Len(o.s) : Exists(o.s[i])
               /\ IF o.s = <<>>
                  THEN /\ evs' = [E0 EXCEPT ![c].st = "triggered", ![c].val = Val("cv", 0, <<>>), ![c].cbs = probe]
                       /\ agenda' = agenda \cup {Entry(c, NRM, 0, seq)} /\ seq' = seq + 1
                  ELSE LET r == Attach(<<E0, agenda, seq>>, 1) IN
                       /\ evs' = [r[1] EXCEPT ![c].cbs = <<Cb("build", c)>> \o probe]
                       /\ agenda' = r[2] /\ seq' = r[3]
               /\ procs' = Bump(procs) /\ UNCHANGED <<run, log>>
       [] o.k = "condforeign" ->                   \* operands from another environment: ValueError, no effect
            /\ log' = Refused("ValueError") /\ procs' = Bump(procs)
            /\ UNCHANGED <<agenda, seq, evs, run>>
       [] o.k = "yield" ->
            /\ P # 0 /\ Exists(o.a) /\ o.a # procs[P].pe
            /\ YieldOn(o.a, o.c, evs, Bump(procs), agenda, seq, log)
       [] o.k \in {"return", "raise"} ->
            /\ P # 0
            /\ ProcEnd(P, o.k = "return", Val(IF o.k = "return" THEN "ret" ELSE "exc", P, <<>>), evs, Bump(procs))
            /\ UNCHANGED log
       [] o.k = "skip" ->                          \* an op naming something that does not exist (yet): no effect
            /\ log' = Refused("Skip") /\ procs' = Bump(procs)
            /\ UNCHANGED <<agenda, seq, evs, run>>
       (* ---- top level only ---- *)
       [] o.k = "run" ->
            /\ P = 0
            /\ top' = [top EXCEPT !.mode = "run", !.uk = "none", !.ue = 0, !.n = @ + 1]
            /\ UNCHANGED <<agenda, seq, evs, procs, run, log>>
       [] o.k = "step" ->
            /\ P = 0
            /\ top' = [top EXCEPT !.mode = "step", !.n = @ + 1]
            /\ UNCHANGED <<agenda, seq, evs, procs, run, log>>
       [] o.k = "steps" ->
            /\ P = 0
            /\ top' = [top EXCEPT !.mode = "steps", !.uk = "none", !.ue = 0, !.n = @ + 1]
            /\ UNCHANGED <<agenda, seq, evs, procs, run, log>>
       (* ---- shared resources ---- *)
       [] o.k = "mkres" ->                         \* s = <<kind code>>; a = capacity; b = initial level
            \* c = 1 (containers and stores): the capacity given to the implementation is a + 1/2 -- a legal float capacity,
            \* which bounds whole items and integer amounts exactly as a does ("never holds more than capacity")
            /\ res' = Append(res, [kind |-> ResKind[o.s[1]], cap |-> o.a, users |-> <<>>, putq |-> <<>>, getq |-> <<>>,
                                   level |-> o.b, items |-> <<>>, init |-> o.b])
            /\ procs' = Bump(procs) /\ UNCHANGED <<agenda, seq, evs, run, log>>
       [] o.k \in {"request", "put"} ->            \* a = resource; request: b = priority, c = preempt; put: b = amount / item
            LET r == o.a  e == Len(evs) + 1 IN
            IF o.k = "put" /\ res[r].kind = "cont" /\ o.b <= 0
            THEN /\ log' = Refused("ValueError") /\ procs' = Bump(procs) /\ UNCHANGED <<agenda, seq, evs, run, res>>
            ELSE LET info == <<r, o.b, o.c, now, -1, 0>>          \* resource, amount|item|priority, preempt, time, usage_since, -
                     E0 == Append(evs, NewEv(IF o.k = "request" THEN "req" ELSE "put", "pending", TRUE, None, FALSE,
                                             <<Cb("tget", r)>>, P, info, FALSE))
                     R0 == [res EXCEPT ![r].putq = InsertPut(E0, @, e, res[r].kind)]
                     S1 == TriggerPut([E |-> E0, ag |-> agenda, sq |-> seq, R |-> R0], r)
                 IN /\ evs' = [S1.E EXCEPT ![e].cbs = Append(@, Cb("probe", e))]
                    /\ agenda' = S1.ag /\ seq' = S1.sq /\ res' = S1.R
                    /\ procs' = Bump(procs) /\ UNCHANGED <<run, log>>
       [] o.k \in {"release", "get"} ->            \* release: a = request id; get: a = resource, b = amount / filter
            LET r == IF o.k = "release" THEN evs[o.a].kids[1] ELSE o.a
                e == Len(evs) + 1 IN
            IF o.k = "get" /\ res[r].kind = "cont" /\ o.b <= 0
            THEN /\ log' = Refused("ValueError") /\ procs' = Bump(procs) /\ UNCHANGED <<agenda, seq, evs, run, res>>
            ELSE LET info == <<r, IF o.k = "release" THEN o.a ELSE o.b, 0, now, -1, 0>>
                     E0 == Append(evs, NewEv(IF o.k = "release" THEN "rel" ELSE "get", "pending", TRUE, None, FALSE,
                                             <<Cb("tput", r)>>, P, info, FALSE))
                     R0 == [res EXCEPT ![r].getq = Append(@, e)]
                     S1 == TriggerGet([E |-> E0, ag |-> agenda, sq |-> seq, R |-> R0], r)
                 IN /\ evs' = [S1.E EXCEPT ![e].cbs = Append(@, Cb("probe", e))]
                    /\ agenda' = S1.ag /\ seq' = S1.sq /\ res' = S1.R
                    /\ procs' = Bump(procs) /\ UNCHANGED <<run, log>>
       [] o.k = "cancel" ->                        \* a = a pending request / put / get: leave the queue, re-examine it
            LET S1 == CancelReq([E |-> evs, ag |-> agenda, sq |-> seq, R |-> res], o.a) IN
            /\ evs' = S1.E /\ agenda' = S1.ag /\ seq' = S1.sq /\ res' = S1.R
            /\ procs' = Bump(procs) /\ UNCHANGED <<run, log>>
       [] o.k = "withexit" ->                      \* leaving `with resource.request() as req:` = cancel + release
            LET r == evs[o.a].kids[1]
                S0 == CancelReq([E |-> evs, ag |-> agenda, sq |-> seq, R |-> res], o.a)
                e == Len(S0.E) + 1        \* the re-scan after the cancellation may have created an Interruption event
                E0 == Append(S0.E, NewEv("relx", "pending", TRUE, None, FALSE, <<Cb("tput", r)>>, P, <<r, o.a, 0, now, -1, 0>>, FALSE))
                R0 == [S0.R EXCEPT ![r].getq = Append(@, e)]
                S1 == TriggerGet([E |-> E0, ag |-> S0.ag, sq |-> S0.sq, R |-> R0], r)
            IN /\ evs' = S1.E      \* no probe: the release event of a with-block is not visible to the caller
               /\ agenda' = S1.ag /\ seq' = S1.sq /\ res' = S1.R
               /\ procs' = Bump(procs) /\ UNCHANGED <<run, log>>
       [] o.k = "rununtil" ->                      \* run(until = number a)
            /\ P = 0
            /\ IF UntilAt(o.a) <= now
               THEN /\ log' = Append(log, L("X", 0, FALSE, Val("ValueError", 0, <<>>)))
                    /\ top' = [top EXCEPT !.n = @ + 1]
                    /\ UNCHANGED <<evs, agenda, seq>>
               ELSE LET u == Len(evs) + 1 IN
                    /\ evs' = Append(evs, NewEv("until", "triggered", TRUE, None, FALSE, <<Cb("stop", 0)>>, 0, <<>>, FALSE))
                    \* the stop takes effect at exactly the requested instant
                    /\ agenda' = agenda \cup {[t |-> UntilAt(o.a), prio |-> URG, k |-> seq, e |-> u]} /\ seq' = seq + 1
                    /\ top' = [top EXCEPT !.mode = "run", !.uk = "time", !.ue = u, !.ut = UntilAt(o.a), !.n = @ + 1]
                    /\ log' = log
            /\ UNCHANGED <<procs, run>>
       [] o.k = "runev" ->                         \* run(until = event a)
            /\ P = 0 /\ Exists(o.a)
            /\ IF evs[o.a].st = "processed"
               THEN /\ log' = Append(log, L("RET", 0, TRUE, evs[o.a].val))       \* returns its value at once
                    /\ top' = [top EXCEPT !.n = @ + 1] /\ UNCHANGED evs
               ELSE /\ evs' = [evs EXCEPT ![o.a].cbs = Append(@, Cb("stop", 0))]
                    /\ top' = [top EXCEPT !.mode = "run", !.uk = "ev", !.ue = o.a, !.n = @ + 1]
                    /\ log' = log
            /\ UNCHANGED <<agenda, seq, procs, run>>

\* a failure thrown at a yield whose handler does not catch it: the process fails with that exception
Uncaught ==
  /\ P # 0 /\ ~run.ok /\ procs[P].catch = 0
  /\ ProcEnd(P, FALSE, run.val, evs, procs)
  /\ UNCHANGED <<now, cur, top, log, script, res>>
CanAct == P # 0 /\ (run.ok \/ procs[P].catch = 1)
TopCanAct == P = 0 /\ top.mode = "top" /\ cur.e = 0

Kernel == (Pop \/ NextCb \/ EndStep \/ RunDry \/ StepDry \/ Uncaught) /\ UNCHANGED ftab

\* what a harness can read off every user-visible event object once the plan has finished:
\* triggered / processed, ok and value (Process.value / ok after termination, Event.processed at each return of run())
FinalState ==
  [e \in 1..Len(evs) |->
     IF evs[e].kind \in UserKinds
     THEN [st |-> IF evs[e].st = "pending" THEN 0 ELSE IF evs[e].st = "triggered" THEN 1 ELSE 2, ok |-> evs[e].ok, v |-> evs[e].val]
     ELSE [st |-> -1, ok |-> TRUE, v |-> None]]

(* ------------------------------------------------------------------------ *)
(* Properties (state predicates over the state and the observable log)       *)
(* ------------------------------------------------------------------------ *)
Cnt(s, x) == Cardinality({i \in 1..Len(s) : s[i] = x})
\* C02/C04: a live process that is not running is registered exactly once, on its target, and nowhere else
SingleWait ==
  \A p \in 1..Len(procs) :
    (procs[p].alive /\ run.p # p) =>
      \A e \in 1..Len(evs) :
        LET c == Cnt(evs[e].cbs, Cb("resume", p)) + (IF cur.e = e THEN Cnt(cur.cbs, Cb("resume", p)) ELSE 0)
        IN IF e = procs[p].tgt THEN c = 1 ELSE c = 0
\* C01: the clock never runs backwards, nothing is processed before or after its due time
TimeMonotone == [][now' >= now]_kvars
AgendaNotPast == \A a \in agenda : a.t >= now
\* C02: processed events carry no callbacks any more; an event is in the agenda iff triggered and not processed
LifeCycle ==
  \A e \in 1..Len(evs) :
    /\ (evs[e].st = "processed" /\ cur.e # e) => evs[e].cbs = <<>>
    /\ (evs[e].st = "triggered") <=> (\E a \in agenda : a.e = e)
    /\ Cardinality({a \in agenda : a.e = e}) <= 1
\* C05: a pending (not orphaned) condition has not met its predicate on the operands processed so far
CondPendingMeansUnmet ==
  \A c \in 1..Len(evs) :
    (evs[c].kind = "cond" /\ evs[c].st = "pending" /\ ~evs[c].orph) =>
       ~Pred(evs, c, Cardinality({i \in 1..Len(evs[c].kids) : evs[evs[c].kids[i]].st = "processed" /\ cur.e # evs[c].kids[i]}))
=============================================================================
