SPECIFICATION Spec
CONSTANTS
  OrphanNested = FALSE
  MaxProc = 3
  MaxEv = 9
  MaxOps = 2
  MaxPlan = 2
  Delays = {0, 1}
  Kinds = {"sleep", "spawn", "interrupt", "interruptn", "yield", "raise"}
  PlanKinds = {"run"}
  UntilTimes = {1}
  Catches = {0, 1}
  MaxKids = 0
CONSTRAINT Emit
INVARIANT SingleWait
INVARIANT AgendaNotPast
INVARIANT LifeCycle
INVARIANT LogTimeOrdered
INVARIANT ProbeOnce
INVARIANT DeliveredIsEventOutcome
INVARIANT FirstResumeIsInit
PROPERTY TimeMonotone
CHECK_DEADLOCK FALSE
