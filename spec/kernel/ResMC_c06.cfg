SPECIFICATION Spec
CONSTANTS
  OrphanNested = FALSE
  NProc = 2
  MaxEv = 12
  MaxOps = 3
  Delays = {1}
  Kinds = {"sleep", "request", "release", "cancel", "withexit", "yield"}
  ResName = "preempt1"
  Prios = {0, 1}
  Amounts = {1}
  ItemPrios = {0}
CONSTRAINT Emit
INVARIANT Capacity
INVARIANT NoIdleSlot
INVARIANT QueueSorted
INVARIANT UsersDistinct
INVARIANT SingleWait
INVARIANT LifeCycle
PROPERTY GrantOrder
PROPERTY PreemptRule
PROPERTY NoEvictionWithoutPreempt
CHECK_DEADLOCK FALSE
