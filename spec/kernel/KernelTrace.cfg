INIT Init
NEXT Next
CONSTANTS
  OrphanNested = FALSE
CONSTRAINT Mark
POSTCONDITION Post
CHECK_DEADLOCK FALSE
