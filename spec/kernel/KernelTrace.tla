----------------------------- MODULE KernelTrace -----------------------------
(* Validation of logs recorded from the real kernel against SimKernel: the program (scripts and    *)
(* top-level plan) is read from the recorded file, every API call is forced to be the scripted one, *)
(* and every entry the specification appends to its log must equal the recorded entry at the same   *)
(* position.  Given the program the kernel is deterministic, so each program is a single path.      *)
EXTENDS SimKernel, Json
VARIABLE tid
Programs == JsonDeserialize("traces.json")
vars == <<kvars, tid>>
Prog == Programs[tid]
Rec == Prog.log
Z == <<>>

Init == /\ tid \in 1..Len(Programs) /\ TLCSet(tid, 0)
        /\ now = 0 /\ agenda = {} /\ seq = 1 /\ evs = <<>> /\ procs = <<>>
        /\ cur = NoCur /\ run = NoRun
        /\ top = [mode |-> "top", uk |-> "none", ue |-> 0, ut |-> 0, n |-> 0]
        /\ log = <<>> /\ script = <<<<>>>> /\ res = <<>>
        /\ ftab = IF "ftab" \in DOMAIN Programs[tid] THEN Programs[tid].ftab ELSE IntTimes

ScriptOf(p) == IF p + 1 <= Len(Prog.scripts) THEN Prog.scripts[p + 1] ELSE <<>>
Eff(o) == IF Valid(o) THEN o ELSE Op("skip", 0, 0, 0, Z)
ProcStep == /\ CanAct
            /\ LET ops == ScriptOf(P)  n == procs[P].n
               IN IF n < Len(ops) THEN Do(Eff(ops[n + 1])) ELSE Do(Op("return", 0, 0, 0, Z))
TopStep == /\ TopCanAct /\ top.n < Len(ScriptOf(0))
           /\ Do(Eff(ScriptOf(0)[top.n + 1]))
\* every new log entry must be the recorded one
Matches == /\ Len(log') <= Len(Rec)
           /\ \A i \in (Len(log) + 1)..Len(log') : log'[i] = Rec[i]
Next == (Kernel \/ ((ProcStep \/ TopStep) /\ UNCHANGED ftab)) /\ Matches /\ UNCHANGED tid
Spec == Init /\ [][Next]_vars

Finished == /\ TopCanAct /\ run.p = 0 /\ top.n = Len(ScriptOf(0)) /\ Len(log) = Len(Rec)
            /\ ("final" \in DOMAIN Prog => FinalState = Prog.final)
\* progress register: number of matched log entries, +1 when the whole plan has completed with the full log
Mark == LET v == Len(log) + (IF Finished THEN 1 ELSE 0) IN TLCSet(tid, IF v > TLCGet(tid) THEN v ELSE TLCGet(tid))
Post == /\ \A i \in 1..Len(Programs) :
             TLCGet(i) = Len(Programs[i].log) + 1 \/ PrintT(<<"STUCK", i, TLCGet(i) + 1>>)
        /\ PrintT(<<"DONE", Len(Programs)>>)
=============================================================================
