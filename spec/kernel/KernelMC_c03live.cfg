SPECIFICATION LiveSpec
CONSTANTS
  OrphanNested = FALSE
  MaxProc = 2
  MaxEv = 8
  MaxOps = 2
  MaxPlan = 4
  Delays = {0, 1}
  Kinds = {"sleep", "event", "succeed", "spawn", "yield"}
  PlanKinds = {"run", "step", "rununtil", "runev"}
  UntilTimes = {1, 2}
  Catches = {1}
  MaxKids = 0

INVARIANT SingleWait
INVARIANT AgendaNotPast
INVARIANT LifeCycle
INVARIANT LogTimeOrdered
INVARIANT ProbeOnce
INVARIANT DeliveredIsEventOutcome
INVARIANT FirstResumeIsInit
PROPERTY Returns
PROPERTY PlanCompletes
CHECK_DEADLOCK FALSE
