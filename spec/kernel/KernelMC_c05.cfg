SPECIFICATION Spec
CONSTANTS
  OrphanNested = FALSE
  MaxProc = 2
  MaxEv = 7
  MaxOps = 3
  MaxPlan = 2
  Delays = {1}
  Kinds = {"timeout", "event", "succeed", "fail", "cond", "yield"}
  PlanKinds = {"run"}
  UntilTimes = {1}
  Catches = {0, 1}
  MaxKids = 2
CONSTRAINT Emit
INVARIANT SingleWait
INVARIANT AgendaNotPast
INVARIANT LifeCycle
INVARIANT LogTimeOrdered
INVARIANT ProbeOnce
INVARIANT DeliveredIsEventOutcome
INVARIANT FirstResumeIsInit
INVARIANT CondPendingMeansUnmet
PROPERTY TimeMonotone
CHECK_DEADLOCK FALSE
