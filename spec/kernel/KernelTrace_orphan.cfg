INIT Init
NEXT Next
CONSTANTS
  OrphanNested = TRUE
CONSTRAINT Mark
POSTCONDITION Post
CHECK_DEADLOCK FALSE
