INIT Init
NEXT Next
CONSTRAINT Mark
POSTCONDITION Post
CHECK_DEADLOCK FALSE
